#!/bin/sh
# confirm + try every mutant of a property produced in /tmp/mut-<ID>/mutants/<ID>_<i>
ID=$1
for d in /tmp/mut-$ID/mutants/${ID}_*; do
  n=$(basename $d)
  [ -f $d/patch.diff ] || continue
  /verif/tools/confirm_mutant.sh /tmp/mut-$ID $d $n 2>&1 | tail -1
  /verif/tools/try_mutant.sh $d/patch.diff $ID 2>&1 | grep "^check\|^VIOLATION\|dirty\|error" | head -4
done
