#!/bin/sh
# Confirm a seeded change in a scratch worktree: suite passes with it, demo fails with it and passes without it.
# usage: tools/confirm_mutant.sh <worktree> <mutant-dir (patch.diff, demo.rs)> <name>
# prints a JSON-ish summary line; exit 0 when all three hold.
WT=$1; MD=$2; NAME=$3
export CARGO_NET_OFFLINE=true
cd $WT || exit 2
git checkout -q -- . ; git clean -qfd -e target -e mutants
PKGDIR=rscel/tests; PKG=rscel
if grep -q "extensions/to_sql" $MD/patch.diff && grep -q "rscel_to_sql\|to_sql" $MD/demo.rs; then PKGDIR=extensions/to_sql/tests; PKG=rscel-to-sql; fi
mkdir -p $PKGDIR; cp $MD/demo.rs $PKGDIR/demo_$NAME.rs
cargo test --offline -p $PKG --test demo_$NAME >/tmp/confirm_$NAME.clean.log 2>&1; CLEAN=$?
git apply $MD/patch.diff || { echo "patch does not apply"; exit 2; }
cargo test --offline -p $PKG --test demo_$NAME >/tmp/confirm_$NAME.mut.log 2>&1; MUT=$?
rm -f $PKGDIR/demo_$NAME.rs
cargo test --workspace --no-fail-fast --offline >/tmp/confirm_$NAME.suite.log 2>&1; SUITE=$?
git checkout -q -- . ; git clean -qfd -e target -e mutants
echo "confirm $NAME: demo_on_clean_rc=$CLEAN demo_on_mutant_rc=$MUT suite_on_mutant_rc=$SUITE"
[ $CLEAN = 0 ] && [ $MUT != 0 ] && [ $SUITE = 0 ]
