#!/usr/bin/env python3
"""Source-derived tables (DESIGN.md §4.3): read the rigid, table-like items of the repository under test and
write them as Lean data to lean/RscelModel/Generated/Tables.lean, so that the table theorems
(lean/RscelModel/Theorems/Tables*.lean, `by decide`) are re-checked against what the code says *now*.

An item that cannot be found in the expected syntactic form is written as `none` (the table theorem then holds
vacuously for it) and reported on stdout as `translator_tie: unavailable <item>` — that is not a violation, the
claimed tie for that item is then the correspondence run alone.  The file is only rewritten when its content changes.

usage: extract_tables.py [repo-root]   (default $VERIF_REPO or /repo)"""
import os, re, sys, json

REPO = sys.argv[1] if len(sys.argv) > 1 else os.environ.get("VERIF_REPO", "/repo")
V = os.path.dirname(os.path.dirname(os.path.abspath(__file__)))
OUT = os.path.join(V, "lean", "RscelModel", "Generated", "Tables.lean")
unavailable = []


def read(rel):
    try:
        return open(os.path.join(REPO, rel), encoding="utf-8").read()
    except OSError:
        return None


def strip_comments(t):
    t = re.sub(r"/\*.*?\*/", "", t, flags=re.S)
    return re.sub(r"//[^\n]*", "", t)


def const_table(text, name):
    """`const NAME: … = &[ ("a", …), ("b", …) ];` → ["a", "b"] (first string of each entry); also `&["a", "b"]`."""
    if text is None:
        return None
    m = re.search(r"const\s+" + name + r"\s*:[^=]*=\s*&\s*\[(.*?)\]\s*;", strip_comments(text), flags=re.S)
    if not m:
        return None
    body = m.group(1)
    if "(" in body:
        return re.findall(r"\(\s*\"([^\"]*)\"\s*,", body)
    return re.findall(r"\"([^\"]*)\"", body)


def const_table_pairs(text, name):
    """`const NAME: … = &[ ("a", &impl_a), … ];` → [("a", "impl_a"), …] (name and the path it is bound to)."""
    if text is None:
        return None
    m = re.search(r"const\s+" + name + r"\s*:[^=]*=\s*&\s*\[(.*?)\]\s*;", strip_comments(text), flags=re.S)
    if not m:
        return None
    ps = re.findall(r"\(\s*\"([^\"]*)\"\s*,\s*&?\s*([A-Za-z0-9_:]+)\s*\)", m.group(1))
    names = re.findall(r"\(\s*\"([^\"]*)\"\s*,", m.group(1))
    return ps if ps and len(ps) == len(names) else None


def lean_pairs(ps):
    return "[" + ", ".join("(%s, %s)" % (json.dumps(a), json.dumps(b)) for a, b in ps) + "]"


def lean_str_list(xs):
    return "[" + ", ".join(json.dumps(x) for x in xs) + "]"


def opt(xs, render=lean_str_list):
    return "none" if xs is None else "some " + render(xs)


def item(name, value, why=None):
    if value is None:
        unavailable.append(name)
    return value


# ---- name tables
funcs_txt = read("rscel/src/context/default_funcs.rs")
macros_txt = read("rscel/src/context/default_macros.rs")
types_txt = read("rscel/src/context/type_funcs.rs")
compiler_txt = read("rscel/src/compiler/compiler.rs")
interp_txt = read("rscel/src/interp/interp.rs")

default_funcs = item("DEFAULT_FUNCS", const_table(funcs_txt, "DEFAULT_FUNCS"))
default_macros = item("DEFAULT_MACROS", const_table(macros_txt, "DEFAULT_MACROS"))
compile_macros = item("COMPILE_MACROS", const_table(macros_txt, "COMPILE_MACROS"))
default_macro_impls = item("DEFAULT_MACROS impls", const_table_pairs(macros_txt, "DEFAULT_MACROS"))
compile_macro_impls = item("COMPILE_MACROS impls", const_table_pairs(macros_txt, "COMPILE_MACROS"))
clock_functions = item("CLOCK_FUNCTIONS", const_table(compiler_txt, "CLOCK_FUNCTIONS"))

type_table = None
if types_txt:
    m = re.search(r"fn\s+load_default_types\s*\([^)]*\)\s*\{(.*?)\n\}", strip_comments(types_txt), flags=re.S)
    if m:
        pairs = re.findall(r"add_type\(\s*\"([^\"]+)\"\s*,\s*CelValue::([a-z_]+)_type\(\)", m.group(1))
        if pairs:
            type_table = pairs
item("load_default_types", type_table)

constructable = None
if types_txt:
    m = re.search(r"fn\s+construct_type\s*\([^)]*\)[^{]*\{\s*match\s+type_name\s*\{(.*?)\n\s*_\s*=>", strip_comments(types_txt), flags=re.S)
    if m:
        constructable = re.findall(r"\"([^\"]+)\"\s*=>", m.group(1))
item("construct_type", constructable)

max_nesting = None
if compiler_txt:
    m = re.search(r"const\s+MAX_NESTING_DEPTH\s*:\s*usize\s*=\s*(\d+)\s*;", compiler_txt)
    if m:
        max_nesting = int(m.group(1))
item("MAX_NESTING_DEPTH", max_nesting)

max_depth = None
if interp_txt:
    m = re.search(r"count\(\)\s*>\s*(\d+)", interp_txt)
    if m:
        max_depth = int(m.group(1))
item("interpreter depth limit", max_depth)


# ---- enum layouts (serde): variant name, skipped for (de)serialisation, behind a cargo feature
def enum_variants(text, name):
    if text is None:
        return None
    t = strip_comments(text)
    m = re.search(r"pub\s+enum\s+" + name + r"\b[^{]*\{", t)
    if not m:
        return None
    i = m.end()
    depth = 1
    j = i
    while j < len(t) and depth > 0:
        if t[j] == "{":
            depth += 1
        elif t[j] == "}":
            depth -= 1
        j += 1
    body = t[i : j - 1]
    # split at top-level commas
    parts, cur, d = [], "", 0
    for ch in body:
        if ch in "([{<":
            d += 1
        elif ch in ")]}>":
            d -= 1
        if ch == "," and d == 0:
            parts.append(cur)
            cur = ""
        else:
            cur += ch
    if cur.strip():
        parts.append(cur)
    out = []
    for p in parts:
        attrs = re.findall(r"#\[(.*?)\]", p, flags=re.S)
        rest = re.sub(r"#\[.*?\]", "", p, flags=re.S).strip()
        mm = re.match(r"([A-Za-z_][A-Za-z0-9_]*)", rest)
        if not mm:
            continue
        skipped = any("skip_serializing" in a or "skip_deserializing" in a or re.search(r"\bskip\b", a) for a in attrs)
        feature = None
        for a in attrs:
            fm = re.search(r'cfg\(\s*feature\s*=\s*"([^"]+)"', a)
            if fm:
                feature = fm.group(1)
        out.append((mm.group(1), skipped, feature))
    return out or None


celvalue = item("enum CelValue", enum_variants(read("rscel/src/types/cel_value.rs"), "CelValue"))
bytecode = item("enum ByteCode", enum_variants(read("rscel/src/interp/types/bytecode.rs"), "ByteCode"))
celerror = item("enum CelError", enum_variants(read("rscel/src/types/cel_error.rs"), "CelError"))
jmpwhen = item("enum JmpWhen", enum_variants(read("rscel/src/interp/types/bytecode.rs"), "JmpWhen"))


cargo_txt = read("rscel/Cargo.toml") or ""
dm = re.search(r"^default\s*=\s*\[(.*?)\]", cargo_txt, flags=re.M | re.S)
DEFAULT_FEATURES = re.findall(r'"([^"]+)"', dm.group(1)) if dm else []


def layout(vs):
    # a variant behind cfg(feature = "x") is compiled in iff x is a default feature of the crate
    return "[" + ", ".join("(%s, %s)" % (json.dumps(n), "true" if s else "false") for (n, s, f) in vs if f is None or f in DEFAULT_FEATURES) + "]"


# ---- #[dispatch] signatures
TAG = {"i64": "int", "u64": "uint", "f64": "double", "bool": "bool", "String": "str", "CelBytes": "bytes", "Vec": "list", "Map": "map",
       "CelValueMap": "map", "HashMap": "map", "DateTime": "ts", "Duration": "dur", "CelValue": "any"}


def dispatch_mods(text):
    """{module name: [(this_tag|None, [arg tags])]} for every `#[dispatch] mod NAME { … }` of a file."""
    t = strip_comments(text)
    res = {}
    for m in re.finditer(r"#\[dispatch\]\s*(?:pub\s+)?mod\s+([A-Za-z_0-9]+)\s*\{", t):
        i = m.end()
        depth = 1
        j = i
        while j < len(t) and depth > 0:
            if t[j] == "{":
                depth += 1
            elif t[j] == "}":
                depth -= 1
            j += 1
        body = t[i : j - 1]
        # drop nested modules (helpers)
        flat, k = "", 0
        while k < len(body):
            mm = re.compile(r"\bmod\s+[A-Za-z_0-9]+\s*\{").search(body, k)
            if not mm:
                flat += body[k:]
                break
            flat += body[k : mm.start()]
            d, k = 1, mm.end()
            while k < len(body) and d > 0:
                if body[k] == "{":
                    d += 1
                elif body[k] == "}":
                    d -= 1
                k += 1
        sigs = []
        ok = True
        # only top-level fns of the module (depth 0 in `flat`)
        depth0, pos = 0, 0
        for fm in re.finditer(r"[{}]|\bfn\s+[A-Za-z_0-9]+\s*\(([^)]*)\)", flat):
            if fm.group(0) == "{":
                depth0 += 1
            elif fm.group(0) == "}":
                depth0 -= 1
            elif depth0 == 0:
                params = [p.strip() for p in fm.group(1).split(",") if p.strip()]
                this, args = None, []
                for p in params:
                    if ":" not in p:
                        ok = False
                        continue
                    pn, pt = [x.strip() for x in p.split(":", 1)]
                    base = re.match(r"(?:[A-Za-z_0-9]+::)*([A-Za-z_0-9]+)", pt)
                    tag = TAG.get(base.group(1)) if base else None
                    if tag is None:
                        ok = False
                        continue
                    if re.sub(r"^mut\s+", "", pn).strip() == "this":
                        this = tag
                    else:
                        args.append(tag)
                sigs.append((this, args))
        if ok and sigs:
            res[m.group(1)] = sigs
    return res


def aliases(text):
    """`pub use MOD::dispatch as NAME;` → {NAME: MOD}"""
    return {a: m for (m, a) in re.findall(r"pub\s+use\s+([A-Za-z_0-9]+)::dispatch\s+as\s+([A-Za-z_0-9]+)\s*;", strip_comments(text))}


signatures = {}  # cel name -> sigs
sig_ok = default_funcs is not None and funcs_txt is not None
if sig_ok:
    # cel name -> last path segment of the implementation
    entries = re.findall(r"\(\s*\"([^\"]+)\"\s*,\s*&\s*([A-Za-z_0-9:]+)\s*,?\s*\)", strip_comments(funcs_txt))
    impl_of = {n: p.split("::")[-1] for (n, p) in entries}
    alias_to_sigs = {}
    base = os.path.join(REPO, "rscel/src/context")
    for root, _, files in os.walk(base):
        for f in files:
            if not f.endswith(".rs"):
                continue
            txt = open(os.path.join(root, f), encoding="utf-8").read()
            if "#[dispatch]" not in txt:
                continue
            mods = dispatch_mods(txt)
            for a, mname in aliases(txt).items():
                if mname in mods:
                    alias_to_sigs[a] = mods[mname]
    for n, impl in impl_of.items():
        if impl in alias_to_sigs:
            signatures[n] = alias_to_sigs[impl]
    # constructors: construct_type arm "int" => int_impl(..)
    if types_txt:
        m = re.search(r"fn\s+construct_type.*?match\s+type_name\s*\{(.*?)\n\s*_\s*=>", strip_comments(types_txt), flags=re.S)
        if m:
            for tn, impl in re.findall(r"\"([^\"]+)\"\s*=>\s*([A-Za-z_0-9]+)\s*\(", m.group(1)):
                if impl in alias_to_sigs:
                    signatures["ctor:" + tn] = alias_to_sigs[impl]
if not signatures:
    unavailable.append("#[dispatch] signatures")


def lean_sig(s):
    this, args = s
    return "(%s, [%s])" % ("none" if this is None else "some .%s" % this, ", ".join("." + a for a in args))


def lean_sigs(d):
    rows = []
    for n in sorted(d):
        rows.append("  (%s, [%s])" % (json.dumps(n), ", ".join(lean_sig(s) for s in d[n])))
    return "[\n" + ",\n".join(rows) + " ]"


text = f"""import RscelModel.Model.Builtins
/-
GENERATED by tools/extract_tables.py from the repository under test — do not edit.
Source-derived tables: name tables, limits, serde enum layouts (default features) and `#[dispatch]` signatures.
`none` = the item was not found in the expected syntactic form (translator tie unavailable for it).
-/
namespace Rscel.Generated

def defaultFuncs : Option (List String) := {opt(default_funcs)}
def defaultMacros : Option (List String) := {opt(default_macros)}
def compileMacros : Option (List String) := {opt(compile_macros)}
/-- (macro name, the function it is bound to) as written in the two tables. -/
def defaultMacroImpls : Option (List (String × String)) := {opt(default_macro_impls, lean_pairs)}
def compileMacroImpls : Option (List (String × String)) := {opt(compile_macro_impls, lean_pairs)}
def clockFunctions : Option (List String) := {opt(clock_functions)}
def typeTable : Option (List (String × String)) := {opt(type_table, lambda ps: "[" + ", ".join("(%s, %s)" % (json.dumps(a), json.dumps(b)) for a, b in ps) + "]")}
def constructable : Option (List String) := {opt(constructable)}
def maxNestingDepth : Option Nat := {"none" if max_nesting is None else "some %d" % max_nesting}
def maxCallDepth : Option Nat := {"none" if max_depth is None else "some %d" % max_depth}

/-- (variant name, skipped by serde) in declaration order, default features. -/
def celValueLayout : Option (List (String × Bool)) := {opt(celvalue, layout)}
def byteCodeLayout : Option (List (String × Bool)) := {opt(bytecode, layout)}
def celErrorLayout : Option (List (String × Bool)) := {opt(celerror, layout)}
def jmpWhenLayout : Option (List (String × Bool)) := {opt(jmpwhen, layout)}

/-- CEL name (constructors as `ctor:<type>`) ↦ the overloads of its `#[dispatch]` module in declaration order:
    (receiver tag, argument tags). Functions implemented without `#[dispatch]` do not appear. -/
def signatures : List (String × List (Option Tag × List Tag)) := {lean_sigs(signatures)}

end Rscel.Generated
"""
os.makedirs(os.path.dirname(OUT), exist_ok=True)
old = open(OUT).read() if os.path.exists(OUT) else None
if old != text:
    open(OUT, "w").write(text)
    print("extract_tables: Generated/Tables.lean rewritten")
else:
    print("extract_tables: Generated/Tables.lean unchanged")
for u in unavailable:
    print("translator_tie: unavailable", u)
print("extract_tables: %d dispatch signatures, %d items unavailable" % (len(signatures), len(unavailable)))
