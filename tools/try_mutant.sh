#!/bin/sh
# Apply a seeded change to /repo, run the quick checks of the given properties, undo it straight afterwards.
# usage: tools/try_mutant.sh <patch.diff> <ID> [<ID> ...]
P=$1; shift
R=${VERIF_REPO:-/repo}; git -C $R diff --quiet || { echo "$R is dirty"; exit 2; }
git -C $R apply $P || exit 2
cd "$(dirname "$0")/.."
for id in "$@"; do ./check $id --tier ${TIER:-quick} 2>&1 | grep -v "^WARNING" | tail -4; done
git -C $R checkout -- .
