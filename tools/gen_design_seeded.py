#!/usr/bin/env python3
"""Regenerate the table of DESIGN.md §12 from seeded/*/meta.json."""
import json, os, re, glob
V = os.path.dirname(os.path.dirname(os.path.abspath(__file__)))
rows = []
for d in sorted(glob.glob(os.path.join(V, 'seeded', '*'))):
    m = json.load(open(os.path.join(d, 'meta.json')))
    need = re.sub(r'\s+', ' ', m.get('needs_to_manifest', '')).strip()
    need = need[:260] + ('…' if len(need) > 260 else '')
    rows.append("| %s | %s | %s |" % (os.path.basename(d), need.replace('|', '\\|'), m.get('detected_by', '').replace('|', '\\|')))
table = "| change | the agent's note: what was changed / what it needs to manifest (truncated) | caught by |\n|---|---|---|\n" + "\n".join(rows)
s = open(os.path.join(V, 'DESIGN.md')).read()
i = s.index('## 12. Seeded changes')
j = s.index('## 13. As built')
sec = s[i:j]
a = sec.index('| change |')
b = sec.index('\n\n', a)
sec = sec[:a] + table + sec[b:]
open(os.path.join(V, 'DESIGN.md'), 'w').write(s[:i] + sec + s[j:])
print("DESIGN.md §12 table regenerated: %d changes" % len(rows))
