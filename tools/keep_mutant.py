#!/usr/bin/env python3
"""Record a confirmed seeded change under /verif/seeded/<name>/ (patch.diff, demo.rs, meta.json).
usage: keep_mutant.py <mutant-dir> <name> <property> <detected-by: e.g. 'C04 quick: oracle'> [confirm-line]"""
import json, os, shutil, sys
md, name, prop, detected = sys.argv[1:5]
confirm = sys.argv[5] if len(sys.argv) > 5 else ""
d = os.path.join('/verif/seeded', name)
os.makedirs(d, exist_ok=True)
shutil.copy(os.path.join(md, 'patch.diff'), os.path.join(d, 'patch.diff'))
shutil.copy(os.path.join(md, 'demo.rs'), os.path.join(d, 'demo.rs'))
notes = open(os.path.join(md, 'notes.txt')).read() if os.path.exists(os.path.join(md, 'notes.txt')) else ''
meta = {
    "property": prop,
    "origin": "fresh sub-agent given only the property text and a scratch worktree",
    "needs_to_manifest": notes.strip(),
    "confirmed": "tools/confirm_mutant.sh in a scratch worktree: demo passes on the clean tree, fails with the patch; the full existing suite (cargo test --workspace) passes with the patch. " + confirm,
    "ran": "tools/try_mutant.sh seeded/%s/patch.diff %s  (git -C /repo apply; ./check; git -C /repo checkout -- .)" % (name, prop),
    "detected_by": detected,
}
json.dump(meta, open(os.path.join(d, 'meta.json'), 'w'), indent=1)
print("kept", d)
