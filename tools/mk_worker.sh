#!/bin/sh
# Set up an isolated workspace for a helper: clone of /verif + scratch worktree of /repo, harness pointed at that worktree.
# usage: tools/mk_worker.sh <name>     ->  /tmp/w-<name>/verif , /tmp/w-<name>/repo
set -e
N=$1
D=/tmp/w-$N
rm -rf $D; mkdir -p $D
git clone -q /verif $D/verif
git -C /repo worktree add --detach $D/repo HEAD >/dev/null 2>&1
cd $D/verif
sed -i "s#/repo/#$D/repo/#g" harness/Cargo.toml
git update-index --assume-unchanged harness/Cargo.toml
cp -r /verif/lean/.lake $D/verif/lean/.lake 2>/dev/null || true
echo "worker workspace ready: $D (export VERIF_REPO=$D/repo)"
