#!/bin/sh
# Regression of the checks' detection power: apply each kept seeded change to /repo, run the quick check of its
# property, undo it. Prints one line per change; exit 1 if one is not reported.  usage: tools/run_seeded.sh [name ...]
cd /verif
git -C /repo diff --quiet || { echo "/repo is dirty"; exit 2; }
NAMES="$@"; [ -z "$NAMES" ] && NAMES=$(ls seeded)
BAD=0
for n in $NAMES; do
  P=$(python3 -c "import json;print(json.load(open('seeded/$n/meta.json'))['property'])")
  if ! git -C /repo apply --check seeded/$n/patch.diff 2>/dev/null; then echo "$n ($P): patch no longer applies (the code it changed was repaired since)"; continue; fi
  git -C /repo apply seeded/$n/patch.diff
  OUT=$(./check $P --tier quick 2>&1 | grep -v "^WARNING" | tail -3)
  git -C /repo checkout -- .
  if echo "$OUT" | grep -q "^VIOLATION property=$P"; then echo "$n ($P): detected  [$(echo "$OUT" | grep '^check' | sed 's/.*theorems/theorems/')]"; else echo "$n ($P): MISSED"; BAD=1; fi
done
exit $BAD
