#!/bin/sh
# Regression of the checks' detection power: apply each kept seeded change to the repository under test
# (VERIF_REPO, default /repo), run the quick check of its property, undo it.  One line per change; exit 1 if one is
# not reported.  (meta.check_property names the property whose check reports it, when that is not the property the
# change was written against.)  usage: tools/run_seeded.sh [name ...]
V=$(cd "$(dirname "$0")/.." && pwd)
R=${VERIF_REPO:-/repo}
cd "$V"
git -C "$R" diff --quiet || { echo "$R is dirty"; exit 2; }
NAMES="$@"; [ -z "$NAMES" ] && NAMES=$(ls seeded)
BAD=0
for n in $NAMES; do
  P=$(python3 -c "import json;m=json.load(open('seeded/$n/meta.json'));print(m.get('check_property', m['property']))")
  if ! git -C "$R" apply --check "$V/seeded/$n/patch.diff" 2>/dev/null; then echo "$n ($P): patch no longer applies (the code it changed was changed since)"; continue; fi
  git -C "$R" apply "$V/seeded/$n/patch.diff"
  OUT=$(./check $P --tier quick 2>&1 | grep -v "^WARNING" | tail -4)
  git -C "$R" checkout -- .
  if echo "$OUT" | grep -q "^VIOLATION property=$P replay=[^ ]*$"; then echo "$n ($P): detected, failing input found  [$(echo "$OUT" | grep '^check' | sed 's/.*theorems/theorems/')]"
  elif echo "$OUT" | grep -q "^VIOLATION property=$P"; then echo "$n ($P): detected (no-failing-input-found)  [$(echo "$OUT" | grep '^check' | sed 's/.*theorems/theorems/')]"
  else echo "$n ($P): MISSED"; BAD=1; fi
done
exit $BAD
