#!/usr/bin/env python3
"""Regenerate MANIFEST.json from properties_conf.json (single source of per-property registration)."""
import json, os
V = os.path.dirname(os.path.dirname(os.path.abspath(__file__)))
conf = json.load(open(os.path.join(V, "properties_conf.json")))
ids = [json.loads(l)["id"] for l in open(os.path.join(V, "properties.jsonl"))]
claimed = [i for i in ids if i in conf and conf[i].get("claimed", True)]
checks = []
for i in claimed:
    c = conf[i]
    checks.append({
        "property_id": i,
        "quick_cmd": "./check %s --tier quick" % i,
        "thorough_cmd": "./check %s --tier thorough" % i,
        "evidence_file": "evidence/%s.json" % i,
        "replay_cmd_template": "./check %s --replay {path}" % i,
        "engine": "lean-model",
        "level_claimed": {"category": "proof", "text": c["level_text"], "design_ref": "DESIGN.md §7 " + i},
        "level_note": c.get("level_note", "Trusted: Lean kernel; the hand-written model (tied to the code by the correspondence run: differential testing, sampled/exhaustive-on-grid, not a translation); hardware IEEE-754 and Rust std; the harness. The theorems are about the model."),
        "technique": c.get("technique", "Lean 4 proof over executable model + model/implementation correspondence check"),
    })
na = [{"property_id": i, "reason": conf.get(i, {}).get("na_reason", "not claimed yet: the model/theorems/tie for this property are not built in the committed state (planned, DESIGN.md §9); the technique applies")} for i in ids if i not in claimed]
m = {
    "version": 1,
    "setup_cmd": "cd /verif && ./setup.sh",
    "hooks": {
        "guard": "rscel_verif",
        "enable": "no source hooks are needed: every observation goes through rscel's public API (serde impls, Program::ast(), StringTokenizer); the harness is a separate crate with a path dependency on /repo, rebuilt by every check",
        "baseline_off_cmd": "cd /repo && cargo test --workspace --no-fail-fast --offline",
        "source_commits": [],
        "add_only": True,
    },
    "engines": [
        {"name": "lean-model", "path": "lean", "serves_properties": claimed, "kind_free_text": "Lean 4 executable model of rscel + property theorems (kernel-checked, axioms audited), compiled driver rscel_model"},
        {"name": "harness", "path": "harness", "serves_properties": claimed, "kind_free_text": "Rust correspondence harness: real rscel API vs Lean driver on generated inputs, plus model-free oracles of each property"},
    ],
    "checks": checks,
    "not_applicable": na,
    "notes": "Family: machine-checked proof in Lean 4. Every check = (theorems re-checked + axiom audit) + (correspondence model vs real code) + (direct oracle on the real code). See DESIGN.md (§11 dated changes, §12 seeded changes: 167 kept in seeded/, re-run by tools/run_seeded.sh; benign/: 24 behaviour-preserving rewrites that must raise no alarm, tools/run_benign.sh; known_findings.json: recorded and repaired defects).",
}
json.dump(m, open(os.path.join(V, "MANIFEST.json"), "w"), indent=1)
print("claimed:", claimed)
