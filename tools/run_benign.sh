#!/bin/sh
# False-alarm regression: apply each kept behaviour-preserving rewrite (benign/<name>/patch.diff) to the repository
# under test (VERIF_REPO, default /repo), run the quick checks of the properties its area touches, undo it.
# No check may print VIOLATION.  usage: tools/run_benign.sh [name ...]
V=$(cd "$(dirname "$0")/.." && pwd)
R=${VERIF_REPO:-/repo}
cd "$V"
git -C "$R" diff --quiet || { echo "$R is dirty"; exit 2; }
NAMES="$@"; [ -z "$NAMES" ] && NAMES=$(ls benign | grep '^ben_')
BAD=0
for n in $NAMES; do
  case $n in
    ben_A_*) IDS="C02 C09 C10 C13 C17 C18 C01";;
    ben_B_*) IDS="C05 C07 C08 C11 C12 C09 C01";;
    ben_C_*) IDS="C03 C04 C06 C14 C15 C16 C01";;
    *) IDS="C19 C20 C12 C17 C13";;
  esac
  if ! git -C "$R" apply --check "$V/benign/$n/patch.diff" 2>/dev/null; then echo "$n: patch no longer applies"; continue; fi
  git -C "$R" apply "$V/benign/$n/patch.diff"
  for id in $IDS; do
    OUT=$(./check $id --tier quick 2>&1 | grep "^VIOLATION")
    if [ -n "$OUT" ]; then echo "$n / $id: FALSE ALARM: $OUT"; BAD=1; fi
  done
  git -C "$R" checkout -- .
  echo "$n: checked against $IDS"
done
exit $BAD
