#!/usr/bin/env python3
"""Resolve the predictable conflicts of merging a helper's branch: registries are unions.
- harness/src/facets/mod.rs: union of lines
- harness/src/main.rs: union of the facet match arms (conflict hunks concatenated)
- properties_conf.json: key-wise union (theirs wins on keys only they changed relative to base; ours otherwise)
- MANIFEST.json, evidence/*.json: ours (regenerated afterwards)
Everything else is left for manual resolution and listed."""
import json, subprocess, sys, re
def sh(*a): return subprocess.run(a, capture_output=True, text=True)
conf = sh('git','diff','--name-only','--diff-filter=U').stdout.split()
left = []
for f in conf:
    if f == 'harness/src/facets/mod.rs' or f == 'lean/RscelModel.lean':
        ours = sh('git','show',':2:'+f).stdout.splitlines(); theirs = sh('git','show',':3:'+f).stdout.splitlines()
        out = list(ours) + [l for l in theirs if l not in ours]
        open(f,'w').write("\n".join(out)+"\n"); sh('git','add',f)
    elif f == 'properties_conf.json' or f == 'known_findings.json':
        base = json.loads(sh('git','show',':1:'+f).stdout or '{}'); ours = json.loads(sh('git','show',':2:'+f).stdout); theirs = json.loads(sh('git','show',':3:'+f).stdout)
        if f == 'properties_conf.json':
            out = dict(ours)
            for k, v in theirs.items():
                if k not in ours or (base.get(k) == ours.get(k) and v != ours.get(k)):
                    out[k] = v
        else:
            out = dict(ours)
            for key in ('known', 'fixed'):
                have = [json.dumps(x, sort_keys=True) for x in ours.get(key, [])]
                out[key] = ours.get(key, []) + [x for x in theirs.get(key, []) if json.dumps(x, sort_keys=True) not in have]
        json.dump(out, open(f,'w'), indent=1); sh('git','add',f)
    elif f == 'MANIFEST.json' or f.startswith('evidence/'):
        sh('git','checkout','--ours',f); sh('git','add',f)
    elif f in ('harness/src/main.rs', 'lean/Main.lean'):
        text = open(f).read()
        # keep both sides of every conflict hunk (ours first)
        text2 = re.sub(r'<<<<<<< [^\n]*\n(.*?)=======\n(.*?)>>>>>>> [^\n]*\n', lambda m: m.group(1) + m.group(2), text, flags=re.S)
        open(f,'w').write(text2); left.append(f + ' (both sides kept: review)')
    else:
        left.append(f)
print("unresolved / to review:", left)
