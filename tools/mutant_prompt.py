#!/usr/bin/env python3
"""Print the prompt handed to a fresh sub-agent that seeds a property-breaking change (only the property text + a scratch worktree)."""
import json, sys
pid, wt = sys.argv[1], sys.argv[2]
n = sys.argv[3] if len(sys.argv) > 3 else "2"
STYLE = sys.argv[4] if len(sys.argv) > 4 else ""
for l in open('/verif/properties.jsonl'):
    p = json.loads(l)
    if p['id'] == pid:
        break
print(f"""You are helping to test a verification tool. You have a scratch git worktree of the Rust project 1BADragon/rscel (a Common Expression Language evaluator: tokenizer, parser, constant-folding bytecode compiler, stack VM) at {wt}. Work ONLY inside {wt} (never touch /repo or /verif, do not read /verif).

Here is a semantic property the project is supposed to satisfy:

TITLE: {p['title']}
STATEMENT: {p['statement']}
QUANTIFIER: {p['quantifier']['text']}
CODE ANCHORS: {json.dumps(p['anchors'].get('mechanism', []))}

Task: produce {n} DIFFERENT, independent source changes ("mutants") to the project's non-test source code, each of which breaks this property while the project still compiles and the existing test suite still passes. Each change must be realistic (the kind of bug a maintainer could introduce in a refactor or optimisation) and SUBTLE: it must need something specific to manifest — an unusual input, a boundary value, a particular combination of operand types, a multi-step sequence, or two cooperating sites that each look fine alone — NOT something that ordinary use would expose at once. {STYLE} Do not edit tests. Do not add dependencies (the sandbox is offline; use `cargo ... --offline`).

For each mutant i (1..{n}):
 1. Start from a clean tree (`git -C {wt} checkout -- . && git -C {wt} clean -fd -e target -e mutants`).
 2. Make the change; check it compiles and that the test suite passes: `cd {wt} && cargo test --workspace --no-fail-fast --offline 2>&1 | tail -30` (all tests must pass; the first build takes a few minutes).
 3. Write a demonstration as an integration test file `{wt}/rscel/tests/demo_{pid}_<i>.rs` (or under extensions/to_sql/tests/ if the change is there) using only the public API (e.g. `rscel::{{CelContext, BindContext, Program, CelValue}}`; `ctx.add_program_str("main", src)`, `ctx.exec("main", &bindings)`), which FAILS with the change and PASSES without it. Verify both: run it with the change (`cargo test --offline -p rscel --test demo_{pid}_<i>`), then take the source change out WITHOUT `git stash` (the stash is shared by all worktrees of this repository and other people use it concurrently): `git diff -- . ':!*/tests/*' > /tmp/<your-mutant>.diff && git apply -R /tmp/<your-mutant>.diff`, run the demo again to see it pass, then `git apply /tmp/<your-mutant>.diff` to restore. Never use `git stash` in this worktree.
 4. Save into `{wt}/mutants/{pid}_<i>/`: `patch.diff` (output of `git diff` of the source change only, NOT including the demo test, applicable with `git apply` from the repository root), `demo.rs` (the demonstration test file), and `notes.txt` (one paragraph: what was changed, what specific input/sequence is needed for it to manifest, commands you ran and their outcome).
Finally restore the worktree to a clean state (keep the `mutants/` directory, which is untracked) and reply with a short summary listing each mutant, the file/function changed, and the triggering input. Keep the patches small (a few lines each).""")
