mod api;
mod gen;
mod facets;
mod model;
mod pool;
mod report;
mod rng;
mod wire;

pub struct Opts {
    pub thorough: bool,
    pub seed: u64,
    pub driver: String,
    pub out: String,
    pub replay: Option<String>,
}

fn main() {
    let args: Vec<String> = std::env::args().collect();
    if args.len() < 2 {
        eprintln!("usage: verif-harness <facet> [--thorough] [--seed N] [--driver PATH] [--out FILE] [--replay FILE]");
        std::process::exit(2);
    }
    let facet = args[1].clone();
    if facet == "--c12-child" {
        // isolated executor of the C12 facet: one context per input line
        std::panic::set_hook(Box::new(|_| {}));
        facets::c12::child_main();
        return;
    }
    let mut opts = Opts {
        thorough: false,
        seed: 1,
        driver: "/verif/lean/.lake/build/bin/rscel_model".to_string(),
        out: "/dev/stdout".to_string(),
        replay: None,
    };
    let mut i = 2;
    while i < args.len() {
        match args[i].as_str() {
            "--thorough" => opts.thorough = true,
            "--seed" => {
                i += 1;
                opts.seed = args[i].parse().unwrap_or(1)
            }
            "--driver" => {
                i += 1;
                opts.driver = args[i].clone()
            }
            "--out" => {
                i += 1;
                opts.out = args[i].clone()
            }
            "--replay" => {
                i += 1;
                opts.replay = Some(args[i].clone())
            }
            other => {
                eprintln!("unknown argument {}", other);
                std::process::exit(2)
            }
        }
        i += 1;
    }
    // panics are observations, not noise
    let default_hook = std::panic::take_hook();
    std::panic::set_hook(Box::new(move |info| {
        if !report::IN_GUARD.with(|g| g.get()) {
            default_hook(info)
        }
    }));
    let rep = match facet.as_str() {
        "C03" => facets::c03::run(&opts),
        "C04" => facets::c04::run(&opts),
        "C10" => facets::c10::run(&opts),
        "C05" => facets::c05::run(&opts),
        "C06" => facets::c06::run(&opts),
        "C09" => facets::c09::run(&opts),
        "C12" => facets::c12::run(&opts),
        "C11" => facets::c11::run(&opts),
        other => {
            eprintln!("unknown facet {}", other);
            std::process::exit(2)
        }
    };
    let text = serde_json::to_string_pretty(&rep.to_json()).unwrap();
    std::fs::write(&opts.out, text).expect("cannot write report");
}
