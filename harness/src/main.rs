mod api;
mod gen;
mod facets;
mod model;
mod pool;
mod report;
mod rng;
mod wire;

pub struct Opts {
    pub thorough: bool,
    pub seed: u64,
    pub driver: String,
    pub out: String,
    pub replay: Option<String>,
}

fn main() {
    let args: Vec<String> = std::env::args().collect();
    if args.len() < 2 {
        eprintln!("usage: verif-harness <facet> [--thorough] [--seed N] [--driver PATH] [--out FILE] [--replay FILE]");
        std::process::exit(2);
    }
    let facet = args[1].clone();
    if facet == "__c01child" {
        // worker side of the C01 facet: evaluate the jobs of a file, one outcome line each
        std::panic::set_hook(Box::new(|_| {}));
        facets::c01::child_main(&args[2]);
        return;
    }
    if facet == "probe" {
        // development aid: evaluate source texts under the standard bindings, print result + call log
        let users = vec![("tick".to_string(), api::UserFn::Arg0)];
        for src in &args[2..] {
            let binds = gen::std_bindings(0);
            match api::compile(src) {
                Ok(p) => {
                    let o = api::exec_full(&[("main".to_string(), p.clone())], "main", &binds, &users);
                    println!("{}\n  => {} {}\n  code {}", src, o.obs, o.log, api::code_wire(&p));
                }
                Err(e) => println!("{}\n  => compile {}", src, e),
            }
        }
        return;
    }
    if facet == "--c12-child" {
        // isolated executor of the C12 facet: one context per input line
        std::panic::set_hook(Box::new(|_| {}));
        facets::c12::child_main();
        return;
    }
    let mut opts = Opts {
        thorough: false,
        seed: 1,
        driver: "/verif/lean/.lake/build/bin/rscel_model".to_string(),
        out: "/dev/stdout".to_string(),
        replay: None,
    };
    let mut i = 2;
    while i < args.len() {
        match args[i].as_str() {
            "--thorough" => opts.thorough = true,
            "--seed" => {
                i += 1;
                opts.seed = args[i].parse().unwrap_or(1)
            }
            "--driver" => {
                i += 1;
                opts.driver = args[i].clone()
            }
            "--out" => {
                i += 1;
                opts.out = args[i].clone()
            }
            "--replay" => {
                i += 1;
                opts.replay = Some(args[i].clone())
            }
            other => {
                eprintln!("unknown argument {}", other);
                std::process::exit(2)
            }
        }
        i += 1;
    }
    // panics are observations, not noise
    let default_hook = std::panic::take_hook();
    std::panic::set_hook(Box::new(move |info| {
        if !report::IN_GUARD.with(|g| g.get()) {
            default_hook(info)
        }
    }));
    let rep = match facet.as_str() {
        "C01" => facets::c01::run(&opts),
        "C02" => facets::c02::run(&opts),
        "C03" => facets::c03::run(&opts),
        "C04" => facets::c04::run(&opts),
        "C10" => facets::c10::run(&opts),
        "C05" => facets::c05::run(&opts),
        "C06" => facets::c06::run(&opts),
        "C09" => facets::c09::run(&opts),
        "C19" => facets::c19::run(&opts),
        "C13" => facets::c13::run(&opts),
        "C07" => facets::c07::run(&opts),
        "C08" => facets::c08::run(&opts),
        "C18" => facets::c18::run(&opts),
        "C17" => facets::c17::run(&opts),
        "C14" => facets::c14::run(&opts),
        "C15" => facets::c15::run(&opts),
        "C16" => facets::c16::run(&opts),
        "C20" => facets::c20::run(&opts),
        "C12" => facets::c12::run(&opts),
        "C11" => facets::c11::run(&opts),
        other => {
            eprintln!("unknown facet {}", other);
            std::process::exit(2)
        }
    };
    let text = serde_json::to_string_pretty(&rep.to_json()).unwrap();
    std::fs::write(&opts.out, text).expect("cannot write report");
}
