//! C09 — constant folding is invisible: replacing a variable by a literal of its bound value (or a literal by a
//! variable bound to it) never changes the result; clock-dependent calls are never frozen.
//! The oracle is purely metamorphic (no model): all 2^|V| literal/variable variants of one expression must give
//! the same observation and the same call log on the real code.
use crate::api::{code_wire, compile, env_wire, exec_full, lex_obs, literal, UserFn};
use crate::facets::pipe::{queue_bytecode, queue_exec};
use crate::facets::vmrun::generate;
use crate::gen::std_bindings;
use crate::report::{Pending, Report};
use crate::wire::{hex, l1, show_val};
use crate::Opts;
use rscel::{CelValue, Program};
use serde_json::json;

/// (kind, start, end) of every token of a single-line source, in char offsets.
fn tokens(src: &str) -> Option<Vec<(String, usize, usize)>> {
    let obs = lex_obs(src);
    if !obs.starts_with("T:") {
        return None;
    }
    let mut out = Vec::new();
    for t in obs.split(' ').skip(1) {
        let (kind, span) = t.rsplit_once('@')?;
        let (s, e) = span.split_once('-')?;
        let (sl, sc) = s.split_once(':')?;
        let (el, ec) = e.split_once(':')?;
        if sl != "0" || el != "0" {
            return None;
        }
        out.push((kind.to_string(), sc.parse().ok()?, ec.parse().ok()?));
    }
    Some(out)
}

fn unhex(h: &str) -> String {
    if h == "_" {
        return String::new();
    }
    let bytes: Vec<u8> = (0..h.len() / 2).filter_map(|i| u8::from_str_radix(&h[2 * i..2 * i + 2], 16).ok()).collect();
    String::from_utf8_lossy(&bytes).to_string()
}

/// Positions (token indices) where identifier `name` occurs as a *variable read*: not after `.`, not before `(`,
/// and the expression does not use `name` as a macro loop variable anywhere (`(name,` right after a macro name).
fn variable_positions(toks: &[(String, usize, usize)], name: &str) -> Option<Vec<usize>> {
    let id = format!("id:{}", hex(name.as_bytes()));
    let mut pos = Vec::new();
    for (i, (k, _, _)) in toks.iter().enumerate() {
        if *k != id {
            continue;
        }
        let prev = if i > 0 { toks[i - 1].0.as_str() } else { "" };
        let next = if i + 1 < toks.len() { toks[i + 1].0.as_str() } else { "" };
        if prev == "." || next == "(" {
            continue;
        }
        // binder position of a macro: `.map(x,` `.reduce(acc, x,` — then `x` is not (only) the outer variable
        if (prev == "(" || prev == ",") && next == "," {
            let mut j = i;
            while j > 0 && toks[j].0 != "(" {
                j -= 1;
            }
            if j >= 2 && toks[j - 2].0 == "." {
                let m = unhex(toks[j - 1].0.trim_start_matches("id:"));
                if ["map", "filter", "all", "exists", "exists_one", "reduce"].contains(&m.as_str()) {
                    return None;
                }
            }
        }
        pos.push(i);
    }
    Some(pos)
}

fn splice(src: &str, toks: &[(String, usize, usize)], repl: &[(usize, String)]) -> String {
    let chars: Vec<char> = src.chars().collect();
    let mut out = String::new();
    let mut at = 0usize;
    let mut repl: Vec<&(usize, String)> = repl.iter().collect();
    repl.sort_by_key(|r| toks[r.0].1);
    for (ti, text) in repl {
        let (_, s, e) = &toks[*ti];
        out.extend(chars[at..*s].iter());
        out.push_str(text);
        at = *e;
    }
    out.extend(chars[at..].iter());
    out
}

fn run_variant(src: &str, binds: &[(String, CelValue)]) -> (String, Option<Program>) {
    let users = vec![("tick".to_string(), UserFn::Arg0)];
    match compile(src) {
        Ok(p) => {
            let o = exec_full(&[("main".to_string(), p.clone())], "main", binds, &users);
            (format!("{} {}", l1(&o.obs), o.log), Some(p))
        }
        Err(e) => (format!("{} L:0", if e == "P" { "P" } else { "E" }), None),
    }
}

pub fn run(opts: &Opts) -> Report {
    let mut rep = Report::new(
        "C09",
        "generated expressions (operators, ?:, match, calls, macros, f-strings, map/list literals) x every subset of their variables replaced by literals of the bound values \
         x literals replaced by fresh bound variables x 3 binding variants; all variants must give the same value-or-failure and the same call log; \
         clock calls must stay calls in the bytecode and be re-evaluated; non-trivial = expression with >= 1 substitutable variable, distinct by (source, bindings)",
    );
    let mut pending: Vec<Pending> = Vec::new();
    let n = if opts.thorough { 60_000 } else { 2_500 };
    let mut cases = generate(opts, n, |g| {
        g.doubles = true;
    });
    // hand-picked shapes around the folder's special cases
    for s in [
        "x ? 2 : 3", "(x / z > 0) ? 'a' : 'b'", "(1 / z) ? 1 : 2", "{'a': x, 'a': 2}.a", "{'a': 1, 'a': y}", "{s: 1, 'héllo': 2}", "[x].filter(v, true)", "[x, 1/z].map(v, v)",
        "size([x, y])", "[1, 2, x].map(v, v + y)", "f'{x}-{s}'", "x in [1, 7, y]", "s in {'héllo': 1}", "m.a + x", "l[x - 7]", "l[z - 1]", "[1, 2, 3][z - 1]", "min(x, y, z)",
        "coalesce(n, x)", "has(m.a) ? x : y", "(match x { case 7: y, case _: z })", "(match x { case > y: 1, case int: 2 })", "u + 1u", "d * 2.0", "-x", "!b", "x - y - z", "string(x) + s",
        "int(s)", "x / z", "x % z", "9223372036854775807 + x", "b || (1/z)", "f && (1/z)", "(1/z) || b", "[x][1]", "{'k': x}.q", "bool(t)", "t ? x : y", "e ? x : y", "n ? x : y",
    ] {
        cases.push(crate::facets::vmrun::Case { src: s.to_string(), binds_variant: 0 });
        cases.push(crate::facets::vmrun::Case { src: s.to_string(), binds_variant: 3 });
    }
    let names = ["x", "y", "z", "u", "d", "s", "t", "b", "f", "l", "e", "m", "n"];
    for c in cases.iter() {
        let binds = std_bindings(c.binds_variant);
        let toks = match tokens(&c.src) {
            Some(t) => t,
            None => {
                rep.count(None);
                rep.bump("skip:not-lexable-single-line");
                continue;
            }
        };
        // variables present, with their literal spelling
        let mut vars: Vec<(String, Vec<usize>, String)> = Vec::new();
        let mut skip = false;
        for nm in names.iter() {
            match variable_positions(&toks, nm) {
                None => {
                    skip = true;
                    break;
                }
                Some(p) if !p.is_empty() => {
                    let v = &binds.iter().find(|(k, _)| k == nm).unwrap().1;
                    if let Some(lit) = literal(v) {
                        // parenthesise so that the literal is one operand whatever surrounds it
                        vars.push((nm.to_string(), p, format!("({})", lit)));
                    }
                }
                _ => {}
            }
        }
        if skip {
            rep.count(None);
            rep.bump("skip:outer-variable-reused-as-loop-variable");
            continue;
        }
        vars.truncate(4);
        let (base, base_prog) = run_variant(&c.src, &binds);
        if base.starts_with("P ") {
            rep.oracle_fail(&c.src, "P", "value or error", "compile/evaluate panicked");
        }
        if base_prog.is_none() {
            // not a program (the generator's noise can produce e.g. `4.map(..)`, where `4.` is a double): nothing to substitute in
            rep.count(None);
            rep.bump("skip:syntax-error");
            continue;
        }
        let key = format!("{}|{}", c.src, c.binds_variant);
        rep.count(if vars.is_empty() { None } else { Some(&key) });
        rep.bump(&format!("variables:{}", vars.len()));
        rep.bump(&format!("outcome:{}", if base.starts_with("E ") { "failure" } else { "value" }));
        if let Some(p) = &base_prog {
            let folded = p.bytecode().len() == 1;
            rep.bump(if folded { "base-program:single-constant" } else { "base-program:code" });
        }
        // every non-empty subset of the variables turned into literals
        for mask in 1u32..(1u32 << vars.len()) {
            let mut repl: Vec<(usize, String)> = Vec::new();
            for (i, (_, pos, lit)) in vars.iter().enumerate() {
                if mask & (1 << i) != 0 {
                    for p in pos {
                        repl.push((*p, lit.clone()));
                    }
                }
            }
            let src2 = splice(&c.src, &toks, &repl);
            let (obs2, prog2) = run_variant(&src2, &binds);
            rep.count(None);
            if let Some(p) = &prog2 {
                if p.bytecode().len() == 1 {
                    rep.bump("variant-program:single-constant");
                }
            }
            if obs2 != base {
                rep.oracle_fail(
                    &format!("{}   vs   {}   [bindings variant {}]", c.src, src2, c.binds_variant),
                    &obs2,
                    &base,
                    "replacing variables by literals of their bound values changed the result (or the call log)",
                );
            }
            if mask == (1u32 << vars.len()) - 1 && rep.samples.len() < 6 {
                rep.sample(json!({"src": c.src, "all_literal_form": src2, "result": base}));
            }
            // the model pipeline must agree on the fully literal form too (this is where its folder is exercised)
            if mask == (1u32 << vars.len()) - 1 {
                let users = vec![("tick".to_string(), UserFn::Arg0)];
                pending.push(Pending {
                    request: format!("exec {} {}", env_wire(&[], &binds, &users), hex(src2.as_bytes())),
                    implementation: if prog2.is_some() { let users2 = users.clone(); let o = exec_full(&[("main".to_string(), prog2.clone().unwrap())], "main", &binds, &users2); format!("{} {}", o.obs, o.log) } else { "e:syntax L:0".to_string() },
                    level: 3,
                    input: format!("{} [bindings variant {}]", src2, c.binds_variant),
                });
                if mask as usize % 4 == 3 {
                    queue_bytecode(&mut pending, &src2);
                }
            }
        }
        // literals -> fresh variables bound to the same value
        let mut repl: Vec<(usize, String)> = Vec::new();
        let mut binds2 = binds.clone();
        for (i, (k, _, _)) in toks.iter().enumerate() {
            let prev = if i > 0 { toks[i - 1].0.as_str() } else { "" };
            let val = if let Some(d) = k.strip_prefix("int:") {
                // a literal directly after unary minus may be the spelling of i64::MIN: leave it
                if prev == "-" { None } else { d.parse::<u64>().ok().and_then(|u| i64::try_from(u).ok()).map(CelValue::Int) }
            } else if let Some(d) = k.strip_prefix("uint:") {
                d.parse::<u64>().ok().map(CelValue::UInt)
            } else if let Some(h) = k.strip_prefix("str:") {
                // map keys written as literals stay literals half of the time (both are legal)
                Some(CelValue::String(unhex(h)))
            } else if k == "true" || k == "false" {
                Some(CelValue::Bool(k == "true"))
            } else if let Some(h) = k.strip_prefix("float:") {
                u64::from_str_radix(h, 16).ok().map(|b| CelValue::Float(f64::from_bits(b)))
            } else {
                None
            };
            if let Some(v) = val {
                let name = format!("lit{}", repl.len());
                binds2.push((name.clone(), v));
                repl.push((i, name));
            }
        }
        if !repl.is_empty() {
            let src3 = splice(&c.src, &toks, &repl);
            let (obs3, _) = run_variant(&src3, &binds2);
            rep.count(None);
            rep.bump("literals-to-variables");
            if obs3 != base {
                rep.oracle_fail(
                    &format!("{}   vs   {}   [bindings variant {}]", c.src, src3, c.binds_variant),
                    &obs3,
                    &base,
                    "replacing literals by variables bound to the same values changed the result (or the call log)",
                );
            }
        }
    }
    // ---- renaming a loop variable to the name of a built-in function / macro, and spelling a macro call in method
    // position, must not change the result: the compile-time evaluation of an inner closed call must not freeze
    // what it could not resolve (real code against real code).  Since the model follows fix 4d08d12 (the compile-time
    // run records, as a reserved log entry, that it met a name it could not resolve, and `checkForConst` does not fold
    // then) both members of every pair also go through the model: result + call log (`exec`) and bytecode (`compile`),
    // so the correspondence covers which calls are folded and which are not.
    let mut pairs: Vec<(String, String)> = vec![
        ("[1].map(sz, dyn([sz]))".into(), "[1].map(size, dyn([size]))".into()),
        ("[7].map(mx, dyn([mx]))[0][0]".into(), "[7].map(max, dyn([max]))[0][0]".into()),
        ("[1, 2].reduce(ac, v, dyn([ac])[0] + v, 0)".into(), "[1, 2].reduce(min, v, dyn([min])[0] + v, 0)".into()),
        ("[1].map(sz, string({'a': dyn([sz])} == {'a': [1]}))".into(), "[1].map(size, string({'a': dyn([size])} == {'a': [1]}))".into()),
        ("[1].filter(sz, bool(size([sz])))".into(), "[1].filter(sort, bool(size([sort])))".into()),
        ("[has(m.a)][0]".into(), "dyn([[1].has(m.a)])[0]".into()),
        ("[has(1)][0]".into(), "dyn([[1].has(1)])[0]".into()),
        ("[coalesce(null, 2)]".into(), "dyn([[1].coalesce(null, 2)])".into()),
        ("[[1].has(1)].sort()".into(), "[[2].has(1)].sort()".into()),
        ("size([[1].has(1)]) == 1 && [[1].has(1)][0]".into(), "size(dyn([[1].has(1)])) == 1 && dyn([[1].has(1)])[0]".into()),
        // relatives: coalesce in method position (unbound / null / failing operands), has inside a macro body,
        // the two loop variables of reduce, nested comprehensions, a folded call next to a call that must stay
        ("[coalesce(q, 3)][0]".into(), "dyn([[1].coalesce(q, 3)])[0]".into()),
        ("size([coalesce(null, 'ab')])".into(), "size(dyn([[0].coalesce(null, 'ab')]))".into()),
        ("[coalesce(m.zz, 1/z, 5)]".into(), "dyn([{}.coalesce(m.zz, 1/z, 5)])".into()),
        ("string([coalesce()])".into(), "string(dyn([[1].coalesce()]))".into()),
        ("[1].map(v, [has(m.a)][0])".into(), "[1].map(v, dyn([[1].has(m.a)])[0])".into()),
        ("[has(m.a.b.c)]".into(), "dyn([m.has(m.a.b.c)])".into()),
        ("[1, 2, 3].reduce(ac, v, size(dyn([ac, v])) + ac, 0)".into(), "[1, 2, 3].reduce(max, v, size(dyn([max, v])) + max, 0)".into()),
        ("[1, 2].reduce(ac, v, dyn([v])[0] + ac, 0)".into(), "[1, 2].reduce(ac, size, dyn([size])[0] + ac, 0)".into()),
        ("[1, 2].reduce(ac, v, dyn([ac, v]), [])".into(), "[1, 2].reduce(coalesce, has, dyn([coalesce, has]), [])".into()),
        ("[[1]].map(w, w.map(sz, dyn([sz])))".into(), "[[1]].map(w, w.map(size, dyn([size])))".into()),
        ("[1].exists(sz, dyn([sz])[0] == 1)".into(), "[1].exists(abs, dyn([abs])[0] == 1)".into()),
        ("[2].exists_one(sz, size(dyn([sz, sz])) == 2)".into(), "[2].exists_one(filter, size(dyn([filter, filter])) == 2)".into()),
        ("[size([1, 2]), [3].map(sz, dyn([sz]))[0][0]]".into(), "[size([1, 2]), [3].map(size, dyn([size]))[0][0]]".into()),
        ("dyn([nosuch])".into(), "dyn([nosuch])".into()),
        ("[dyn([1]).nosuch]".into(), "dyn([dyn([1]).nosuch])".into()),
        ("[nosuch(1)]".into(), "dyn([nosuch(1)])".into()),
        ("[{'a': 1}.b]".into(), "dyn([{'a': 1}.b])".into()),
        ("[[1].nosuch(2)]".into(), "dyn([[1].nosuch(2)])".into()),
    ];
    // nesting up to the deepest the parser accepts: the literal form (evaluated by the compiler) and the variable form
    // (evaluated at run time) agree, so the two evaluations have the same depth limit
    for k in [1usize, 8, 16, 24, 28, 29, 30, 31] {
        for (f, var, lit) in [("int", "x", "7"), ("dyn", "l", "[1, 2, 3]"), ("string", "s", "'héllo'"), ("abs", "x", "7")] {
            let nest = |a: &str| format!("{}{}{}", format!("{}(", f).repeat(k), a, ")".repeat(k));
            pairs.push((nest(var), nest(lit)));
        }
        let par = |x: &str| format!("{}{}{}", "[".repeat(k), x, "]".repeat(k));
        pairs.push((par("x"), par("7")));
    }
    for c in cases.iter().take(if opts.thorough { 20_000 } else { 2_500 }) {
        // generated macro expressions: the generator names loop variables v0, v1, ..; rename v0 to a function name
        if c.src.contains("(v0,") && !c.src.contains("size") && !c.src.contains("tick(v0") {
            let toks = match tokens(&c.src) {
                Some(t) => t,
                None => continue,
            };
            let id = format!("id:{}", hex(b"v0"));
            let repl: Vec<(usize, String)> = toks.iter().enumerate().filter(|(_, t)| t.0 == id).map(|(i, _)| (i, "size".to_string())).collect();
            pairs.push((c.src.clone(), splice(&c.src, &toks, &repl)));
        }
    }
    for (a, b) in pairs.iter() {
        let binds = std_bindings(0);
        let (ra, pa) = run_variant(a, &binds);
        let (rb, pb) = run_variant(b, &binds);
        rep.count(Some(b));
        rep.bump("renaming-pairs");
        // model comparison of both members: value-or-failure + call log, and the bytecode (what was folded)
        for src in [a, b] {
            queue_exec(&mut rep, &mut pending, src, 0);
            queue_bytecode(&mut pending, src);
            rep.bump("renaming-pairs:model-requests");
        }
        // (a member the parser rejects, e.g. for its nesting depth, is not a program: nothing to compare)
        if pa.is_none() || pb.is_none() {
            continue;
        }
        if ra != rb {
            rep.oracle_fail(&format!("{}   vs   {}", a, b), &rb, &ra, "renaming a loop variable to a built-in's name / spelling a macro call in method position changed the result: a compile-time evaluation froze a name it could not resolve");
        }
    }
    // ---- clock-dependent calls are never frozen
    // (source, is the result fine-grained enough to differ after a few milliseconds)
    let clock_srcs: [(&str, bool); 33] = [
        // the clock reached through a method name (not among the identifiers the program reads)
        ("'abc'.now()", true), ("[1].now()", true), ("string('abc'.now())", true), ("[1].map(v, 'a'.now())[0]", true), ("size(['a'.now()])", false),
        ("f'{[1].now()}'", true), ("{'k': 'a'.now()}.k", true), ("true ? 'a'.now() : timestamp(0)", true), ("max('a'.now(), timestamp(0))", true),
        ("now()", true), ("timestamp()", true), ("[now()]", true), ("f'{now()}'", true), ("now() + duration(1)", true), ("[1].map(v, now())[0]", true),
        ("timestamp() == timestamp(0)", false), ("{'t': now()}.t", true), ("true ? now() : timestamp(0)", true), ("string(now())", true), ("(now() > timestamp(0)) ? now() : now()", true),
        // a clock call nested inside the arguments of an otherwise closed call
        ("int(timestamp())", false), ("string(timestamp())", true), ("int(now())", false), ("size([now()])", false), ("timestamp(timestamp())", true), ("max(timestamp(), timestamp(0))", true),
        ("[timestamp()].map(v, v)[0]", true), ("f'{timestamp()}'", true), ("timestamp().getSeconds()", false), ("string(int(timestamp()))", false), ("bool(timestamp())", false),
        ("min(now(), now())", true), ("[now(), timestamp()].size()", false),
    ];
    for (src, fine) in clock_srcs.iter() {
        let src = *src;
        rep.count(Some(src));
        rep.bump("clock");
        match compile(src) {
            Err(e) => rep.oracle_fail(src, &e, "program", "a clock expression must compile"),
            Ok(p) => {
                let code = code_wire(&p);
                let has_call = code.contains(&format!("PUSH id:{} CALL:0", hex(b"now")))
                    || code.contains(&format!("PUSH id:{} CALL:0", hex(b"timestamp")))
                    || code.contains(&format!("PUSH id:{} ACCESS CALL:0", hex(b"now")));
                if !has_call {
                    rep.oracle_fail(src, &code, "bytecode containing CALL now / timestamp", "a clock-dependent call was evaluated by the compiler");
                }
                let run = |p: &Program| exec_full(&[("main".to_string(), p.clone())], "main", &[], &[]).obs;
                let a = run(&p);
                std::thread::sleep(std::time::Duration::from_millis(3));
                let b = run(&p);
                if *fine && a == b {
                    rep.oracle_fail(src, &format!("{} then {}", a, b), "two different instants", "the clock was not read at every execution");
                }
                queue_bytecode(&mut pending, src);
            }
        }
    }
    let _ = show_val;
    rep.compare_with_model(&opts.driver, &pending);
    rep
}
