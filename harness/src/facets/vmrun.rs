//! Shared machinery: generated programs → real compiler → (real VM | model VM on the real bytecode | wfBlock).
use crate::api::{code_wire, compile, env_wire, exec_full, UserFn};
use crate::gen::{std_bindings, Gen, Ty};
use crate::report::{Pending, Report};
use crate::rng::Rng;
use crate::Opts;
use serde_json::json;

pub struct Case {
    pub src: String,
    pub binds_variant: u64,
}

pub fn generate(opts: &Opts, n: usize, cfg: impl Fn(&mut Gen)) -> Vec<Case> {
    let mut rng = Rng::new(opts.seed);
    let mut cases = Vec::new();
    for i in 0..n {
        let depth = 1 + (i % 5) as u32;
        let want = [Ty::Int, Ty::Bool, Ty::Any, Ty::List, Ty::Str, Ty::Map, Ty::UInt][i % 7];
        let src = {
            let mut g = Gen::new(&mut rng);
            cfg(&mut g);
            g.expr(depth, want)
        };
        cases.push(Case { src, binds_variant: (i % 6) as u64 });
    }
    cases
}

/// Run every case on the real code and queue the model requests. `wf`: also queue a wfBlock request.
pub fn run_cases(rep: &mut Report, pending: &mut Vec<Pending>, cases: &[Case], wf: bool, level: u8) {
    let users = vec![("tick".to_string(), UserFn::Arg0)];
    for c in cases {
        let prog = match compile(&c.src) {
            Ok(p) => p,
            Err(e) => {
                rep.count(None);
                rep.bump(&format!("compile:{}", e));
                if e == "P" {
                    rep.oracle_fail(&c.src, "P", "program or syntax error", "compiler panicked");
                }
                continue;
            }
        };
        let binds = std_bindings(c.binds_variant);
        let progs = vec![("main".to_string(), prog.clone())];
        let out = exec_full(&progs, "main", &binds, &users);
        let code = code_wire(&prog);
        rep.count(Some(&format!("{}|{}", c.src, c.binds_variant)));
        rep.bump(&format!(
            "outcome:{}",
            if out.obs == "P" { "panic".to_string() } else if out.obs.starts_with("e:") { out.obs.clone() } else { "value".into() }
        ));
        rep.bump(&format!("bytecode_len:{}", (prog.bytecode().len() / 8) * 8));
        rep.sample(json!({"src": c.src, "bindings_variant": c.binds_variant, "impl": out.obs, "log": out.log}));
        if out.obs == "P" {
            rep.oracle_fail(&c.src, "P", "value or error", "evaluation panicked");
        }
        let imp = format!("{} {}", out.obs, out.log);
        pending.push(Pending {
            request: format!("vm {} {}", env_wire(&[], &binds, &users), code),
            implementation: imp,
            level: if level <= 1 { 3 } else { 9 },
            input: format!("{} [bindings variant {}]", c.src, c.binds_variant),
        });
        if wf {
            pending.push(Pending { request: format!("wf {}", code), implementation: "wf:ok".to_string(), level: 9, input: format!("wfBlock on bytecode of: {}", c.src) });
        }
    }
}
