//! C03 — numeric operators are exact or fail.
use crate::api::{exec_src, literal};
use crate::pool;
use crate::report::{guarded, Pending, Report};
use crate::rng::Rng;
use crate::wire::{l1, show_val};
use crate::Opts;
use rscel::CelValue;
use serde_json::json;

const OPS: [(&str, &str); 5] = [("add", "+"), ("sub", "-"), ("mul", "*"), ("div", "/"), ("rem", "%")];

fn apply(op: &str, a: CelValue, b: CelValue) -> CelValue {
    match op {
        "add" => a + b,
        "sub" => a - b,
        "mul" => a * b,
        "div" => a / b,
        _ => a % b,
    }
}

/// exact integer view of int/uint/bool
fn as_int(v: &CelValue) -> Option<(i128, u8)> {
    match v {
        CelValue::Int(i) => Some((*i as i128, 0)),
        CelValue::UInt(u) => Some((*u as i128, 1)),
        CelValue::Bool(b) => Some((*b as i128, 2)),
        _ => None,
    }
}

fn as_f64(v: &CelValue) -> Option<f64> {
    match v {
        CelValue::Int(i) => Some(*i as f64),
        CelValue::UInt(u) => Some(*u as f64),
        CelValue::Bool(b) => Some(if *b { 1.0 } else { 0.0 }),
        CelValue::Float(f) => Some(*f),
        _ => None,
    }
}

/// Expected observation from the property text alone (exact arithmetic in i128); None = not fixed by the property.
fn expected(op: &str, a: &CelValue, b: &CelValue) -> Option<String> {
    if let (Some((x, tx)), Some((y, ty))) = (as_int(a), as_int(b)) {
        if tx == 2 && ty == 2 {
            return None; // bool op bool: not fixed by the statement
        }
        let unsigned = tx != 0 && ty != 0;
        let r = match op {
            "add" => Some(x + y),
            "sub" => Some(x - y),
            "mul" => Some(x.checked_mul(y).unwrap_or(i128::MAX)),
            "div" => {
                if y == 0 {
                    None
                } else {
                    Some(x / y)
                }
            }
            _ => {
                if y == 0 {
                    None
                } else {
                    Some(x % y)
                }
            }
        };
        return Some(match r {
            None => "E".to_string(),
            Some(r) => {
                if unsigned {
                    if r >= 0 && r <= u64::MAX as i128 {
                        format!("u:{}", r)
                    } else {
                        "E".to_string()
                    }
                } else if r >= i64::MIN as i128 && r <= i64::MAX as i128 {
                    format!("i:{}", r)
                } else {
                    "E".to_string()
                }
            }
        });
    }
    let fa = matches!(a, CelValue::Float(_));
    let fb = matches!(b, CelValue::Float(_));
    if fa || fb {
        if let (Some(x), Some(y)) = (as_f64(a), as_f64(b)) {
            let r = match op {
                "add" => x + y,
                "sub" => x - y,
                "mul" => x * y,
                "div" => x / y,
                _ => return Some("E".to_string()),
            };
            return Some(show_val(&CelValue::Float(r)));
        }
    }
    // non-numeric combinations: error unless concatenation / time arithmetic
    use CelValue::*;
    if matches!(a, Err(_)) || matches!(b, Err(_)) {
        return Some("E".to_string());
    }
    let allowed = match (op, a, b) {
        ("add", String(_), String(_)) | ("add", Bytes(_), Bytes(_)) | ("add", List(_), List(_)) => true,
        ("add", TimeStamp(_), Duration(_)) | ("add", Duration(_), TimeStamp(_)) | ("add", Duration(_), Duration(_)) => true,
        ("sub", TimeStamp(_), Duration(_)) | ("sub", TimeStamp(_), TimeStamp(_)) | ("sub", Duration(_), Duration(_)) => true,
        ("sub", Duration(_), TimeStamp(_)) => true,
        _ => false,
    };
    if allowed {
        None
    } else {
        Some("E".to_string())
    }
}

fn one_case(rep: &mut Report, pending: &mut Vec<Pending>, op: (&str, &str), a: &CelValue, b: &CelValue, with_exec: bool) {
    let (name, sym) = op;
    let (a2, b2) = (a.clone(), b.clone());
    let direct = guarded(move || show_val(&apply(name, a2, b2)));
    let input = format!("{} {} {}", show_val(a), sym, show_val(b));
    let key = format!("{}|{}", name, input);
    let numeric_pair = as_f64(a).is_some() && as_f64(b).is_some();
    rep.count(if numeric_pair { Some(&key) } else { None });
    rep.bump(&format!("{}:{}x{}", name, pool::type_tag(a), pool::type_tag(b)));
    rep.bump(&format!("outcome:{}", if direct == "P" { "panic" } else if direct.starts_with("e:") { "error" } else { "value" }));
    rep.sample(json!({"op": name, "lhs": show_val(a), "rhs": show_val(b), "impl": direct}));
    if direct == "P" {
        rep.oracle_fail(&input, &direct, "value or error", "operator panicked");
    }
    if let Some(exp) = expected(name, a, b) {
        if l1(&direct) != exp {
            rep.oracle_fail(&input, &direct, &exp, "result differs from exact arithmetic (i128 / IEEE on widened operands)");
        }
    }
    pending.push(Pending {
        request: format!("arith {} {} {}", name, show_val(a), show_val(b)),
        implementation: direct.clone(),
        level: 1,
        input: input.clone(),
    });
    if with_exec && !matches!(a, CelValue::Err(_)) && !matches!(b, CelValue::Err(_)) {
        // same outcome through the public API with bound values and with literals
        let bound = exec_src(
            &format!("x {} y", sym),
            &[("x".to_string(), a.clone()), ("y".to_string(), b.clone())],
        );
        rep.count(None);
        if l1(&bound) != l1(&direct) {
            rep.oracle_fail(&format!("x {} y with x={} y={}", sym, show_val(a), show_val(b)), &bound, &direct, "bound-value evaluation differs from the operator itself");
        }
        if let (Some(la), Some(lb)) = (literal(a), literal(b)) {
            let src = format!("{} {} {}", la, sym, lb);
            let lit = exec_src(&src, &[]);
            rep.count(None);
            if l1(&lit) != l1(&direct) {
                rep.oracle_fail(&src, &lit, &direct, "literal evaluation differs from bound-value evaluation");
            }
        }
    }
}

pub fn run(opts: &Opts) -> Report {
    let mut rep = Report::new(
        "C03",
        "every (operator, lhs, rhs) over the boundary pools x {+,-,*,/,%} plus unary minus, then random 64-bit operands; \
         non-trivial = both operands numeric (int/uint/double/bool), distinct by (operator, operands)",
    );
    let mut pending = Vec::new();
    let nums = pool::numerics();
    let others = pool::others();
    // exhaustive numeric grid
    for op in OPS.iter() {
        for a in nums.iter() {
            for b in nums.iter() {
                one_case(&mut rep, &mut pending, *op, a, b, true);
            }
        }
    }
    // numeric x other and other x other (error arm / concat arms)
    for op in OPS.iter() {
        for a in others.iter() {
            for b in nums.iter().step_by(7) {
                one_case(&mut rep, &mut pending, *op, a, b, false);
                one_case(&mut rep, &mut pending, *op, b, a, false);
            }
            for b in others.iter() {
                one_case(&mut rep, &mut pending, *op, a, b, false);
            }
        }
    }
    // unary minus
    for a in pool::all_values().iter() {
        let a2 = a.clone();
        let direct = guarded(move || show_val(&(-a2)));
        let input = format!("- {}", show_val(a));
        rep.count(Some(&input));
        rep.bump(&format!("neg:{}", pool::type_tag(a)));
        let exp = match a {
            CelValue::Int(i) => Some(if *i == i64::MIN { "E".to_string() } else { format!("i:{}", -i) }),
            CelValue::Float(f) => Some(show_val(&CelValue::Float(-f))),
            CelValue::Err(_) => Some("E".to_string()),
            _ => Some("E".to_string()),
        };
        if direct == "P" {
            rep.oracle_fail(&input, &direct, "value or error", "unary minus panicked");
        }
        if let Some(e) = exp {
            if l1(&direct) != e {
                rep.oracle_fail(&input, &direct, &e, "unary minus differs from exact negation");
            }
        }
        pending.push(Pending { request: format!("neg {}", show_val(a)), implementation: direct, level: 1, input });
    }
    // runs of unary minus written directly in front of an operand: each sign is one negation (`--x` is -(-x), it is
    // an error when the inner negation is: MIN, any uint), bound and literal
    let neg1 = |v: &CelValue| -> Option<CelValue> {
        match v {
            CelValue::Int(i) => i.checked_neg().map(CelValue::Int),
            CelValue::Float(f) => Some(CelValue::Float(-f)),
            _ => None,
        }
    };
    for a in pool::all_values().iter().filter(|v| !matches!(v, CelValue::Err(_))) {
        for n in 2..=4usize {
            let mut exp = Some(a.clone());
            for _ in 0..n {
                exp = exp.and_then(|v| neg1(&v));
            }
            let expected = match exp {
                Some(v) => show_val(&v),
                None => "E".to_string(),
            };
            let mut srcs = vec![(format!("{}x", "-".repeat(n)), vec![("x".to_string(), a.clone())])];
            if let Some(l) = literal(a) {
                srcs.push((format!("{}{}", "-".repeat(n), l), vec![]));
            }
            for (src, binds) in srcs {
                let got = exec_src(&src, &binds);
                rep.count(Some(&format!("{}|{}", src, show_val(a))));
                rep.bump(&format!("neg-run:{}:{}", n, pool::type_tag(a)));
                if l1(&got) != expected {
                    rep.oracle_fail(&format!("{} with x = {}", src, show_val(a)), &got, &expected, "a run of unary minus signs is that many exact negations");
                }
                pending.push(Pending {
                    request: format!("exec {} {}", crate::api::env_wire(&[], &binds, &[]), crate::wire::hex(src.as_bytes())),
                    implementation: format!("{} L:0", got),
                    level: 3,
                    input: format!("{} with x = {}", src, show_val(a)),
                });
            }
        }
    }
    rep.exhaustive = true;
    // random operands
    let n = if opts.thorough { 400_000 } else { 20_000 };
    let mut rng = Rng::new(opts.seed);
    for i in 0..n {
        let a = pool::random_numeric(&mut rng);
        let b = pool::random_numeric(&mut rng);
        let op = OPS[rng.below(5)];
        one_case(&mut rep, &mut pending, op, &a, &b, i % 50 == 0);
    }
    rep.compare_with_model(&opts.driver, &pending);
    rep
}
