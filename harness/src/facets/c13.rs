//! C13 — literals denote exactly the value they spell; out-of-range ones are rejected.
//!
//! The oracle is model free: the generator renders a value it knows (or, for decimal texts that do not
//! come from a double, checks nearest-ness with exact big-integer arithmetic) and the real pipeline has to
//! give that value back bit for bit; malformed spellings have to be syntax errors.  Every case also goes
//! to the model (`exec`: value, `lex`: token stream without locations).
use crate::api::{exec_src, lex_obs};
use crate::model::run_model;
use crate::report::{Failure, Report};
use crate::rng::Rng;
use crate::wire::hex;
use crate::Opts;
use serde_json::json;
use std::cmp::Ordering;

// ---------------------------------------------------------------------------------------------
// exact arithmetic for the nearest-double check
// ---------------------------------------------------------------------------------------------

/// Minimal unsigned big integer (little-endian 32-bit limbs, no trailing zero limbs).
#[derive(Clone, Debug, PartialEq, Eq)]
struct Big(Vec<u32>);

impl Big {
    fn from_u128(mut x: u128) -> Big {
        let mut v = Vec::new();
        while x != 0 {
            v.push(x as u32);
            x >>= 32;
        }
        Big(v)
    }
    fn mul_small(&mut self, m: u32) {
        let mut carry: u64 = 0;
        for limb in self.0.iter_mut() {
            let t = (*limb as u64) * (m as u64) + carry;
            *limb = t as u32;
            carry = t >> 32;
        }
        if carry != 0 {
            self.0.push(carry as u32);
        }
        self.trim();
    }
    fn add_small(&mut self, a: u32) {
        let mut carry = a as u64;
        for limb in self.0.iter_mut() {
            if carry == 0 {
                break;
            }
            let t = (*limb as u64) + carry;
            *limb = t as u32;
            carry = t >> 32;
        }
        if carry != 0 {
            self.0.push(carry as u32);
        }
    }
    fn trim(&mut self) {
        while let Some(0) = self.0.last() {
            self.0.pop();
        }
    }
    fn shl(&mut self, bits: usize) {
        if self.0.is_empty() {
            return;
        }
        let (words, b) = (bits / 32, bits % 32);
        if b != 0 {
            let mut carry = 0u32;
            for limb in self.0.iter_mut() {
                let t = ((*limb as u64) << b) | carry as u64;
                *limb = t as u32;
                carry = (t >> 32) as u32;
            }
            if carry != 0 {
                self.0.push(carry);
            }
        }
        if words != 0 {
            let mut v = vec![0u32; words];
            v.extend_from_slice(&self.0);
            self.0 = v;
        }
    }
    fn mul_pow10(&mut self, mut e: usize) {
        while e >= 9 {
            self.mul_small(1_000_000_000);
            e -= 9;
        }
        if e > 0 {
            self.mul_small(10u32.pow(e as u32));
        }
    }
    fn from_dec(digits: &[u8]) -> Big {
        let mut b = Big(Vec::new());
        for chunk in digits.chunks(9) {
            let mut v = 0u32;
            for d in chunk {
                v = v * 10 + (*d - b'0') as u32;
            }
            b.mul_small(10u32.pow(chunk.len() as u32));
            b.add_small(v);
        }
        b.trim();
        b
    }
    /// self - 1 (self > 0)
    fn sub_one(&mut self) {
        for limb in self.0.iter_mut() {
            if *limb == 0 {
                *limb = u32::MAX;
            } else {
                *limb -= 1;
                break;
            }
        }
        self.trim();
    }
    fn is_zero(&self) -> bool {
        self.0.is_empty()
    }
    fn cmp(&self, o: &Big) -> Ordering {
        if self.0.len() != o.0.len() {
            return self.0.len().cmp(&o.0.len());
        }
        for i in (0..self.0.len()).rev() {
            if self.0[i] != o.0[i] {
                return self.0[i].cmp(&o.0[i]);
            }
        }
        Ordering::Equal
    }
}

/// Compare `d * 10^e10` with `n * 2^e2` exactly.
fn cmp_scaled(d: &Big, e10: i64, n: u128, e2: i64) -> Ordering {
    let mut l = d.clone();
    let mut r = Big::from_u128(n);
    if e10 >= 0 {
        l.mul_pow10(e10 as usize)
    } else {
        r.mul_pow10((-e10) as usize)
    }
    if e2 >= 0 {
        r.shl(e2 as usize)
    } else {
        l.shl((-e2) as usize)
    }
    l.cmp(&r)
}

/// Mantissa digits and decimal exponent of `digits* [. digits*] [(e|E) [+|-] digits+]`; None when the text
/// has another shape.  Written for the oracle, independent of the tokenizer and of the model.
fn decimal_of_text(text: &str) -> Option<(Vec<u8>, i64)> {
    let b = text.as_bytes();
    let mut i = 0;
    let mut digits = Vec::new();
    while i < b.len() && b[i].is_ascii_digit() {
        digits.push(b[i]);
        i += 1;
    }
    let mut frac = 0i64;
    if i < b.len() && b[i] == b'.' {
        i += 1;
        while i < b.len() && b[i].is_ascii_digit() {
            digits.push(b[i]);
            frac += 1;
            i += 1;
        }
    }
    if digits.is_empty() {
        return None;
    }
    let mut e: i64 = 0;
    if i < b.len() {
        if b[i] != b'e' && b[i] != b'E' {
            return None;
        }
        i += 1;
        let mut neg = false;
        if i < b.len() && (b[i] == b'+' || b[i] == b'-') {
            neg = b[i] == b'-';
            i += 1;
        }
        if i >= b.len() {
            return None;
        }
        while i < b.len() {
            if !b[i].is_ascii_digit() {
                return None;
            }
            e = (e * 10 + (b[i] - b'0') as i64).min(1_000_000_000);
            i += 1;
        }
        if neg {
            e = -e
        }
    }
    Some((digits, e - frac))
}

/// Is the non-negative double `bits` a correctly rounded (nearest, ties to even) image of `digits * 10^e10`?
fn is_nearest(digits: &[u8], e10: i64, bits: u64) -> bool {
    if bits >> 63 != 0 {
        return false;
    }
    let first = digits.iter().position(|d| *d != b'0');
    let sig = match first {
        None => return bits == 0, // the value is zero
        Some(p) => &digits[p..],
    };
    let exp = (bits >> 52) & 0x7ff;
    let frac = bits & ((1u64 << 52) - 1);
    if exp == 0x7ff && frac != 0 {
        return false;
    }
    // magnitude shortcuts keep the big integers small: 10^(len-1) <= sig < 10^len
    let top = e10 + sig.len() as i64; // value < 10^top, value >= 10^(top-1)
    if top - 1 >= 310 {
        return exp == 0x7ff;
    }
    if top <= -326 {
        return bits == 0;
    }
    let d = Big::from_dec(sig);
    if d.is_zero() {
        return bits == 0;
    }
    if exp == 0x7ff {
        // rounds to infinity iff value >= max finite + half an ulp = (2^54 - 1) * 2^970 (the tie goes up: even)
        return cmp_scaled(&d, e10, (1u128 << 54) - 1, 970) != Ordering::Less;
    }
    let (m, x): (u64, i64) = if exp == 0 { (frac, -1074) } else { (frac | (1u64 << 52), exp as i64 - 1075) };
    let even = m % 2 == 0;
    // in units of 2^(x-2): the double is 4m, the upper midpoint 4m+2, the lower one 4m-2 (4m-1 when the
    // predecessor lies in the binade below, where doubles are twice as dense)
    let hi = 4 * (m as u128) + 2;
    match cmp_scaled(&d, e10, hi, x - 2) {
        Ordering::Greater => return false,
        Ordering::Equal if !even => return false,
        _ => {}
    }
    if m == 0 {
        return true;
    }
    let lo = if m == (1u64 << 52) && exp > 1 { 4 * (m as u128) - 1 } else { 4 * (m as u128) - 2 };
    match cmp_scaled(&d, e10, lo, x - 2) {
        Ordering::Less => false,
        Ordering::Equal => even,
        Ordering::Greater => true,
    }
}

// ---------------------------------------------------------------------------------------------
// cases
// ---------------------------------------------------------------------------------------------

#[derive(Clone, Debug)]
enum Expect {
    /// the exact observation (wire form) the literal has to evaluate to
    Val(String),
    /// a double: `bits` when known by construction; the unsigned decimal text is always checked for nearest-ness
    Float { bits: Option<u64>, neg: bool, text: String },
    /// must be rejected with a syntax error
    Syntax,
    /// not fixed by the property: compared with the model only
    ModelOnly,
}

#[derive(Clone, Debug)]
struct Case {
    src: String,
    expect: Expect,
    kind: String,
    wrap: u8,
}

fn push(cases: &mut Vec<Case>, rng: &mut Rng, src: String, expect: Expect, kind: &str) {
    // most cases are evaluated bare; some inside a context (blanks, parentheses, a list)
    let wrap = match rng.below(10) {
        0 => 1,
        1 => 2,
        2 => 3,
        _ => 0,
    };
    cases.push(Case { src, expect, kind: kind.to_string(), wrap });
}

fn wrapped(c: &Case) -> String {
    match c.wrap {
        1 => format!(" {}\t", c.src),
        2 => format!("({})", c.src),
        3 => format!("[{}]", c.src),
        _ => c.src.clone(),
    }
}

fn wrap_obs(c: &Case, v: &str) -> String {
    if c.wrap == 3 {
        format!("l:1 {}", v)
    } else {
        v.to_string()
    }
}

// ---- integers ----

fn boundary_u64() -> Vec<u64> {
    let mut v: Vec<u64> = vec![0, 1, 2, 7, 8, 9, 10, 11, 15, 16, 17, 99, 100, 101, 255, 256, 0xabcdef, 0xfedcba9876543210, 0x123456789abcdef];
    for k in 1..64u32 {
        let p = 1u64 << k;
        v.extend_from_slice(&[p - 1, p, p + 1]);
    }
    for d in 0..4u64 {
        v.push(u64::MAX - d);
        v.push(i64::MAX as u64 - d);
        v.push(i64::MAX as u64 + 1 + d);
    }
    let mut p10 = 1u64;
    for _ in 0..19 {
        p10 *= 10;
        v.extend_from_slice(&[p10 - 1, p10, p10 + 1]);
    }
    v.sort();
    v.dedup();
    v
}

fn mixed_case_hex(v: u128, rng: &mut Rng) -> String {
    format!("{:x}", v).chars().map(|c| if rng.chance(1, 2) { c.to_ascii_uppercase() } else { c }).collect()
}

/// All spellings of the magnitude `v` (possibly beyond 64 bits): (text, style tag).
fn int_spellings(v: u128, rng: &mut Rng, all: bool) -> Vec<(String, &'static str)> {
    let mut out = vec![
        (format!("{}", v), "dec"),
        (format!("0x{:x}", v), "hex-lower"),
        (format!("0x{:X}", v), "hex-upper"),
        (format!("0X{:x}", v), "hex-0X"),
        (format!("0x{}", mixed_case_hex(v, rng)), "hex-mixed"),
        (format!("{}{}", "0".repeat(1 + rng.below(4)), v), "dec-leading-zeros"),
        (format!("0x{}{:x}", "0".repeat(1 + rng.below(20)), v), "hex-leading-zeros"),
    ];
    if !all {
        let keep = rng.below(out.len());
        let second = rng.below(out.len());
        out = out.into_iter().enumerate().filter(|(i, _)| *i == keep || *i == second).map(|(_, x)| x).collect();
    }
    out
}

fn int_cases(cases: &mut Vec<Case>, rng: &mut Rng, v: u128, all: bool) {
    let imax = i64::MAX as u128;
    let umax = u64::MAX as u128;
    for (text, style) in int_spellings(v, rng, all) {
        // plain: an int
        let e = if v <= imax { Expect::Val(format!("i:{}", v)) } else { Expect::Syntax };
        push(cases, rng, text.clone(), e, &format!("int/{}{}", style, if v <= imax { "" } else { "/out-of-range" }));
        // u / U suffix: a uint
        let suffix = if rng.chance(1, 4) { "U" } else { "u" };
        let e = if v <= umax { Expect::Val(format!("u:{}", v)) } else { Expect::Syntax };
        push(cases, rng, format!("{}{}", text, suffix), e, &format!("uint/{}{}", style, if v <= umax { "" } else { "/out-of-range" }));
        // directly negated: the int -v, down to -2^63
        let e = if v <= imax + 1 { Expect::Val(format!("i:{}", -(v as i128))) } else { Expect::Syntax };
        let sp = if rng.chance(1, 8) { " " } else { "" };
        push(cases, rng, format!("-{}{}", sp, text), e, &format!("negint/{}{}", style, if v <= imax + 1 { "" } else { "/out-of-range" }));
        if v == imax + 1 {
            // 2^63 only fits together with its sign: behind parentheses it is out of range
            push(cases, rng, format!("-({})", text), Expect::Syntax, "negint/parenthesised-min");
            push(cases, rng, format!("0 - {}", text), Expect::Syntax, "negint/subtracted-min");
            push(cases, rng, format!("--{}", text), Expect::ModelOnly, "negint/double-minus-min");
        }
    }
}

fn gen_ints(cases: &mut Vec<Case>, rng: &mut Rng, n_random: usize) {
    for v in boundary_u64() {
        int_cases(cases, rng, v as u128, true);
    }
    // just above the uint range, in every spelling
    for d in 0..4u128 {
        int_cases(cases, rng, (1u128 << 64) + d, true);
    }
    for k in [65u32, 66, 70, 80, 100, 127] {
        int_cases(cases, rng, 1u128 << k, true);
        let extra = rng.next_u64() as u128;
        int_cases(cases, rng, (1u128 << k) + extra, false);
    }
    // digit strings far longer than any machine integer
    for len in [21usize, 25, 40, 100, 400] {
        let mut s = String::new();
        s.push((b'1' + rng.below(9) as u8) as char);
        for _ in 1..len {
            s.push((b'0' + rng.below(10) as u8) as char);
        }
        push(cases, rng, s.clone(), Expect::Syntax, "int/dec/out-of-range");
        push(cases, rng, format!("{}u", s), Expect::Syntax, "uint/dec/out-of-range");
        push(cases, rng, format!("-{}", s), Expect::Syntax, "negint/dec/out-of-range");
        let h: String = (0..len).map(|_| *rng.pick(&['1', '9', 'a', 'F', 'c', 'E', 'e'])).collect();
        push(cases, rng, format!("0x{}", h), Expect::Syntax, "int/hex/out-of-range");
        push(cases, rng, format!("0x{}u", h), Expect::Syntax, "uint/hex/out-of-range");
    }
    for _ in 0..n_random {
        let v = if rng.chance(1, 2) { rng.next_u64() } else { rng.interesting_u64() };
        int_cases(cases, rng, v as u128, false);
    }
}

// ---- doubles ----

fn boundary_f64() -> Vec<f64> {
    let mut v = vec![
        0.0,
        f64::from_bits(1),
        f64::from_bits(2),
        f64::from_bits((1 << 52) - 1),
        f64::MIN_POSITIVE,
        f64::from_bits((1 << 52) + 1),
        f64::MAX,
        f64::from_bits(f64::MAX.to_bits() - 1),
        1.0,
        f64::from_bits(1.0f64.to_bits() - 1),
        f64::from_bits(1.0f64.to_bits() + 1),
        0.1,
        0.2,
        0.3,
        0.5,
        1.5,
        2.5,
        1e22,
        1e23,
        9007199254740992.0,
        9007199254740994.0,
        4503599627370496.5,
        123456789012345680.0,
        1e-5,
        1e-7,
        1e15,
        1e16,
        1e17,
        1e21,
        5e-324,
        2.2250738585072011e-308,
        1.7976931348623157e308,
        8.41e21,
        std::f64::consts::PI,
        std::f64::consts::E,
    ];
    for k in [-1074i32, -1073, -1023, -1022, -1021, -52, -1, 0, 1, 52, 53, 54, 63, 64, 1000, 1023] {
        v.push(2f64.powi(k));
    }
    v
}

/// Make sure the text lexes as a double (it needs a `.` or an exponent).
fn force_float(text: String) -> String {
    if text.contains('.') || text.contains('e') || text.contains('E') {
        text
    } else {
        format!("{}.0", text)
    }
}

/// Spellings of the non-negative finite double `x` from which `x` is recoverable.
fn float_spellings(x: f64, rng: &mut Rng, all: bool) -> Vec<(String, &'static str)> {
    let mut out: Vec<(String, &'static str)> = vec![
        (format!("{:?}", x), "debug"),
        (format!("{:e}", x), "exp-shortest"),
        (format!("{:E}", x), "exp-upper"),
        (format!("{:.16e}", x), "exp-17-digits"),
        (format!("{:.17e}", x), "exp-18-digits"),
        (force_float(format!("{}", x)), "display"),
    ];
    if all || rng.chance(1, 8) {
        // the exact binary value written out in full (up to ~770 significant digits)
        let exact = format!("{:.1074}", x);
        let exact = exact.trim_end_matches('0').to_string();
        out.push((force_float(exact), "exact-expansion"));
        out.push((format!("{:.800e}", x), "exp-801-digits"));
    }
    // derived forms
    let base = format!("{:e}", x);
    if let Some((m, e)) = base.split_once('e') {
        if !e.starts_with('-') {
            out.push((format!("{}e+{}", m, e), "exp-plus-sign"));
        }
        out.push((format!("{}e{}{}", m, if e.starts_with('-') { "-00" } else { "00" }, e.trim_start_matches('-')), "exp-leading-zeros"));
        if !m.contains('.') {
            out.push((format!("{}.e{}", m, e), "trailing-dot-exp"));
        }
    }
    let disp = format!("{:?}", x);
    if let Some(rest) = disp.strip_prefix("0.") {
        out.push((format!(".{}", rest), "leading-dot"));
    }
    if let Some(int) = disp.strip_suffix(".0") {
        out.push((format!("{}.", int), "trailing-dot"));
        out.push((format!("{}.000", int), "trailing-zeros"));
    }
    let plain = format!("{}", x);
    if let Some(rest) = plain.strip_prefix("0.") {
        out.push((format!(".{}", rest), "leading-dot"));
    }
    if !plain.contains('.') {
        out.push((format!("{}.", plain), "trailing-dot"));
    }
    out.push((format!("00{}", disp), "leading-zeros"));
    if !all {
        let a = rng.below(out.len());
        let b = rng.below(out.len());
        out = out.into_iter().enumerate().filter(|(i, _)| *i == a || *i == b).map(|(_, x)| x).collect();
    }
    out
}

fn float_cases(cases: &mut Vec<Case>, rng: &mut Rng, x: f64, all: bool) {
    for (text, style) in float_spellings(x, rng, all) {
        let neg = rng.chance(1, 3);
        let src = if neg { format!("-{}", text) } else { text.clone() };
        push(cases, rng, src, Expect::Float { bits: Some(x.to_bits()), neg, text }, &format!("double/{}", style));
    }
}

/// Exact decimal expansion of `m * 2^x` (m > 0) as `digits` and exponent: value = digits * 10^e.
fn exact_decimal(m: u128, x: i64) -> (String, i64) {
    let mut b = Big::from_u128(m);
    let e10;
    if x >= 0 {
        b.shl(x as usize);
        e10 = 0;
    } else {
        // m / 2^k = m * 5^k / 10^k
        for _ in 0..(-x) {
            b.mul_small(5);
        }
        e10 = x;
    }
    (big_to_dec(&b), e10)
}

fn big_to_dec(b: &Big) -> String {
    let mut limbs = b.0.clone();
    let mut chunks: Vec<u32> = Vec::new();
    while !limbs.is_empty() {
        let mut rem: u64 = 0;
        for l in limbs.iter_mut().rev() {
            let cur = (rem << 32) | *l as u64;
            *l = (cur / 1_000_000_000) as u32;
            rem = cur % 1_000_000_000;
        }
        chunks.push(rem as u32);
        while let Some(0) = limbs.last() {
            limbs.pop();
        }
    }
    if chunks.is_empty() {
        return "0".to_string();
    }
    let mut s = format!("{}", chunks.last().unwrap());
    for c in chunks.iter().rev().skip(1) {
        s.push_str(&format!("{:09}", c));
    }
    s
}

/// Decimal texts that are not the rendering of a double: random digit strings and the hard cases
/// around the midpoint between two neighbouring doubles.  The expected value is whatever is nearest.
fn gen_decimal_texts(cases: &mut Vec<Case>, rng: &mut Rng, n: usize) {
    for i in 0..n {
        match i % 3 {
            0 => {
                // random digits and exponent
                let span = if rng.chance(1, 10) { 60 } else { 20 };
                let nd = 1 + rng.below(span);
                let mut m: String = (0..nd).map(|_| (b'0' + rng.below(10) as u8) as char).collect();
                if rng.chance(1, 2) {
                    let p = rng.below(m.len() + 1);
                    m.insert(p, '.');
                }
                let e = match rng.below(4) {
                    0 => rng.range(-345, 330),
                    1 => rng.range(-30, 30),
                    2 => rng.range(300, 312) * if rng.chance(1, 2) { -1 } else { 1 },
                    _ => 0,
                };
                let mut text = m;
                if e != 0 || !text.contains('.') {
                    text = format!("{}{}{}", text, if rng.chance(1, 2) { "e" } else { "E" }, e);
                }
                if text.starts_with('.') && !text.as_bytes().get(1).map_or(false, |c| c.is_ascii_digit()) {
                    text = format!("0{}", text);
                }
                let neg = rng.chance(1, 4);
                let src = if neg { format!("-{}", text) } else { text.clone() };
                push(cases, rng, src, Expect::Float { bits: None, neg, text }, "double/random-decimal");
            }
            _ => {
                // the midpoint between a double and its successor, exactly and nudged to either side
                let bits = match rng.below(4) {
                    0 => rng.next_u64() % 0x7ff0_0000_0000_0000,
                    1 => rng.next_u64() % (1u64 << 53), // subnormals and the first binade
                    2 => (rng.below(2046) as u64 + 1) << 52 | if rng.chance(1, 2) { (1u64 << 52) - 1 } else { 0 },
                    _ => (1023u64 + rng.below(64) as u64) << 52 | rng.next_u64() >> 12,
                };
                let exp = (bits >> 52) & 0x7ff;
                let frac = bits & ((1u64 << 52) - 1);
                let (m, x): (u64, i64) = if exp == 0 { (frac, -1074) } else { (frac | 1 << 52, exp as i64 - 1075) };
                // midpoint = (2m+1) * 2^(x-1) = digits * 10^e10, exactly
                let (mid, e10) = exact_decimal(2 * m as u128 + 1, x - 1);
                let (digits, e10, tag) = match rng.below(3) {
                    0 => (mid, e10, "double/midpoint-exact"),
                    1 => {
                        let k = rng.below(30);
                        (format!("{}{}1", mid, "0".repeat(k)), e10 - (k as i64 + 1), "double/midpoint-above")
                    }
                    _ => {
                        let k = 1 + rng.below(30);
                        let mut d = Big::from_dec(mid.as_bytes());
                        d.sub_one();
                        (format!("{}{}", big_to_dec(&d), "9".repeat(k)), e10 - k as i64, "double/midpoint-below")
                    }
                };
                let text = if e10 > 0 || rng.chance(1, 2) {
                    format!("{}e{}", digits, e10)
                } else {
                    // positional notation
                    let k = (-e10) as usize;
                    if k >= digits.len() {
                        format!("0.{}{}", "0".repeat(k - digits.len()), digits)
                    } else {
                        format!("{}.{}", &digits[..digits.len() - k], &digits[digits.len() - k..])
                    }
                };
                let neg = rng.chance(1, 4);
                let src = if neg { format!("-{}", text) } else { text.clone() };
                push(cases, rng, src, Expect::Float { bits: None, neg, text }, tag);
            }
        }
    }
    // texts beyond the range: overflow to infinity, underflow to zero (nearest-ness decides)
    for t in ["1e309", "1.7976931348623158e308", "1.7976931348623159e308", "179769313486231580793728971405303415079934132710037826936173778980444968292764750946649017977587207096330286416692887910946555547851940402630657488671505820681908902000708383676273854845817711531764475730270069855571366959622842914819860834936475292719074168444365510704342711559699508093042880177904174497791.999", "179769313486231580793728971405303415079934132710037826936173778980444968292764750946649017977587207096330286416692887910946555547851940402630657488671505820681908902000708383676273854845817711531764475730270069855571366959622842914819860834936475292719074168444365510704342711559699508093042880177904174497792.0", "2e-324", "2.4703282292062327e-324", "2.4703282292062328e-324", "2.48e-324", "1e-400", "1e400", "1e99999", "1e-99999", "0e99999", "0.0e-99999", "1e4294967296", "1e-4294967296", "1e18446744073709551616", "0.000000000000000000000000000001e31", "1000000000000000000000000000000e-29"] {
        push(cases, rng, t.to_string(), Expect::Float { bits: None, neg: false, text: t.to_string() }, "double/range-edge");
    }
}

fn gen_floats(cases: &mut Vec<Case>, rng: &mut Rng, n_random: usize) {
    for x in boundary_f64() {
        float_cases(cases, rng, x, true);
    }
    for _ in 0..n_random {
        // random bit patterns: uniform over sign-less finite doubles, i.e. uniform over exponents
        let bits = match rng.below(8) {
            0 => rng.next_u64() % (1u64 << 53),
            1 => (rng.below(2047) as u64) << 52,
            2 => (1023 + rng.below(70) as u64) << 52 | (rng.next_u64() >> 12),
            3 => ((rng.next_u64() >> rng.below(64)) as f64).to_bits(), // integer valued
            4 => ((rng.next_u64() >> (11 + rng.below(53))) as f64 / 10f64.powi(rng.below(20) as i32)).to_bits(), // short decimals
            _ => rng.next_u64() % 0x7ff0_0000_0000_0000,
        };
        float_cases(cases, rng, f64::from_bits(bits), false);
    }
}

// ---- strings and bytes ----

const NAMED: [(char, u32); 10] =
    [('a', 7), ('b', 8), ('f', 12), ('n', 10), ('r', 13), ('t', 9), ('v', 11), ('\\', 92), ('\'', 39), ('"', 34)];

fn random_scalar(rng: &mut Rng) -> char {
    let edge: [u32; 26] = [
        0, 1, 0x1f, 0x20, 0x7e, 0x7f, 0x80, 0xff, 0x100, 0x1ff, 0x200, 0x7ff, 0x800, 0xd7ff, 0xe000, 0xfffd, 0xfffe, 0xffff, 0x10000,
        0x1f600, 0xfffff, 0x100000, 0x10fffe, 0x10ffff, 0x7b, 0x7d,
    ];
    let cp = match rng.below(12) {
        0 => *rng.pick(&edge),
        1 => *rng.pick(&[7u32, 8, 9, 10, 11, 12, 13, 0, 27]),
        2 => *rng.pick(&['\'' as u32, '"' as u32, '\\' as u32, '{' as u32, '}' as u32]),
        3 | 4 => *rng.pick(&['0', '1', '7', '8', '9', 'a', 'f', 'A', 'F', 'x', 'u', 'U', 'n', 'e']) as u32,
        5 | 6 => 0x20 + rng.below(0x5f) as u32,
        7 => rng.below(0x100) as u32,
        8 => rng.below(0x800) as u32,
        9 => rng.below(0x10000) as u32,
        _ => rng.below(0x110000) as u32,
    };
    match char::from_u32(cp) {
        Some(c) => c,
        None => '\u{fffd}', // a surrogate was drawn
    }
}

fn hex_digits(v: u32, width: usize, rng: &mut Rng) -> String {
    format!("{:0width$x}", v, width = width).chars().map(|c| if rng.chance(1, 2) { c.to_ascii_uppercase() } else { c }).collect()
}

#[derive(Clone, Copy, PartialEq)]
enum Mode {
    Plain,
    Raw,
    Fmt,
}

/// One legal spelling of `c` inside a string literal of the given mode and quote; returns (text, tag).
fn spell_char(c: char, mode: Mode, q: char, rng: &mut Rng) -> (String, &'static str) {
    if mode == Mode::Raw {
        return (c.to_string(), "raw-mode");
    }
    let cp = c as u32;
    let mut opts: Vec<(String, &'static str)> = Vec::new();
    let brace = c == '{' || c == '}';
    if c != q && c != '\\' && !(mode == Mode::Fmt && brace) {
        // weight the plain spelling
        opts.push((c.to_string(), "char"));
        opts.push((c.to_string(), "char"));
    }
    if mode == Mode::Fmt && brace {
        opts.push((format!("{}{}", c, c), "doubled-brace"));
        opts.push((format!("{}{}", c, c), "doubled-brace"));
    }
    for (name, v) in NAMED.iter() {
        if *v == cp {
            opts.push((format!("\\{}", name), "named"));
            opts.push((format!("\\{}", name), "named"));
        }
    }
    if cp <= 0xff {
        opts.push((format!("\\{}{}", if rng.chance(1, 4) { 'X' } else { 'x' }, hex_digits(cp, 2, rng)), "hex2"));
    }
    if cp <= 0o777 {
        opts.push((format!("\\{:03o}", cp), "octal"));
    }
    if cp <= 0xffff {
        opts.push((format!("\\u{}", hex_digits(cp, 4, rng)), "u4"));
    }
    opts.push((format!("\\U{}", hex_digits(cp, 8, rng)), "U8"));
    opts[rng.below(opts.len())].clone()
}

fn gen_strings(cases: &mut Vec<Case>, rng: &mut Rng, n: usize) {
    // every escape form on every code point it can spell is sampled; the named table and the low code points exhaustively
    for cp in 0u32..0x200 {
        let c = char::from_u32(cp).unwrap();
        for q in ['\'', '"'] {
            let mut forms = vec![format!("\\U{:08x}", cp), format!("\\u{:04x}", cp), format!("\\{:03o}", cp)];
            if cp <= 0xff {
                forms.push(format!("\\x{:02x}", cp));
                forms.push(format!("\\X{:02X}", cp));
            }
            if c != q && c != '\\' {
                forms.push(c.to_string());
            }
            for (name, v) in NAMED.iter() {
                if *v == cp {
                    forms.push(format!("\\{}", name));
                }
            }
            for f in forms {
                let src = format!("{}{}{}", q, f, q);
                push(cases, rng, src, Expect::Val(format!("s:{}", hex(c.to_string().as_bytes()))), "string/single-char-exhaustive");
            }
        }
    }
    for _ in 0..n {
        let len = match rng.below(8) {
            0 => 0,
            1 => 1,
            _ => 1 + rng.below(12),
        };
        let chars: Vec<char> = (0..len).map(|_| random_scalar(rng)).collect();
        let value: String = chars.iter().collect();
        let mut mode = match rng.below(6) {
            0 => Mode::Raw,
            1 => Mode::Fmt,
            _ => Mode::Plain,
        };
        let mut q = if rng.chance(1, 2) { '\'' } else { '"' };
        if mode == Mode::Raw {
            // a raw literal cannot contain its own quote
            if chars.contains(&q) {
                q = if q == '\'' { '"' } else { '\'' };
            }
            if chars.contains(&q) {
                mode = Mode::Plain;
            }
        }
        let mut body = String::new();
        let mut tags: Vec<&'static str> = Vec::new();
        for c in chars.iter() {
            let (t, tag) = spell_char(*c, mode, q, rng);
            body.push_str(&t);
            tags.push(tag);
        }
        let prefix = match mode {
            Mode::Plain => "",
            Mode::Raw => "r",
            Mode::Fmt => "f",
        };
        let src = format!("{}{}{}{}", prefix, q, body, q);
        let kind = format!("string/{}", match mode { Mode::Plain => "plain", Mode::Raw => "raw", Mode::Fmt => "format" });
        push(cases, rng, src, Expect::Val(format!("s:{}", hex(value.as_bytes()))), &kind);
        let last = cases.len() - 1;
        cases[last].kind = format!("{}|{}", kind, tags.join(","));
    }
}

fn gen_bytes(cases: &mut Vec<Case>, rng: &mut Rng, n: usize) {
    // every byte in every escape form
    for b in 0u32..256 {
        for q in ['\'', '"'] {
            let mut forms = vec![format!("\\x{:02x}", b), format!("\\X{:02X}", b), format!("\\{:03o}", b)];
            if b < 0x80 && b != q as u32 && b != '\\' as u32 {
                forms.push((b as u8 as char).to_string());
            }
            for (name, v) in NAMED.iter() {
                if *v == b {
                    forms.push(format!("\\{}", name));
                }
            }
            for f in forms {
                push(cases, rng, format!("b{}{}{}", q, f, q), Expect::Val(format!("y:{:02x}", b)), "bytes/single-byte-exhaustive");
            }
        }
    }
    for _ in 0..n {
        let len = match rng.below(8) {
            0 => 0,
            _ => 1 + rng.below(12),
        };
        let q = if rng.chance(1, 2) { '\'' } else { '"' };
        let mut body = String::new();
        let mut value: Vec<u8> = Vec::new();
        let mut tags: Vec<&'static str> = Vec::new();
        for _ in 0..len {
            if rng.chance(1, 10) {
                // a character beyond ASCII written as itself stands for its UTF-8 bytes
                let mut c = random_scalar(rng);
                if (c as u32) < 0x80 {
                    c = 'é';
                }
                body.push(c);
                let mut buf = [0u8; 4];
                value.extend_from_slice(c.encode_utf8(&mut buf).as_bytes());
                tags.push("utf8-char");
                continue;
            }
            let b: u8 = match rng.below(6) {
                0 => *rng.pick(&[0u8, 7, 8, 9, 10, 11, 12, 13, 34, 39, 92, 0x7f, 0x80, 0xff, 0xfe, 0xc0]),
                1 => *rng.pick(&[b'0', b'7', b'8', b'a', b'f', b'F', b'x']),
                _ => rng.below(256) as u8,
            };
            value.push(b);
            let mut opts: Vec<(String, &'static str)> = Vec::new();
            if b < 0x80 && b != q as u8 && b != b'\\' {
                opts.push(((b as char).to_string(), "char"));
                opts.push(((b as char).to_string(), "char"));
            }
            for (name, v) in NAMED.iter() {
                if *v == b as u32 {
                    opts.push((format!("\\{}", name), "named"));
                    opts.push((format!("\\{}", name), "named"));
                }
            }
            opts.push((format!("\\{}{}", if rng.chance(1, 4) { 'X' } else { 'x' }, hex_digits(b as u32, 2, rng)), "hex2"));
            opts.push((format!("\\{:03o}", b), "octal"));
            let (t, tag) = opts[rng.below(opts.len())].clone();
            body.push_str(&t);
            tags.push(tag);
        }
        push(cases, rng, format!("b{}{}{}", q, body, q), Expect::Val(format!("y:{}", hex(&value))), "bytes/random");
        let last = cases.len() - 1;
        cases[last].kind = format!("bytes/random|{}", tags.join(","));
    }
}

fn gen_keywords(cases: &mut Vec<Case>, rng: &mut Rng) {
    for _ in 0..8 {
        push(cases, rng, "true".into(), Expect::Val("b:1".into()), "bool");
        push(cases, rng, "false".into(), Expect::Val("b:0".into()), "bool");
        push(cases, rng, "null".into(), Expect::Val("n".into()), "null");
    }
}

// ---- malformed stream ----

fn gen_malformed(cases: &mut Vec<Case>, rng: &mut Rng, n_random: usize) {
    let bad = |cases: &mut Vec<Case>, rng: &mut Rng, src: String, kind: &str| push(cases, rng, src, Expect::Syntax, kind);
    let prefixes = ["'", "\"", "f'", "b'", "b\""];
    let quote_of = |p: &str| p.chars().last().unwrap();
    // every escape truncated at every length: by the closing quote, by the end of input, by a non-digit
    let escapes: [(&str, usize, &str); 5] = [("\\x", 2, "41"), ("\\X", 2, "4f"), ("\\u", 4, "00e9"), ("\\U", 8, "0001f600"), ("\\", 3, "101")];
    for p in prefixes.iter() {
        let bytes_lit = p.starts_with('b');
        for (intro, full, digits) in escapes.iter() {
            if bytes_lit && (*intro == "\\u" || *intro == "\\U") {
                continue; // not escapes in a bytes literal
            }
            for k in 0..*full {
                if *intro == "\\" && k == 0 {
                    continue; // a lone backslash before the quote is an escaped quote, covered below
                }
                let part = &digits[..k];
                bad(cases, rng, format!("{}{}{}{}", p, intro, part, quote_of(p)), "malformed/escape-cut-by-quote");
                bad(cases, rng, format!("{}{}{}", p, intro, part), "malformed/escape-cut-by-end");
                bad(cases, rng, format!("{}a{}{}", p, intro, part), "malformed/escape-cut-by-end");
                for filler in ["g", " ", "-", "+", "_", "é", "\\"] {
                    bad(cases, rng, format!("{}{}{}{}0000000{}", p, intro, part, filler, quote_of(p)), "malformed/bad-digit");
                }
            }
            // a bad digit at every position of a complete escape
            for pos in 0..*full {
                if *intro == "\\" && pos == 0 {
                    continue; // the first digit is what selects the octal escape
                }
                for wrong in ["g", "G", "x", "-", "+", " ", "/", ":", "@", "`", "é", "８"] {
                    let mut d: Vec<String> = digits.chars().map(|c| c.to_string()).collect();
                    d[pos] = wrong.to_string();
                    bad(cases, rng, format!("{}{}{}{}", p, intro, d.concat(), quote_of(p)), "malformed/bad-digit");
                }
            }
        }
        // octal digits 8 and 9, in every position
        for t in ["\\800", "\\900", "\\080", "\\008", "\\190", "\\119", "\\78a", "\\7a1"] {
            bad(cases, rng, format!("{}{}{}", p, t, quote_of(p)), "malformed/bad-octal-digit");
        }
        // unterminated literals (the body never contains the bare closing quote)
        let q = quote_of(p);
        for body in ["".to_string(), "abc".to_string(), "abc\\".to_string(), "abc\\\\\\".to_string(), "a\\n".to_string(), format!("abc\\{}", q), "{{".to_string(), "\n".to_string()] {
            bad(cases, rng, format!("{}{}", p, body), "malformed/unterminated");
        }
        // the other quote does not terminate
        let other = if quote_of(p) == '\'' { '"' } else { '\'' };
        bad(cases, rng, format!("{}abc{}", p, other), "malformed/unterminated");
    }
    bad(cases, rng, "r'abc".into(), "malformed/unterminated");
    bad(cases, rng, "r\"abc".into(), "malformed/unterminated");
    bad(cases, rng, "r'abc\\'def'".into(), "malformed/raw-backslash-quote");
    // octal beyond a byte in a bytes literal: 0o400 ..= 0o777, exhaustive
    for v in 0o400u32..=0o777 {
        bad(cases, rng, format!("b'\\{:03o}'", v), "malformed/bytes-octal-above-255");
    }
    // invalid code points: every surrogate, and values above 0x10FFFF
    for cp in 0xd800u32..=0xdfff {
        let q = if cp % 2 == 0 { '\'' } else { '"' };
        let h4 = hex_digits(cp, 4, rng);
        let h8 = hex_digits(cp, 8, rng);
        bad(cases, rng, format!("{}\\u{}{}", q, h4, q), "malformed/surrogate-u4");
        if cp % 16 == 0 || cp >= 0xdff0 {
            bad(cases, rng, format!("{}\\U{}{}", q, h8, q), "malformed/surrogate-U8");
            bad(cases, rng, format!("f{}a\\u{}b{}", q, h4, q), "malformed/surrogate-u4");
        }
    }
    for cp in [0x110000u32, 0x110001, 0x1fffff, 0x200000, 0xffffff, 0x1000000, 0x7fffffff, 0x80000000, 0xfffffffe, 0xffffffff, 0x10ffff + 0x10000] {
        bad(cases, rng, format!("'\\U{:08x}'", cp), "malformed/code-point-above-10ffff");
        bad(cases, rng, format!("\"x\\U{:08X}y\"", cp), "malformed/code-point-above-10ffff");
    }
    for _ in 0..n_random {
        let cp = 0x110000u32 + (rng.next_u64() % (0x1_0000_0000u64 - 0x110000)) as u32;
        let h8 = hex_digits(cp, 8, rng);
        bad(cases, rng, format!("'\\U{}'", h8), "malformed/code-point-above-10ffff");
    }
    // format strings: a single closing brace, an unfinished or empty placeholder
    for t in ["f'a}b'", "f'}'", "f'{'", "f'{a'", "f'{}'", "f'a{'", "f\"}\"", "f'{{}'", "f'}}}'"] {
        bad(cases, rng, t.to_string(), "malformed/format-brace");
    }
    // numbers
    for t in ["0x", "0X", "0xg", "0x_1", "0xu", "1e", "1E", "1e+", "1e-", "1.5e", "1.5e+", ".5e", "0x1.5", "0x.5", "1e5e5", "1.5.5", "1e5.5", "0xffu1", "1e+u", "1ex", "0x1p3"] {
        bad(cases, rng, t.to_string(), "malformed/number");
    }
    // random mutations of well-formed escapes: compared with the model only (they may well be legal)
    for _ in 0..n_random {
        let q = if rng.chance(1, 2) { '\'' } else { '"' };
        let pre = *rng.pick(&["", "", "b", "f", "r"]);
        let len = 1 + rng.below(8);
        let alphabet: Vec<char> = "\\\\\\\\xXuU01789afg'\"{}n \u{e9}".chars().collect();
        let body: String = (0..len).map(|_| *rng.pick(&alphabet)).collect();
        let close = if rng.chance(7, 8) { q.to_string() } else { String::new() };
        push(cases, rng, format!("{}{}{}{}", pre, q, body, close), Expect::ModelOnly, "malformed/random-soup");
        let nb: String = (0..1 + rng.below(8)).map(|_| *rng.pick(&['0', '1', '9', 'x', 'X', 'e', 'E', '.', 'u', 'U', '+', '-', 'a', 'f'])).collect();
        let first = *rng.pick(&['0', '1', '9', '.']);
        push(cases, rng, format!("{}{}", first, nb), Expect::ModelOnly, "malformed/number-soup");
    }
}

// ---------------------------------------------------------------------------------------------
// evaluation
// ---------------------------------------------------------------------------------------------

struct Obs {
    exec: String,
    lex: String,
}

fn evaluate(cases: &[Case], threads: usize) -> Vec<Obs> {
    let chunk = (cases.len() + threads - 1) / threads.max(1);
    let mut out: Vec<Obs> = Vec::with_capacity(cases.len());
    std::thread::scope(|s| {
        let handles: Vec<_> = cases
            .chunks(chunk.max(1))
            .map(|part| {
                s.spawn(move || {
                    part.iter()
                        .map(|c| {
                            let src = wrapped(c);
                            Obs { exec: exec_src(&src, &[]), lex: lex_obs(&src) }
                        })
                        .collect::<Vec<Obs>>()
                })
            })
            .collect();
        for h in handles {
            out.extend(h.join().expect("evaluation thread"));
        }
    });
    out
}

/// Token stream without locations ("E" for a lexical error).
fn strip_locs(s: &str) -> String {
    if s.starts_with('E') {
        return "E".to_string();
    }
    s.split(' ').map(|t| t.rsplit_once('@').map_or(t, |(a, _)| a)).collect::<Vec<&str>>().join(" ")
}

fn model_answers(driver: &str, reqs: &[String], threads: usize) -> Result<Vec<String>, String> {
    let chunk = ((reqs.len() + threads - 1) / threads.max(1)).max(1);
    let mut out = Vec::with_capacity(reqs.len());
    let mut err = None;
    std::thread::scope(|s| {
        let handles: Vec<_> = reqs.chunks(chunk).map(|part| s.spawn(move || run_model(driver, part))).collect();
        for h in handles {
            match h.join().expect("model thread") {
                Ok(v) => out.extend(v),
                Err(e) => err = Some(e),
            }
        }
    });
    match err {
        Some(e) => Err(e),
        None => Ok(out),
    }
}

pub fn run(opts: &Opts) -> Report {
    let mut rep = Report::new(
        "C13",
        "literal source texts: int64/uint64 boundary values and random 64-bit values in decimal and hexadecimal (all letter cases, \
         leading zeros, u/U suffix, unary minus), finite doubles from boundary and random bit patterns in ten spellings plus \
         midpoint decimal texts, strings over all Unicode planes and byte strings with a random legal escape per character \
         (plain, raw, format; both quotes), and a malformed stream; non-trivial = distinct source text",
    );
    let mut rng = Rng::new(opts.seed ^ 0xC13C13);
    let mut cases: Vec<Case> = Vec::new();
    let t = opts.thorough;
    gen_keywords(&mut cases, &mut rng);
    gen_ints(&mut cases, &mut rng, if t { 350_000 } else { 25_000 });
    gen_floats(&mut cases, &mut rng, if t { 350_000 } else { 30_000 });
    gen_decimal_texts(&mut cases, &mut rng, if t { 250_000 } else { 20_000 });
    gen_strings(&mut cases, &mut rng, if t { 700_000 } else { 80_000 });
    gen_bytes(&mut cases, &mut rng, if t { 350_000 } else { 40_000 });
    gen_malformed(&mut cases, &mut rng, if t { 50_000 } else { 5_000 });

    // literals in company: what a literal denotes does not depend on the literals before it in the same expression
    // (`[A, B]` is the list of the two values, or a syntax error as soon as one of them is one) — in particular the
    // special case of `-9223372036854775808` must not leak to a later out-of-range literal
    {
        let simple: Vec<usize> = (0..cases.len())
            .filter(|i| matches!(cases[*i].expect, Expect::Val(_) | Expect::Syntax) && !cases[*i].kind.starts_with("malformed") && !cases[*i].src.contains('\n'))
            .collect();
        let mins: Vec<usize> = simple.iter().cloned().filter(|i| cases[*i].kind.starts_with("negint") && cases[*i].src.contains("9223372036854775808") && matches!(cases[*i].expect, Expect::Val(_))).take(4).collect();
        let outs: Vec<usize> = simple.iter().cloned().filter(|i| cases[*i].kind.contains("out-of-range") && !cases[*i].kind.starts_with("negint")).take(12).collect();
        let mut pairs: Vec<(usize, usize)> = Vec::new();
        for a in mins.iter() {
            for b in outs.iter() {
                pairs.push((*a, *b));
                pairs.push((*b, *a));
            }
        }
        let n_pairs = if t { 60_000 } else { 6_000 };
        for _ in 0..n_pairs {
            if simple.is_empty() {
                break;
            }
            pairs.push((simple[rng.below(simple.len())], simple[rng.below(simple.len())]));
        }
        for (a, b) in pairs {
            let (ca, cb) = (cases[a].clone(), cases[b].clone());
            let expect = match (&ca.expect, &cb.expect) {
                (Expect::Val(x), Expect::Val(y)) => Expect::Val(format!("l:2 {} {}", x, y)),
                _ => Expect::Syntax,
            };
            let sep = ["", " ", "  "][rng.below(3)];
            cases.push(Case { src: format!("[{},{}{}]", ca.src, sep, cb.src), expect, kind: "pair".to_string(), wrap: 0 });
        }
    }

    let threads = std::thread::available_parallelism().map(|n| n.get()).unwrap_or(4).min(16);
    let obs = evaluate(&cases, threads);

    let mut reqs: Vec<String> = Vec::with_capacity(cases.len() * 2);
    for (c, o) in cases.iter().zip(obs.iter()) {
        let src = wrapped(c);
        rep.count(Some(&src));
        // distribution: the case family, and for strings/bytes every escape form used
        let (family, tags) = c.kind.split_once('|').unwrap_or((&c.kind, ""));
        rep.bump(family);
        for tg in tags.split(',').filter(|x| !x.is_empty()) {
            rep.bump(&format!("escape:{}", tg));
        }
        if c.wrap != 0 {
            rep.bump(match c.wrap { 1 => "context:blanks", 2 => "context:parentheses", _ => "context:list" });
        }
        if rep.samples.len() < 12 && (rep.evaluations % 9973 == 1 || rep.samples.len() < 3) {
            rep.sample(json!({"source": src, "result": o.exec, "tokens": o.lex, "family": family}));
        }
        if o.exec == "P" || o.lex == "P" {
            rep.oracle_fail(&src, "P", "a value or a syntax error", "the tokenizer/compiler panicked on a literal");
        }
        match &c.expect {
            Expect::Val(v) => {
                let want = wrap_obs(c, v);
                if o.exec != want {
                    rep.oracle_fail(&src, &o.exec, &want, &format!("the literal does not evaluate to the value it spells ({})", family));
                }
            }
            Expect::Syntax => {
                if o.exec != "e:syntax" {
                    rep.oracle_fail(&src, &o.exec, "e:syntax", &format!("a malformed or out-of-range literal is not rejected with a syntax error ({})", family));
                }
            }
            Expect::Float { bits, neg, text } => {
                let sign = if *neg { 1u64 << 63 } else { 0 };
                let got = wrap_strip(c, &o.exec).and_then(|v| v.strip_prefix("f:").and_then(|h| u64::from_str_radix(h, 16).ok()));
                match got {
                    None => rep.oracle_fail(&src, &o.exec, "a double", &format!("a double literal does not evaluate to a double ({})", family)),
                    Some(g) => {
                        if let Some(b) = bits {
                            if g != (*b | sign) {
                                rep.oracle_fail(&src, &o.exec, &format!("f:{:016x}", b | sign), &format!("the double literal is not the double it was rendered from, bit for bit ({})", family));
                            }
                        }
                        match decimal_of_text(text) {
                            None => rep.oracle_fail(&src, &o.exec, "-", "harness: the generated text is not a decimal literal"),
                            Some((digits, e10)) => {
                                if g & (1 << 63) != sign || !is_nearest(&digits, e10, g & !(1u64 << 63)) {
                                    rep.oracle_fail(&src, &o.exec, "the double nearest to the decimal text (ties to even)", &format!("the double literal is not correctly rounded ({})", family));
                                } else {
                                    rep.bump("double:nearest-checked");
                                }
                            }
                        }
                    }
                }
            }
            Expect::ModelOnly => {}
        }
        reqs.push(format!("exec P:0 G:0 U:0 {}", hex(src.as_bytes())));
        reqs.push(format!("lex {}", hex(src.as_bytes())));
    }
    rep.exhaustive = true; // the single-character / single-byte escape tables, surrogates and byte-octal overflow are enumerated
    rep.notes.push(format!("{} evaluation threads; every case is sent to the model twice (exec, lex)", threads));

    rep.model_requests += reqs.len() as u64;
    match model_answers(&opts.driver, &reqs, threads) {
        Err(e) => rep.model_error = Some(e),
        Ok(ans) => {
            for (i, (c, o)) in cases.iter().zip(obs.iter()).enumerate() {
                let src = wrapped(c);
                let (m_exec, m_lex) = (&ans[2 * i], &ans[2 * i + 1]);
                let imp_exec = format!("{} L:0", o.exec);
                if &imp_exec != m_exec && rep.disagreements.len() < 200 {
                    rep.disagreements.push(Failure { input: src.clone(), implementation: imp_exec, expected: m_exec.clone(), why: format!("model request: {}", reqs[2 * i]) });
                }
                let (il, ml) = (strip_locs(&o.lex), strip_locs(m_lex));
                if il != ml && rep.disagreements.len() < 200 {
                    rep.disagreements.push(Failure { input: format!("tokens of: {}", src), implementation: o.lex.clone(), expected: m_lex.clone(), why: format!("model request: {}", reqs[2 * i + 1]) });
                }
            }
        }
    }
    rep
}

/// Undo the list context on an observation.
fn wrap_strip<'a>(c: &Case, obs: &'a str) -> Option<&'a str> {
    if c.wrap == 3 {
        obs.strip_prefix("l:1 ")
    } else {
        Some(obs)
    }
}

#[cfg(test)]
mod tests {
    use super::*;

    #[test]
    fn nearest_check_agrees_with_std_on_samples() {
        for t in ["0.1", "1e23", "9007199254740993", "9007199254740993.0000001", "5e-324", "2.4703282292062327e-324", "2.4703282292062328e-324", "1.7976931348623158e308", "1e309", "0.0", "123.456e-7"] {
            let (d, e) = decimal_of_text(t).unwrap();
            let v: f64 = t.parse().unwrap();
            assert!(is_nearest(&d, e, v.to_bits()), "{}", t);
            if v.is_finite() && v > 0.0 {
                assert!(!is_nearest(&d, e, v.to_bits() + 1), "{} +1", t);
                assert!(!is_nearest(&d, e, v.to_bits() - 1), "{} -1", t);
            }
        }
    }
}
