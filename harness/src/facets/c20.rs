//! C20 — CEL→SQL translation preserves structure and cannot be escaped by literals.
//!
//! Oracle (model-free): the facet generates an expression tree `E`, renders it to CEL source, and computes
//! from `E` alone (not from rscel's parse) the SQL operator tree `T` the text must denote.  The SQL text the
//! real `into_sql_builder().to_sql()` returns is tokenised by an independent tokenizer written from the SQL
//! lexical rules (string literal = `'`…`'` with `''` the only escape; `--` and `/* */` comments and `;` are
//! tokens, so an injection is visible) and re-parsed by a precedence parser (PostgreSQL's operator
//! precedence: OR < AND < comparison < IN < other operators (`->`, `->>`) < `+ -` < `* / %` < prefix `- !`
//! < postfix `::type`, `[i]`, `(args)`); the tree must equal `T`, the string-literal tokens must be exactly
//! the expected contents in order, and no comment / `;` / stray token may occur.  Untranslatable constructs
//! must give an error, and nothing may panic.
//!
//! Tie: the Lean driver's `sql` command runs the model's `toSql` on the same source (text equality) and the
//! proved `lexSql`/`parseSql` on the *real* SQL text, compared with `sqlTree` of the model's parse.
use crate::report::{guarded, Pending, Report};
use crate::rng::Rng;
use crate::wire::hex;
use crate::Opts;
use rscel::Program;
use rscel_to_sql::IntoSqlBuilder;
use serde_json::json;

// ---------------------------------------------------------------------------------------------------
// source trees
// ---------------------------------------------------------------------------------------------------

#[derive(Clone, Debug, PartialEq)]
pub enum E {
    Int(u64),
    UInt(u64),
    /// CEL spelling of a non-negative float literal
    Float(String),
    /// content, spelling 0..=5
    Str(String, u8),
    Bool(bool),
    Null,
    Ident(String),
    Bin(&'static str, Box<E>, Box<E>),
    Not(usize, Box<E>),
    Neg(usize, Box<E>),
    Tern(Box<E>, Box<E>, Box<E>),
    Chain(Box<E>, Vec<Lk>),
    List(Vec<E>),
    Map(Vec<(E, E)>),
    Paren(Box<E>),
    // constructs without a translation
    Bytes,
    FStr,
    Match(Box<E>),
}

#[derive(Clone, Debug, PartialEq)]
pub enum Lk {
    Access(String),
    Call(Vec<E>),
    Index(E),
}

/// CEL grammar level: 0 Expr (?:), 1 ||, 2 &&, 3 relation, 4 + -, 5 * / %, 6 unary, 7 member chain, 8 primary
fn level(e: &E) -> u8 {
    match e {
        E::Tern(..) | E::Match(..) => 0,
        E::Bin(op, ..) => bin_level(op),
        E::Not(..) | E::Neg(..) => 6,
        E::Chain(..) => 7,
        _ => 8,
    }
}

fn bin_level(op: &str) -> u8 {
    match op {
        "||" => 1,
        "&&" => 2,
        "<" | "<=" | ">" | ">=" | "==" | "!=" | "in" => 3,
        "+" | "-" => 4,
        _ => 5,
    }
}

pub const BIN_OPS: [&str; 14] = ["||", "&&", "<", "<=", ">", ">=", "==", "!=", "in", "+", "-", "*", "/", "%"];

/// one CEL spelling of the string `s`; None when the spelling cannot express it
pub fn spell(s: &str, how: u8) -> Option<String> {
    let esc = |q: char| -> String {
        let mut o = String::new();
        o.push(q);
        for c in s.chars() {
            match c {
                '\\' => o.push_str("\\\\"),
                '\n' => o.push_str("\\n"),
                c if c == q => {
                    o.push('\\');
                    o.push(c)
                }
                c => o.push(c),
            }
        }
        o.push(q);
        o
    };
    match how {
        0 => Some(esc('\'')),
        1 => Some(esc('"')),
        // every character as \xHH
        2 => {
            if s.chars().all(|c| (c as u32) < 128) {
                Some(format!("'{}'", s.chars().map(|c| format!("\\x{:02x}", c as u32)).collect::<String>()))
            } else {
                None
            }
        }
        // octal for the quote, \u for the backslash, a real line break
        3 => {
            let mut o = String::from("\"");
            for c in s.chars() {
                match c {
                    '\'' => o.push_str("\\047"),
                    '"' => o.push_str("\\042"),
                    '\\' => o.push_str("\\u005c"),
                    c => o.push(c),
                }
            }
            o.push('"');
            Some(o)
        }
        // raw strings: no escapes at all, so the delimiter cannot occur
        4 => {
            if !s.contains('\'') {
                Some(format!("r'{}'", s))
            } else {
                None
            }
        }
        _ => {
            if !s.contains('"') {
                Some(format!("r\"{}\"", s))
            } else {
                None
            }
        }
    }
}

fn render_at(e: &E, min: u8) -> String {
    let s = render(e);
    if level(e) < min {
        format!("({})", s)
    } else {
        s
    }
}

pub fn render(e: &E) -> String {
    match e {
        E::Int(n) => n.to_string(),
        E::UInt(n) => format!("{}u", n),
        E::Float(t) => t.clone(),
        E::Str(s, how) => spell(s, *how).or_else(|| spell(s, 0)).unwrap(),
        E::Bool(b) => b.to_string(),
        E::Null => "null".into(),
        E::Ident(x) => x.clone(),
        E::Bin(op, l, r) => {
            let lv = bin_level(op);
            format!("{} {} {}", render_at(l, lv), op, render_at(r, lv + 1))
        }
        E::Not(n, x) => format!("{}{}", "!".repeat(*n), render_at(x, 7)),
        E::Neg(n, x) => format!("{}{}", "-".repeat(*n), render_at(x, 7)),
        E::Tern(c, t, f) => format!("{} ? {} : {}", render_at(c, 1), render_at(t, 1), render_at(f, 0)),
        E::Chain(p, ops) => {
            let mut s = match (&**p, ops.first()) {
                // `1.a` would be read as a float
                (E::Int(_) | E::Float(_), Some(Lk::Access(_))) => format!("({})", render(p)),
                _ => render_at(p, 8),
            };
            for op in ops {
                match op {
                    Lk::Access(n) => {
                        s.push('.');
                        s.push_str(n)
                    }
                    Lk::Call(args) => {
                        s.push('(');
                        s.push_str(&args.iter().map(|a| render(a)).collect::<Vec<_>>().join(", "));
                        s.push(')')
                    }
                    Lk::Index(i) => {
                        s.push('[');
                        s.push_str(&render(i));
                        s.push(']')
                    }
                }
            }
            s
        }
        E::List(es) => format!("[{}]", es.iter().map(render).collect::<Vec<_>>().join(", ")),
        E::Map(kv) => format!("{{{}}}", kv.iter().map(|(k, v)| format!("{}: {}", render(k), render(v))).collect::<Vec<_>>().join(", ")),
        E::Paren(x) => format!("({})", render(x)),
        E::Bytes => "b'ab'".into(),
        E::FStr => "f'a{x}'".into(),
        E::Match(x) => format!("match {} {{ case int: 1, case _: 2 }}", render(x)),
    }
}

fn unsupported(e: &E) -> bool {
    match e {
        E::Bytes | E::FStr | E::Match(_) => true,
        E::Bin(_, l, r) => unsupported(l) || unsupported(r),
        E::Not(_, x) | E::Neg(_, x) | E::Paren(x) => unsupported(x),
        E::Tern(c, t, f) => unsupported(c) || unsupported(t) || unsupported(f),
        E::Chain(p, ops) => {
            unsupported(p)
                || ops.iter().any(|o| match o {
                    Lk::Access(_) => false,
                    Lk::Call(a) => a.iter().any(unsupported),
                    Lk::Index(i) => unsupported(i),
                })
        }
        E::List(es) => es.iter().any(unsupported),
        E::Map(kv) => kv.iter().any(|(k, v)| unsupported(k) || unsupported(v)),
        _ => false,
    }
}

// ---------------------------------------------------------------------------------------------------
// SQL trees
// ---------------------------------------------------------------------------------------------------

#[derive(Clone, Debug, PartialEq)]
pub enum Num {
    Int(u64),
    Float(f64),
    /// as found in SQL text
    Text(String),
}

#[derive(Clone, Debug, PartialEq)]
pub enum T {
    Ident(String),
    Null,
    Bool(bool),
    Num(Num),
    Str(String),
    Un(String, Box<T>),
    Bin(String, Box<T>, Box<T>),
    /// case A when B then C else D end
    Case(Box<T>, Box<T>, Box<T>, Box<T>),
    Call(Box<T>, Vec<T>),
    Index(Box<T>, Box<T>),
    Cast(Box<T>, String),
    Array(Vec<T>),
}

fn sql_op(op: &str) -> &'static str {
    match op {
        "||" => "OR",
        "&&" => "AND",
        "==" => "=",
        "!=" => "<>",
        "<" => "<",
        "<=" => "<=",
        ">" => ">",
        ">=" => ">=",
        "in" => "IN",
        "+" => "+",
        "-" => "-",
        "*" => "*",
        "/" => "/",
        _ => "%",
    }
}

pub fn sql_type(name: &str) -> Option<&'static str> {
    Some(match name {
        "int" => "integer",
        "uint" => "bigint",
        "float" | "double" => "double precision",
        "string" => "text",
        "bool" => "boolean",
        "bytes" => "bytea",
        "timestamp" => "timestamp",
        "duration" => "interval",
        _ => return None,
    })
}

/// the SQL tree the translation of `e` must denote (None below an untranslatable construct)
pub fn expected(e: &E) -> T {
    match e {
        E::Int(n) | E::UInt(n) => T::Num(Num::Int(*n)),
        E::Float(t) => {
            let f: f64 = t.parse().unwrap();
            if f.is_finite() {
                T::Num(Num::Float(f))
            } else {
                T::Cast(Box::new(T::Str("Infinity".into())), "double precision".into())
            }
        }
        E::Str(s, _) => T::Str(s.clone()),
        E::Bool(b) => T::Bool(*b),
        E::Null => T::Null,
        E::Ident(x) => T::Ident(x.clone()),
        E::Bin(op, l, r) => T::Bin(sql_op(op).into(), Box::new(expected(l)), Box::new(expected(r))),
        E::Not(n, x) => (0..*n).fold(expected(x), |acc, _| T::Un("!".into(), Box::new(acc))),
        E::Neg(n, x) => (0..*n).fold(expected(x), |acc, _| T::Un("-".into(), Box::new(acc))),
        E::Tern(c, t, f) => T::Case(
            Box::new(T::Cast(Box::new(expected(c)), "bool".into())),
            Box::new(T::Bool(true)),
            Box::new(expected(t)),
            Box::new(expected(f)),
        ),
        E::Chain(p, ops) => {
            let mut cur;
            let mut start = 0;
            cur = expected(p);
            if let (E::Ident(name), Some(Lk::Call(args))) = (&**p, ops.first()) {
                if let Some(ty) = sql_type(name) {
                    if args.len() <= 1 {
                        let v = args.first().map(expected).unwrap_or(T::Null);
                        cur = T::Cast(Box::new(v), ty.into());
                        start = 1;
                    }
                }
            }
            for (i, op) in ops.iter().enumerate().skip(start) {
                cur = match op {
                    Lk::Access(n) => T::Bin(if i + 1 == ops.len() { "->>".into() } else { "->".into() }, Box::new(cur), Box::new(T::Str(n.clone()))),
                    Lk::Call(args) => T::Call(Box::new(cur), args.iter().map(expected).collect()),
                    Lk::Index(x) => T::Index(Box::new(cur), Box::new(expected(x))),
                };
            }
            cur
        }
        E::List(es) => T::Array(es.iter().map(expected).collect()),
        E::Map(kv) => {
            if kv.is_empty() {
                T::Cast(Box::new(T::Str("{}".into())), "json".into())
            } else {
                let mut args = Vec::new();
                for (k, v) in kv {
                    args.push(expected(k));
                    args.push(expected(v));
                }
                T::Call(Box::new(T::Ident("json_build_object".into())), args)
            }
        }
        E::Paren(x) => expected(x),
        E::Bytes | E::FStr | E::Match(_) => T::Ident("<untranslatable>".into()),
    }
}

/// string-literal contents of a tree in text order
fn strings(t: &T, out: &mut Vec<String>) {
    match t {
        T::Str(s) => out.push(s.clone()),
        T::Un(_, x) | T::Cast(x, _) => strings(x, out),
        T::Bin(_, l, r) | T::Index(l, r) => {
            strings(l, out);
            strings(r, out)
        }
        T::Case(a, b, c, d) => {
            strings(a, out);
            strings(b, out);
            strings(c, out);
            strings(d, out)
        }
        T::Call(f, a) => {
            strings(f, out);
            a.iter().for_each(|x| strings(x, out))
        }
        T::Array(a) => a.iter().for_each(|x| strings(x, out)),
        _ => {}
    }
}

fn num_same(want: &Num, got: &Num) -> bool {
    let text = match got {
        Num::Text(t) => t,
        _ => return want == got,
    };
    let plain = !text.is_empty() && text.chars().all(|c| c.is_ascii_digit() || c == '.') && text.matches('.').count() <= 1;
    match want {
        Num::Int(n) => *text == n.to_string(),
        Num::Float(f) => plain && text.parse::<f64>().map(|g| g.to_bits() == f.to_bits()).unwrap_or(false),
        Num::Text(t) => t == text,
    }
}

pub fn same(want: &T, got: &T) -> bool {
    match (want, got) {
        (T::Num(a), T::Num(b)) => num_same(a, b),
        (T::Un(o, x), T::Un(p, y)) => o == p && same(x, y),
        (T::Bin(o, a, b), T::Bin(p, c, d)) => o == p && same(a, c) && same(b, d),
        (T::Case(a, b, c, d), T::Case(e, f, g, h)) => same(a, e) && same(b, f) && same(c, g) && same(d, h),
        (T::Call(f, a), T::Call(g, b)) => same(f, g) && a.len() == b.len() && a.iter().zip(b).all(|(x, y)| same(x, y)),
        (T::Index(a, b), T::Index(c, d)) => same(a, c) && same(b, d),
        (T::Cast(a, s), T::Cast(b, t)) => s == t && same(a, b),
        (T::Array(a), T::Array(b)) => a.len() == b.len() && a.iter().zip(b).all(|(x, y)| same(x, y)),
        (a, b) => a == b,
    }
}

pub fn show(t: &T) -> String {
    match t {
        T::Ident(x) => x.clone(),
        T::Null => "NULL".into(),
        T::Bool(b) => b.to_string(),
        T::Num(Num::Int(n)) => n.to_string(),
        T::Num(Num::Float(f)) => format!("{:?}", f),
        T::Num(Num::Text(t)) => t.clone(),
        T::Str(s) => format!("{:?}", s),
        T::Un(o, x) => format!("({} {})", o, show(x)),
        T::Bin(o, a, b) => format!("({} {} {})", o, show(a), show(b)),
        T::Case(a, b, c, d) => format!("(case {} {} {} {})", show(a), show(b), show(c), show(d)),
        T::Call(f, a) => format!("(call {} [{}])", show(f), a.iter().map(show).collect::<Vec<_>>().join(" ")),
        T::Index(a, i) => format!("(index {} {})", show(a), show(i)),
        T::Cast(a, t) => format!("(cast {} {:?})", show(a), t),
        T::Array(a) => format!("(array [{}])", a.iter().map(show).collect::<Vec<_>>().join(" ")),
    }
}

// ---------------------------------------------------------------------------------------------------
// independent SQL tokenizer and parser
// ---------------------------------------------------------------------------------------------------

#[derive(Clone, Debug, PartialEq)]
pub enum Tok {
    Word(String),
    Num(String),
    Str(String),
    Op(&'static str),
    LP,
    RP,
    LB,
    RB,
    Comma,
    Semi,
    Comment(String),
    /// anything that has no place in the emitted dialect (with the reason)
    Bad(String),
}

/// Standard SQL lexical rules (plus PostgreSQL's operators `::`, `->`, `->>`, `!`).
pub fn tokenize(sql: &str) -> Vec<Tok> {
    let cs: Vec<char> = sql.chars().collect();
    let mut i = 0;
    let mut out = Vec::new();
    let n = cs.len();
    while i < n {
        let c = cs[i];
        if c == ' ' || c == '\t' || c == '\n' || c == '\r' || c == '\x0c' {
            i += 1;
        } else if c == '-' && i + 1 < n && cs[i + 1] == '-' {
            let mut j = i + 2;
            while j < n && cs[j] != '\n' {
                j += 1;
            }
            out.push(Tok::Comment(cs[i..j].iter().collect()));
            i = j;
        } else if c == '/' && i + 1 < n && cs[i + 1] == '*' {
            let mut j = i + 2;
            while j + 1 < n && !(cs[j] == '*' && cs[j + 1] == '/') {
                j += 1;
            }
            j = (j + 2).min(n);
            out.push(Tok::Comment(cs[i..j].iter().collect()));
            i = j;
        } else if c == '\'' {
            let mut j = i + 1;
            let mut s = String::new();
            let mut closed = false;
            while j < n {
                if cs[j] == '\'' {
                    if j + 1 < n && cs[j + 1] == '\'' {
                        s.push('\'');
                        j += 2;
                    } else {
                        closed = true;
                        j += 1;
                        break;
                    }
                } else {
                    s.push(cs[j]);
                    j += 1;
                }
            }
            if closed {
                out.push(Tok::Str(s))
            } else {
                out.push(Tok::Bad(format!("unterminated string literal '{}", s)))
            }
            i = j;
        } else if c.is_ascii_alphabetic() || c == '_' {
            let mut j = i;
            while j < n && (cs[j].is_ascii_alphanumeric() || cs[j] == '_' || cs[j] == '$') {
                j += 1;
            }
            let w: String = cs[i..j].iter().collect();
            if j < n && (cs[j] == '\'' || cs[j] == '"') {
                // E'..', B'..', X'..', N'..', U&'..': a different kind of literal
                out.push(Tok::Bad(format!("word {} directly followed by a quote", w)));
            }
            out.push(Tok::Word(w));
            i = j;
        } else if c.is_ascii_digit() || (c == '.' && i + 1 < n && cs[i + 1].is_ascii_digit()) {
            let mut j = i;
            while j < n && cs[j].is_ascii_digit() {
                j += 1;
            }
            if j < n && cs[j] == '.' {
                j += 1;
                while j < n && cs[j].is_ascii_digit() {
                    j += 1;
                }
            }
            if j < n && (cs[j] == 'e' || cs[j] == 'E') {
                let mut k = j + 1;
                if k < n && (cs[k] == '+' || cs[k] == '-') {
                    k += 1;
                }
                if k < n && cs[k].is_ascii_digit() {
                    while k < n && cs[k].is_ascii_digit() {
                        k += 1;
                    }
                    j = k;
                }
            }
            let t: String = cs[i..j].iter().collect();
            if j < n && (cs[j].is_ascii_alphabetic() || cs[j] == '_') {
                out.push(Tok::Bad(format!("number {} directly followed by a letter", t)));
            }
            out.push(Tok::Num(t));
            i = j;
        } else {
            let three: String = cs[i..(i + 3).min(n)].iter().collect();
            let two: String = cs[i..(i + 2).min(n)].iter().collect();
            let (tok, len) = if three == "->>" {
                (Tok::Op("->>"), 3)
            } else if two == "->" {
                (Tok::Op("->"), 2)
            } else if two == "::" {
                (Tok::Op("::"), 2)
            } else if two == "<=" {
                (Tok::Op("<="), 2)
            } else if two == ">=" {
                (Tok::Op(">="), 2)
            } else if two == "<>" {
                (Tok::Op("<>"), 2)
            } else if two == "!=" {
                (Tok::Op("<>"), 2)
            } else {
                (
                    match c {
                        '+' => Tok::Op("+"),
                        '-' => Tok::Op("-"),
                        '*' => Tok::Op("*"),
                        '/' => Tok::Op("/"),
                        '%' => Tok::Op("%"),
                        '<' => Tok::Op("<"),
                        '>' => Tok::Op(">"),
                        '=' => Tok::Op("="),
                        '!' => Tok::Op("!"),
                        '(' => Tok::LP,
                        ')' => Tok::RP,
                        '[' => Tok::LB,
                        ']' => Tok::RB,
                        ',' => Tok::Comma,
                        ';' => Tok::Semi,
                        other => Tok::Bad(format!("character {:?}", other)),
                    },
                    1,
                )
            };
            out.push(tok);
            i += len;
        }
    }
    out
}

const RESERVED: [&str; 77] = [
    "all", "analyse", "analyze", "and", "any", "array", "as", "asc", "asymmetric", "both", "case", "cast", "check", "collate", "column",
    "constraint", "create", "current_catalog", "current_date", "current_role", "current_time", "current_timestamp", "current_user", "default",
    "deferrable", "desc", "distinct", "do", "else", "end", "except", "false", "fetch", "for", "foreign", "from", "grant", "group", "having",
    "in", "initially", "intersect", "into", "lateral", "leading", "limit", "localtime", "localtimestamp", "not", "null", "offset", "on", "only",
    "or", "order", "placing", "primary", "references", "returning", "select", "session_user", "some", "symmetric", "table", "then", "to",
    "trailing", "true", "union", "unique", "user", "using", "variadic", "when", "where", "window", "with",
];

pub fn is_reserved(w: &str) -> bool {
    RESERVED.contains(&w.to_ascii_lowercase().as_str())
}

pub struct Parser<'a> {
    toks: &'a [Tok],
    pos: usize,
}

type PR<X> = Result<X, String>;

impl<'a> Parser<'a> {
    pub fn new(toks: &'a [Tok]) -> Parser<'a> {
        Parser { toks, pos: 0 }
    }
    fn peek(&self) -> Option<&Tok> {
        self.toks.get(self.pos)
    }
    fn kw(&self, w: &str) -> bool {
        matches!(self.peek(), Some(Tok::Word(x)) if x.eq_ignore_ascii_case(w))
    }
    fn expect_kw(&mut self, w: &str) -> PR<()> {
        if self.kw(w) {
            self.pos += 1;
            Ok(())
        } else {
            Err(format!("expected {} at token {} ({:?})", w, self.pos, self.peek()))
        }
    }
    fn expect(&mut self, t: Tok) -> PR<()> {
        if self.peek() == Some(&t) {
            self.pos += 1;
            Ok(())
        } else {
            Err(format!("expected {:?} at token {} ({:?})", t, self.pos, self.peek()))
        }
    }
    /// (precedence, name) of the binary operator at the cursor
    fn binop(&self) -> Option<(u8, String)> {
        match self.peek()? {
            Tok::Word(w) if w.eq_ignore_ascii_case("or") => Some((1, "OR".into())),
            Tok::Word(w) if w.eq_ignore_ascii_case("and") => Some((2, "AND".into())),
            Tok::Op(o @ ("<" | "<=" | ">" | ">=" | "=" | "<>")) => Some((5, o.to_string())),
            Tok::Word(w) if w.eq_ignore_ascii_case("in") => Some((6, "IN".into())),
            Tok::Op(o @ ("->" | "->>")) => Some((7, o.to_string())),
            Tok::Op(o @ ("+" | "-")) => Some((8, o.to_string())),
            Tok::Op(o @ ("*" | "/" | "%")) => Some((9, o.to_string())),
            _ => None,
        }
    }
    pub fn expr(&mut self, min: u8) -> PR<T> {
        let mut lhs = self.unary()?;
        while let Some((p, name)) = self.binop() {
            if p < min {
                break;
            }
            self.pos += 1;
            let rhs = self.expr(p + 1)?;
            lhs = T::Bin(name, Box::new(lhs), Box::new(rhs));
        }
        Ok(lhs)
    }
    fn unary(&mut self) -> PR<T> {
        match self.peek() {
            Some(Tok::Op(o @ ("-" | "!"))) => {
                let o = o.to_string();
                self.pos += 1;
                Ok(T::Un(o, Box::new(self.unary()?)))
            }
            _ => self.postfix(),
        }
    }
    fn list(&mut self, close: Tok) -> PR<Vec<T>> {
        let mut out = Vec::new();
        if self.peek() == Some(&close) {
            self.pos += 1;
            return Ok(out);
        }
        loop {
            out.push(self.expr(0)?);
            if self.peek() == Some(&Tok::Comma) {
                self.pos += 1;
            } else {
                self.expect(close.clone())?;
                return Ok(out);
            }
        }
    }
    fn postfix(&mut self) -> PR<T> {
        let mut cur = self.primary()?;
        loop {
            match self.peek() {
                Some(Tok::Op("::")) => {
                    self.pos += 1;
                    let mut ty = match self.peek() {
                        Some(Tok::Word(w)) if !is_reserved(w) => w.clone(),
                        other => return Err(format!("expected a type name, found {:?}", other)),
                    };
                    self.pos += 1;
                    if ty.eq_ignore_ascii_case("double") {
                        self.expect_kw("precision")?;
                        ty.push_str(" precision");
                    }
                    if matches!(self.peek(), Some(Tok::LB) | Some(Tok::LP)) {
                        return Err(format!("`{}` followed by a bracket: array type / type modifier, not a subscript or call", ty));
                    }
                    cur = T::Cast(Box::new(cur), ty);
                }
                Some(Tok::LB) => {
                    self.pos += 1;
                    let i = self.expr(0)?;
                    self.expect(Tok::RB)?;
                    cur = T::Index(Box::new(cur), Box::new(i));
                }
                Some(Tok::LP) => {
                    self.pos += 1;
                    let args = self.list(Tok::RP)?;
                    cur = T::Call(Box::new(cur), args);
                }
                _ => return Ok(cur),
            }
        }
    }
    fn primary(&mut self) -> PR<T> {
        let t = self.peek().cloned();
        match t {
            Some(Tok::Num(n)) => {
                self.pos += 1;
                Ok(T::Num(Num::Text(n)))
            }
            Some(Tok::Str(s)) => {
                self.pos += 1;
                Ok(T::Str(s))
            }
            Some(Tok::LP) => {
                self.pos += 1;
                let e = self.expr(0)?;
                self.expect(Tok::RP)?;
                Ok(e)
            }
            Some(Tok::Word(w)) => {
                let lw = w.to_ascii_lowercase();
                self.pos += 1;
                match lw.as_str() {
                    "null" => Ok(T::Null),
                    "true" => Ok(T::Bool(true)),
                    "false" => Ok(T::Bool(false)),
                    "array" => {
                        self.expect(Tok::LB)?;
                        Ok(T::Array(self.list(Tok::RB)?))
                    }
                    "case" => {
                        let a = self.expr(0)?;
                        self.expect_kw("when")?;
                        let b = self.expr(0)?;
                        self.expect_kw("then")?;
                        let c = self.expr(0)?;
                        self.expect_kw("else")?;
                        let d = self.expr(0)?;
                        self.expect_kw("end")?;
                        Ok(T::Case(Box::new(a), Box::new(b), Box::new(c), Box::new(d)))
                    }
                    _ if is_reserved(&lw) => Err(format!("reserved word {} where an expression is expected", w)),
                    _ => Ok(T::Ident(w)),
                }
            }
            other => Err(format!("unexpected token {:?} at {}", other, self.pos)),
        }
    }
}

pub fn parse_sql(toks: &[Tok]) -> PR<T> {
    let mut p = Parser::new(toks);
    let t = p.expr(0)?;
    if p.pos != toks.len() {
        return Err(format!("trailing tokens from {} ({:?})", p.pos, p.peek()));
    }
    Ok(t)
}

// ---------------------------------------------------------------------------------------------------
// the real translation
// ---------------------------------------------------------------------------------------------------

/// "S <sql>" | "U" (translation refused) | "X" (does not compile) | "P" (panic)
pub fn real_sql(src: &str) -> String {
    let src = src.to_string();
    guarded(move || match Program::from_source(&src) {
        Err(_) => "X".to_string(),
        Ok(p) => match p.ast() {
            None => "X".to_string(),
            Some(ast) => match ast.into_sql_builder().and_then(|b| b.to_sql()) {
                Ok(s) => format!("S {}", s),
                Err(_) => "U".to_string(),
            },
        },
    })
}

// ---------------------------------------------------------------------------------------------------
// generators
// ---------------------------------------------------------------------------------------------------

const IDENTS: [&str; 12] = ["x", "y", "a", "b", "user_id", "firstName", "f", "g", "size", "max", "_t1", "obj"];
const FIELDS: [&str; 8] = ["name", "a", "b", "f", "int", "end", "_x9", "select"];
const TYPES: [&str; 9] = ["int", "uint", "float", "double", "string", "bool", "bytes", "timestamp", "duration"];
const FLOATS: [&str; 14] =
    ["0.0", "1.0", "3.14", "0.1", "1e-7", "1e21", "2.5e-3", "1e100", "123456789.125", "5e-324", "1.7976931348623157e308", "1e999", ".5", "7."];
pub const ALPHABET: [char; 10] = ['\'', '"', '\\', '-', ';', '\n', '/', '*', 'a', ' '];

fn b(e: E) -> Box<E> {
    Box::new(e)
}

struct Gen {
    rng: Rng,
}

impl Gen {
    fn string(&mut self) -> E {
        let n = match self.rng.below(10) {
            0 => 0,
            1..=5 => 1 + self.rng.below(4),
            6..=8 => 4 + self.rng.below(8),
            _ => 12 + self.rng.below(30),
        };
        let mut s = String::new();
        for _ in 0..n {
            if self.rng.chance(1, 12) {
                s.push(*self.rng.pick(&['é', '𝄞', '\t', '\r', '`', '$', '{', '}', 'E', '%', '?', ':']));
            } else {
                s.push(*self.rng.pick(&ALPHABET));
            }
        }
        // well-known attack shapes now and then
        if self.rng.chance(1, 10) {
            s = self
                .rng
                .pick(&["b'; DROP TABLE x; --", "' OR '1'='1", "\\'; --", "'/*", "*/'", "''", "a'--\n", "\\", "'||'", "x'::text;--"])
                .to_string();
        }
        let how = self.rng.below(6) as u8;
        let how = if spell(&s, how).is_some() { how } else { self.rng.below(2) as u8 };
        E::Str(s, how)
    }

    fn leaf(&mut self) -> E {
        match self.rng.below(12) {
            0 | 1 => E::Int(*self.rng.pick(&[0u64, 1, 2, 5, 42, 999, 9223372036854775807])),
            2 => E::UInt(*self.rng.pick(&[0u64, 7, 18446744073709551615])),
            3 => E::Float(self.rng.pick(&FLOATS).to_string()),
            4 | 5 | 6 => self.string(),
            7 => E::Bool(self.rng.chance(1, 2)),
            8 => E::Null,
            _ => E::Ident(self.rng.pick(&IDENTS).to_string()),
        }
    }

    fn args(&mut self, d: u32, max: usize) -> Vec<E> {
        let n = self.rng.below(max + 1);
        (0..n).map(|_| self.expr(d)).collect()
    }

    fn chain(&mut self, d: u32) -> E {
        let p = match self.rng.below(10) {
            0..=4 => E::Ident(self.rng.pick(&IDENTS).to_string()),
            5 => E::Ident(self.rng.pick(&TYPES).to_string()),
            6 => E::Paren(b(self.expr(d))),
            7 => E::List(self.args(d, 2)),
            8 => E::Map(self.pairs(d, 2)),
            _ => self.leaf(),
        };
        let n = 1 + self.rng.below(4);
        let mut ops = Vec::new();
        for i in 0..n {
            // a type name is mostly followed by a call: the cast shape
            let k = if i == 0 && matches!(&p, E::Ident(t) if TYPES.contains(&t.as_str())) && self.rng.chance(4, 5) { 1 } else { self.rng.below(3) };
            ops.push(match k {
                0 => Lk::Access(self.rng.pick(&FIELDS).to_string()),
                1 => Lk::Call(self.args(d, 3)),
                _ => Lk::Index(self.expr(d)),
            });
        }
        E::Chain(b(p), ops)
    }

    fn pairs(&mut self, d: u32, max: usize) -> Vec<(E, E)> {
        let n = self.rng.below(max + 1);
        (0..n)
            .map(|_| {
                let k = if self.rng.chance(4, 5) { self.string() } else { self.expr(d) };
                (k, self.expr(d))
            })
            .collect()
    }

    /// an expression of nesting depth at most `d` over the translatable subset
    fn expr(&mut self, d: u32) -> E {
        if d == 0 {
            return self.leaf();
        }
        let d = d - 1;
        match self.rng.below(16) {
            0..=3 => {
                let op = *self.rng.pick(&BIN_OPS);
                E::Bin(op, b(self.expr(d)), b(self.expr(d)))
            }
            4 => E::Not(1 + self.rng.below(3), b(self.expr(d))),
            5 => E::Neg(1, b(self.expr(d))),
            6 => E::Tern(b(self.expr(d)), b(self.expr(d)), b(self.expr(d))),
            7..=10 => self.chain(d),
            11 => E::List(self.args(d, 3)),
            12 => E::Map(self.pairs(d, 3)),
            13 => E::Paren(b(self.expr(d))),
            _ => self.leaf(),
        }
    }
}

/// place the probe `s` into one of the contexts a literal can stand in
fn contexts(s: E) -> Vec<(&'static str, E)> {
    let x = || b(E::Ident("x".into()));
    vec![
        ("bare", s.clone()),
        ("eq", E::Bin("==", x(), b(s.clone()))),
        ("arg", E::Chain(b(E::Ident("f".into())), vec![Lk::Call(vec![s.clone(), E::Int(1)])])),
        ("method-arg", E::Chain(x(), vec![Lk::Access("g".into()), Lk::Call(vec![E::Int(1), s.clone()])])),
        ("cast", E::Chain(b(E::Ident("int".into())), vec![Lk::Call(vec![s.clone()])])),
        ("index", E::Chain(x(), vec![Lk::Index(s.clone())])),
        ("list", E::List(vec![s.clone(), s.clone()])),
        ("map-key", E::Map(vec![(s.clone(), E::Int(1))])),
        ("map-value", E::Map(vec![(E::Str("k".into(), 0), s.clone())])),
        ("ternary", E::Tern(x(), b(s.clone()), b(s.clone()))),
        ("receiver", E::Chain(b(s.clone()), vec![Lk::Access("a".into())])),
        ("neg", E::Neg(1, b(s.clone()))),
        ("in", E::Bin("in", b(s.clone()), b(E::List(vec![s])))),
    ]
}

// ---------------------------------------------------------------------------------------------------
// the check of one case
// ---------------------------------------------------------------------------------------------------

struct Cx<'a> {
    rep: &'a mut Report,
    pending: &'a mut Vec<Pending>,
}

impl<'a> Cx<'a> {
    /// `known`: Some(tag) for a stream whose failures are a recorded finding (the tag goes into `why`)
    fn case(&mut self, stream: &str, e: &E, known: Option<&str>) {
        let src = render(e);
        let real = real_sql(&src);
        self.rep.count(Some(&src));
        self.rep.bump(&format!("stream:{}", stream));
        let tag = |why: &str| match known {
            Some(k) => format!("{} [{}]", why, k),
            None => why.to_string(),
        };
        let mut ok = true;
        if real == "P" {
            self.rep.oracle_fail(&src, "P", "SQL text or an unsupported error", &tag("translation panicked"));
            self.rep.bump("outcome:panic");
            return;
        }
        if real == "X" {
            // the generator only writes well-formed CEL
            self.rep.oracle_fail(&src, "X", "compiles", &tag("generated source does not compile (generator or parser defect)"));
            self.rep.bump("outcome:no-compile");
            return;
        }
        if unsupported(e) {
            self.rep.bump("outcome:unsupported");
            if real != "U" {
                self.rep.oracle_fail(&src, &real, "unsupported error", &tag("a construct without a translation was translated"));
                ok = false;
            }
        } else if real == "U" {
            self.rep.bump("outcome:refused");
            self.rep.oracle_fail(&src, "U", &show(&expected(e)), &tag("a translatable expression was refused"));
            ok = false;
        } else {
            self.rep.bump("outcome:sql");
            let sql = &real[2..];
            let want = expected(e);
            let toks = tokenize(sql);
            // 1. nothing but the emitted dialect's tokens: no comment, no `;`, no stray character
            for t in &toks {
                match t {
                    Tok::Comment(c) => {
                        self.rep.oracle_fail(&src, sql, "no comment token", &tag(&format!("the SQL text contains the comment {:?}", c)));
                        ok = false;
                    }
                    Tok::Semi => {
                        self.rep.oracle_fail(&src, sql, "no `;` outside string literals", &tag("the SQL text contains a statement separator"));
                        ok = false;
                    }
                    Tok::Bad(w) => {
                        self.rep.oracle_fail(&src, sql, "only tokens of the emitted dialect", &tag(&format!("stray token: {}", w)));
                        ok = false;
                    }
                    _ => {}
                }
                if !ok {
                    break;
                }
            }
            // 2. every string literal is one token with the same content, in order
            if ok {
                let got: Vec<String> = toks.iter().filter_map(|t| if let Tok::Str(s) = t { Some(s.clone()) } else { None }).collect();
                let mut exp = Vec::new();
                strings(&want, &mut exp);
                if got != exp {
                    self.rep.oracle_fail(&src, sql, &format!("string literals {:?}", exp), &tag(&format!("string-literal tokens are {:?}", got)));
                    ok = false;
                }
            }
            // 3. the operator tree
            if ok {
                match parse_sql(&toks) {
                    Err(m) => {
                        self.rep.oracle_fail(&src, sql, &show(&want), &tag(&format!("the SQL text does not parse: {}", m)));
                        ok = false;
                    }
                    Ok(got) => {
                        if !same(&want, &got) {
                            self.rep.oracle_fail(&src, sql, &show(&want), &tag(&format!("the SQL text denotes {}", show(&got))));
                            ok = false;
                        }
                    }
                }
            }
        }
        let _ = ok;
        if self.rep.samples.len() < 12 && self.rep.evaluations % 997 == 3 {
            self.rep.sample(json!({"cel": src, "sql": real}));
        }
        // model: text of toSql on the model's own parse, and the proved parser on the real text
        let (req, imp) = match real.as_str() {
            "U" => (format!("sql {} -", hex(src.as_bytes())), "U".to_string()),
            _ => {
                let sql = &real[2..];
                if known.is_some() {
                    // the tree of a recorded finding is wrong on purpose; only the text is compared
                    (format!("sqltext {}", hex(src.as_bytes())), format!("S {}", hex(sql.as_bytes())))
                } else {
                    (format!("sql {} {}", hex(src.as_bytes()), hex(sql.as_bytes())), format!("S {} tree=ok", hex(sql.as_bytes())))
                }
            }
        };
        self.pending.push(Pending { request: req, implementation: imp, level: 9, input: format!("to_sql of: {}", src) });
    }
}

fn all_strings(max: usize) -> Vec<String> {
    let mut out = vec![String::new()];
    let mut layer = vec![String::new()];
    for _ in 0..max {
        let mut next = Vec::new();
        for s in &layer {
            for c in ALPHABET {
                let mut t = s.clone();
                t.push(c);
                next.push(t);
            }
        }
        out.extend(next.iter().cloned());
        layer = next;
    }
    out
}

pub fn run(opts: &Opts) -> Report {
    let mut rep = Report::new(
        "C20",
        "(1) every string over {' \" \\ - ; newline / * a space} up to length 3 (thorough: in all 6 CEL spellings x 13 contexts; quick: length<=2 \
         everywhere, length 3 in 2 spellings x 3 contexts) + random longer ones; (2) all binary operator pairs in both nestings, unary runs, ?: nestings, \
         calls alone / in member chains with 0..3 arguments, member/index paths, lists, maps, casts of every type constructor over every operand shape; \
         (3) random expression trees of depth <= 4 over the translatable subset; (4) untranslatable constructs in every position; non-trivial = distinct CEL source",
    );
    let mut pending: Vec<Pending> = Vec::new();
    let mut gen = Gen { rng: Rng::new(opts.seed ^ 0xC20) };
    {
        let mut cx = Cx { rep: &mut rep, pending: &mut pending };

        // ---- (1) literals: exhaustive small strings x spellings x contexts
        let strs = all_strings(3);
        for s in &strs {
            let n = s.chars().count();
            for how in 0..6u8 {
                if spell(s, how).is_none() {
                    continue;
                }
                for (ci, (cname, e)) in contexts(E::Str(s.clone(), how)).into_iter().enumerate() {
                    let take = opts.thorough || n <= 2 || (how < 2 && ci < 3);
                    if take {
                        cx.rep.bump(&format!("literal-context:{}", cname));
                        cx.rep.bump(&format!("literal-spelling:{}", how));
                        cx.case("literal", &e, None);
                    }
                }
            }
        }
        cx.rep.exhaustive = true;
        let n_long = if opts.thorough { 80000 } else { 2500 };
        for _ in 0..n_long {
            let s = gen.string();
            let cs = contexts(s);
            let (cname, e) = &cs[gen.rng.below(cs.len())];
            cx.rep.bump(&format!("literal-context:{}", cname));
            cx.case("literal-random", e, None);
        }

        // ---- (2) structure, systematically
        let atom = |n: &str| E::Ident(n.to_string());
        // operator pairs in both nestings (the renderer parenthesises by CEL precedence)
        for o1 in BIN_OPS {
            for o2 in BIN_OPS {
                let l = E::Bin(o1, b(E::Bin(o2, b(atom("a")), b(atom("b")))), b(atom("y")));
                let r = E::Bin(o1, b(atom("a")), b(E::Bin(o2, b(atom("b")), b(atom("y")))));
                cx.case("op-pair", &l, None);
                cx.case("op-pair", &r, None);
            }
            // operands of every shape
            for shape in operand_shapes() {
                cx.case("op-operand", &E::Bin(o1, b(shape.clone()), b(atom("y"))), None);
                cx.case("op-operand", &E::Bin(o1, b(atom("y")), b(shape.clone())), None);
            }
        }
        for shape in operand_shapes() {
            for n in 1..=3 {
                cx.case("not-run", &E::Not(n, b(shape.clone())), None);
            }
            cx.case("neg", &E::Neg(1, b(shape.clone())), None);
            cx.case("neg-paren-neg", &E::Neg(1, b(E::Paren(b(E::Neg(1, b(shape.clone())))))), None);
            cx.case("ternary", &E::Tern(b(shape.clone()), b(atom("a")), b(atom("y"))), None);
            cx.case("ternary", &E::Tern(b(atom("a")), b(shape.clone()), b(atom("y"))), None);
            cx.case("ternary", &E::Tern(b(atom("a")), b(atom("y")), b(shape.clone())), None);
            for ty in TYPES {
                cx.case("cast", &E::Chain(b(atom(ty)), vec![Lk::Call(vec![shape.clone()])]), None);
            }
            // every link kind applied to every shape, and after every link kind
            for first in links() {
                let p = if level(&shape) >= 8 { shape.clone() } else { E::Paren(b(shape.clone())) };
                cx.case("chain-1", &E::Chain(b(p.clone()), vec![first.clone()]), None);
                for second in links() {
                    cx.case("chain-2", &E::Chain(b(p.clone()), vec![first.clone(), second.clone()]), None);
                }
            }
            cx.case("list", &E::List(vec![shape.clone(), atom("y")]), None);
            cx.case("map", &E::Map(vec![(shape.clone(), atom("y")), (E::Str("k".into(), 0), shape.clone())]), None);
            cx.case("arg", &E::Chain(b(atom("f")), vec![Lk::Call(vec![atom("a"), shape.clone(), atom("y")])]), None);
            cx.case("index", &E::Chain(b(atom("x")), vec![Lk::Index(shape.clone())]), None);
        }
        // calls: 0..3 arguments, alone and at every position of a chain
        for n in 0..=3usize {
            let args: Vec<E> = (0..n).map(|i| E::Int(i as u64 + 1)).collect();
            cx.case("call", &E::Chain(b(atom("f")), vec![Lk::Call(args.clone())]), None);
            cx.case("call", &E::Chain(b(atom("x")), vec![Lk::Access("f".into()), Lk::Call(args.clone())]), None);
            cx.case("call", &E::Chain(b(atom("x")), vec![Lk::Access("y".into()), Lk::Access("f".into()), Lk::Call(args.clone())]), None);
            cx.case("call", &E::Chain(b(atom("f")), vec![Lk::Call(args.clone()), Lk::Access("g".into())]), None);
            cx.case("call", &E::Chain(b(atom("f")), vec![Lk::Call(args.clone()), Lk::Call(args.clone())]), None);
            cx.case("call", &E::Chain(b(atom("x")), vec![Lk::Index(E::Int(0)), Lk::Call(args.clone()), Lk::Index(E::Int(1))]), None);
            for ty in TYPES {
                cx.case("cast-arity", &E::Chain(b(atom(ty)), vec![Lk::Call(args.clone())]), None);
                cx.case("cast-arity", &E::Chain(b(atom(ty)), vec![Lk::Call(args.clone()), Lk::Access("a".into())]), None);
                cx.case("cast-arity", &E::Chain(b(atom(ty)), vec![Lk::Call(args.clone()), Lk::Index(E::Int(0))]), None);
                cx.case("cast-arity", &E::Chain(b(atom(ty)), vec![Lk::Call(args.clone()), Lk::Call(args.clone())]), None);
                cx.case("cast-arity", &E::Chain(b(atom("x")), vec![Lk::Access(ty.to_string()), Lk::Call(args.clone())]), None);
                cx.case("cast-arity", &E::Chain(b(E::Paren(b(atom(ty)))), vec![Lk::Call(args.clone())]), None);
            }
        }
        for f in FLOATS {
            for (_, e) in contexts(E::Float(f.to_string())) {
                cx.case("float", &e, None);
            }
        }
        for n in [0u64, 1, 9223372036854775807] {
            for (_, e) in contexts(E::Int(n)) {
                cx.case("int", &e, None);
            }
        }
        // -9223372036854775808: the parser records the literal with its sign
        cx.case("min-int", &E::Neg(1, b(E::Int(9223372036854775808))), None);
        cx.case("min-int", &E::Bin("-", b(atom("x")), b(E::Neg(1, b(E::Int(9223372036854775808))))), None);
        // wide and long shapes
        let wide = (0..2000).fold(atom("a"), |acc, i| E::Bin(BIN_OPS[9 + i % 2], b(acc), b(E::Int(i as u64))));
        cx.case("long", &wide, None);
        let longchain = E::Chain(b(atom("x")), (0..500).map(|i| if i % 3 == 2 { Lk::Index(E::Int(i)) } else { Lk::Access("a".into()) }).collect());
        cx.case("long", &longchain, None);
        cx.case("long", &E::List((0..1000).map(|i| E::Str(format!("'{}", i), (i % 2) as u8)).collect()), None);

        // ---- (3) random trees
        let n_rand = if opts.thorough { 600000 } else { 12000 };
        for i in 0..n_rand {
            let d = 1 + (i % 4) as u32;
            let e = gen.expr(d);
            cx.case("random", &e, None);
        }

        // ---- (4) untranslatable constructs in every position
        for bad in [E::Bytes, E::FStr, E::Match(b(atom("x")))] {
            let bad_p = if level(&bad) >= 8 { bad.clone() } else { E::Paren(b(bad.clone())) };
            cx.case("unsupported", &bad, None);
            for (_, e) in contexts(bad_p.clone()) {
                cx.case("unsupported", &e, None);
            }
            for o in BIN_OPS {
                cx.case("unsupported", &E::Bin(o, b(bad_p.clone()), b(atom("y"))), None);
            }
            cx.case("unsupported", &E::Not(2, b(bad_p.clone())), None);
            cx.case("unsupported", &E::Chain(b(atom("x")), vec![Lk::Access("f".into()), Lk::Call(vec![atom("a"), bad.clone()])]), None);
            cx.case("unsupported", &E::Tern(b(atom("a")), b(atom("b")), b(bad.clone())), None);
        }
        let n_rand_bad = if opts.thorough { 20000 } else { 800 };
        for _ in 0..n_rand_bad {
            // a random tree with one leaf replaced
            let mut e = gen.expr(3);
            let bad = match gen.rng.below(3) {
                0 => E::Bytes,
                1 => E::FStr,
                _ => E::Paren(b(E::Match(b(atom("x"))))),
            };
            if plant(&mut e, &bad, &mut gen.rng) {
                cx.case("unsupported-random", &e, None);
            }
        }

        // ---- malformed sources: nothing to translate, nothing may panic
        for src in ["", "(", "x.", "f(1,", "'abc", "1 +", "x[", "{'a':}", "a ? b", "match x {", "- ", "!!", "x.1", "x ? : y", "f(,)", "[1,,2]", "'a' 'b'", "1 2", ")", "x.f(1))"] {
            let real = real_sql(src);
            cx.rep.count(Some(src));
            cx.rep.bump("stream:malformed");
            if real != "X" {
                cx.rep.oracle_fail(src, &real, "X (does not compile)", if real == "P" { "translation panicked" } else { "a malformed source was translated" });
            }
            cx.pending.push(Pending { request: format!("sqltext {}", hex(src.as_bytes())), implementation: real, level: 9, input: format!("to_sql of malformed: {}", src) });
        }

        // ---- recorded findings (tagged)
        for shape in operand_shapes() {
            for n in 2..=3 {
                cx.case("neg-run", &E::Neg(n, b(shape.clone())), Some("KNOWN-neg-run"));
            }
        }
        for w in ["NULL", "TRUE", "FALSE", "end", "select", "ARRAY", "when", "Case", "then", "AND", "or", "not", "user", "table"] {
            cx.case("reserved-ident", &E::Bin("+", b(atom(w)), b(E::Int(1))), Some("KNOWN-reserved-ident"));
        }
    }
    rep.compare_with_model(&opts.driver, &pending);
    rep
}

fn operand_shapes() -> Vec<E> {
    let x = || b(E::Ident("x".into()));
    vec![
        E::Ident("x".into()),
        E::Int(5),
        E::Float("2.5".into()),
        E::Float("1e999".into()),
        E::Str("it's".into(), 0),
        E::Null,
        E::Bool(true),
        E::Paren(x()),
        E::Bin("+", x(), b(E::Int(1))),
        E::Bin("&&", x(), b(E::Bool(false))),
        E::Bin("in", x(), b(E::List(vec![]))),
        E::Not(1, x()),
        E::Neg(1, x()),
        E::Neg(1, b(E::Int(1))),
        E::Tern(x(), b(E::Int(1)), b(E::Int(2))),
        E::Chain(x(), vec![Lk::Access("name".into())]),
        E::Chain(x(), vec![Lk::Access("a".into()), Lk::Access("b".into())]),
        E::Chain(x(), vec![Lk::Index(E::Int(0))]),
        E::Chain(x(), vec![Lk::Access("a".into()), Lk::Index(E::Int(0))]),
        E::Chain(b(E::Ident("f".into())), vec![Lk::Call(vec![E::Int(1), E::Int(2)])]),
        E::Chain(x(), vec![Lk::Access("f".into()), Lk::Call(vec![E::Int(1), E::Int(2)])]),
        E::Chain(b(E::Ident("int".into())), vec![Lk::Call(vec![E::Ident("x".into())])]),
        E::Chain(b(E::Ident("string".into())), vec![Lk::Call(vec![])]),
        E::Chain(b(E::Ident("double".into())), vec![Lk::Call(vec![E::Chain(b(E::Ident("int".into())), vec![Lk::Call(vec![E::Ident("x".into())])])])]),
        E::List(vec![]),
        E::List(vec![E::Int(1), E::Int(2)]),
        E::Map(vec![]),
        E::Map(vec![(E::Str("a'b".into(), 0), E::Int(1))]),
    ]
}

fn links() -> Vec<Lk> {
    vec![
        Lk::Access("a".into()),
        Lk::Call(vec![]),
        Lk::Call(vec![E::Int(1), E::Int(2)]),
        Lk::Index(E::Int(0)),
        Lk::Index(E::Str("k'".into(), 1)),
    ]
}

/// replace one leaf of `e` by `bad`; false when no leaf was found
fn plant(e: &mut E, bad: &E, rng: &mut Rng) -> bool {
    match e {
        E::Bin(_, l, r) => {
            if rng.chance(1, 2) {
                plant(l, bad, rng)
            } else {
                plant(r, bad, rng)
            }
        }
        E::Not(_, x) | E::Neg(_, x) | E::Paren(x) => plant(x, bad, rng),
        E::Tern(c, t, f) => match rng.below(3) {
            0 => plant(c, bad, rng),
            1 => plant(t, bad, rng),
            _ => plant(f, bad, rng),
        },
        E::Chain(p, ops) => {
            for o in ops.iter_mut() {
                match o {
                    Lk::Call(a) if !a.is_empty() && rng.chance(1, 2) => {
                        let i = rng.below(a.len());
                        return plant(&mut a[i], bad, rng);
                    }
                    Lk::Index(i) if rng.chance(1, 2) => return plant(i, bad, rng),
                    _ => {}
                }
            }
            plant(p, bad, rng)
        }
        E::List(es) if !es.is_empty() => {
            let i = rng.below(es.len());
            plant(&mut es[i], bad, rng)
        }
        E::Map(kv) if !kv.is_empty() => {
            let i = rng.below(kv.len());
            plant(&mut kv[i].1, bad, rng)
        }
        leaf => {
            *leaf = bad.clone();
            true
        }
    }
}
