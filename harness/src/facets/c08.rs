//! C08 — has() / coalesce() distinguish absent data from every other failure.
//!
//! Oracle (model-free): the generator knows the class of every argument it renders — evaluates to a value,
//! absent (unbound root, missing key, non-map intermediate), or fails otherwise — and computes the expected
//! result and call log from the classes.  The class itself is cross-checked by evaluating the argument on its
//! own through the real API; a propagated failure must carry the kind the argument fails with on its own.
use crate::api::{compile, env_wire, exec_full, literal, ExecOut, UserFn};
use crate::gen::{std_bindings, Gen, Ty};
use crate::report::{Pending, Report};
use crate::rng::Rng;
use crate::wire::{hex, l2_absent, show_val};
use crate::Opts;
use rscel::CelValue;
use serde_json::json;
use std::collections::HashMap;

const FIELDS: [&str; 4] = ["a", "b", "c", "d"];

/// What the generator knows about an argument expression.
#[derive(Clone, Debug, PartialEq)]
enum Class {
    Value(String), // canonical text of the value
    Absent,
    Fails,
}

impl Class {
    fn name(&self) -> &'static str {
        match self {
            Class::Value(v) if v == "n" => "null",
            Class::Value(_) => "present",
            Class::Absent => "absent",
            Class::Fails => "fails",
        }
    }
}

fn is_absent_obs(obs: &str) -> bool {
    obs == "e:binding" || obs == "e:attribute"
}

fn class_of_obs(obs: &str) -> Class {
    if is_absent_obs(obs) {
        Class::Absent
    } else if obs.starts_with("e:") || obs == "P" {
        Class::Fails
    } else {
        Class::Value(obs.to_string())
    }
}

struct Ctx {
    binds: Vec<(String, CelValue)>,
    users: Vec<(String, UserFn)>,
}

fn users() -> Vec<(String, UserFn)> {
    vec![
        ("tick".to_string(), UserFn::Arg0),
        ("tnull".to_string(), UserFn::Const(CelValue::Null)),
        ("tfail".to_string(), UserFn::Fail),
    ]
}

/// Other programs stored in the same context; an identifier naming one evaluates it. They need no bindings:
/// a value, null, a map, two ordinary failures, an absent field, an unbound name.
fn stored_programs() -> Vec<(String, rscel::Program)> {
    thread_local! {
        static PROGS: Vec<(String, rscel::Program)> = [
            ("pval", "5"), ("pnull", "null"), ("pmap", "{'m': {'k': 1}, 'a': 0}"), ("pdiv", "1 / 0"), ("pidx", "[1][5]"),
            ("pabs", "{'a': 1}.zz"), ("punb", "qqq_unbound"),
        ]
        .iter()
        .filter_map(|(n, s)| compile(s).ok().map(|p| (n.to_string(), p)))
        .collect();
    }
    PROGS.with(|p| p.clone())
}

fn run_src(src: &str, cx: &Ctx) -> ExecOut {
    match compile(src) {
        Ok(p) => {
            let mut progs = stored_programs();
            progs.push(("main".to_string(), p));
            exec_full(&progs, "main", &cx.binds, &cx.users)
        }
        Err(e) => ExecOut { obs: e, log: "L:0".into() },
    }
}

fn queue(pending: &mut Vec<Pending>, src: &str, cx: &Ctx, out: &ExecOut, note: &str) {
    pending.push(Pending {
        request: format!("exec {} {}", env_wire(&stored_programs(), &cx.binds, &cx.users), hex(src.as_bytes())),
        implementation: format!("{} {}", out.obs, out.log),
        level: 2,
        input: format!("{}{}", src, note),
    });
}

fn mklog(entries: &[String]) -> String {
    format!("L:{}{}{}", entries.len(), if entries.is_empty() { "" } else { " " }, entries.join(" "))
}

// ---------------------------------------------------------------------------------------------
// Part A: has() over field paths

#[derive(Clone, Debug)]
enum Cfg {
    RootUnbound,
    /// the key of level j (1..=d) is missing; `true`: the map it is missing from has other keys
    MissingAt(usize, bool),
    /// the value at level j (0..d) is not a map (kind index), so the next field cannot be read
    NotMapAt(usize, usize),
    LeafNull,
    LeafPresent(usize),
}

fn non_maps() -> Vec<CelValue> {
    vec![
        CelValue::Int(3),
        CelValue::String("a".into()),
        CelValue::List(vec![CelValue::Int(1)]),
        CelValue::Null,
        CelValue::Bool(true),
        CelValue::Float(1.5),
        CelValue::UInt(2),
    ]
}

fn leaves() -> Vec<CelValue> {
    let mut m = HashMap::new();
    m.insert("z".to_string(), CelValue::Int(1));
    vec![
        CelValue::Int(0),
        CelValue::Int(7),
        CelValue::String("".into()),
        CelValue::String("str".into()),
        CelValue::List(vec![]),
        CelValue::List(vec![CelValue::Map(m.clone())]),
        CelValue::Map(HashMap::new()),
        CelValue::Map(m),
        CelValue::Bool(false),
        CelValue::Bool(true),
        CelValue::Float(2.5),
        CelValue::UInt(5),
    ]
}

fn configs(d: usize) -> Vec<Cfg> {
    let mut v = vec![Cfg::RootUnbound, Cfg::LeafNull];
    for j in 1..=d {
        v.push(Cfg::MissingAt(j, true));
        v.push(Cfg::MissingAt(j, false));
    }
    for j in 0..d {
        for k in 0..non_maps().len() {
            v.push(Cfg::NotMapAt(j, k));
        }
    }
    for k in 0..leaves().len() {
        v.push(Cfg::LeafPresent(k));
    }
    v
}

fn cfg_name(c: &Cfg, d: usize) -> &'static str {
    match c {
        Cfg::RootUnbound => "root unbound",
        Cfg::MissingAt(j, _) if *j == d => "leaf missing",
        Cfg::MissingAt(..) => "intermediate map missing",
        Cfg::NotMapAt(..) => "intermediate not a map",
        Cfg::LeafNull => "leaf null",
        Cfg::LeafPresent(_) => "leaf present",
    }
}

/// The value bound at the root for a path of `d` fields under the configuration (None: unbound).
fn build_root(d: usize, cfg: &Cfg) -> Option<CelValue> {
    if matches!(cfg, Cfg::RootUnbound) {
        return None;
    }
    let leaf = match cfg {
        Cfg::LeafNull => CelValue::Null,
        Cfg::LeafPresent(k) => leaves()[*k].clone(),
        _ => CelValue::Int(1),
    };
    fn level(j: usize, d: usize, cfg: &Cfg, leaf: &CelValue) -> CelValue {
        if let Cfg::NotMapAt(k, kind) = cfg {
            if *k == j {
                return non_maps()[*kind].clone();
            }
        }
        if j == d {
            return leaf.clone();
        }
        let mut m = HashMap::new();
        let missing = matches!(cfg, Cfg::MissingAt(k, _) if *k == j + 1);
        let bare = matches!(cfg, Cfg::MissingAt(k, false) if *k == j + 1);
        if !missing {
            m.insert(FIELDS[j].to_string(), level(j + 1, d, cfg, leaf));
        }
        if !bare {
            m.insert("s".to_string(), CelValue::Int(1));
        }
        CelValue::Map(m)
    }
    Some(level(0, d, cfg, &leaf))
}

fn expected_class(cfg: &Cfg) -> Class {
    match cfg {
        Cfg::LeafNull => Class::Value("n".into()),
        Cfg::LeafPresent(k) => Class::Value(show_val(&leaves()[*k])),
        _ => Class::Absent,
    }
}

#[derive(Clone, Copy, PartialEq, Debug)]
enum Form {
    Bound,   // r.a.b with r a bound variable
    Literal, // ({...}).a.b
    LoopVar, // the root is a loop variable of an enclosing macro
    Index,   // r['a']['b']
    Mixed,   // r.a['b'].c
    DynBound, // r.a.b with every map on the path bound as a dyn value (CelValue::from_dyn); implementation only
    DynIndex, // r['a']['b'] over the same
}

/// The same data with every map along the path wrapped as a dyn value.
fn dynify(v: &CelValue, j: usize, d: usize) -> CelValue {
    match v {
        CelValue::Map(m) if j < d => {
            let mut n = HashMap::new();
            for (k, x) in m.iter() {
                n.insert(k.clone(), if k == FIELDS[j] { dynify(x, j + 1, d) } else { x.clone() });
            }
            CelValue::from_dyn(std::sync::Arc::new(CelValue::Map(n)))
        }
        _ => v.clone(),
    }
}

/// Render the path; `root` is the text of the root operand.
fn path_src(root: &str, d: usize, form: Form) -> String {
    let mut s = root.to_string();
    for (j, f) in FIELDS.iter().enumerate().take(d) {
        let idx = match form {
            Form::Index | Form::DynIndex => true,
            Form::Mixed => j % 2 == 1,
            _ => false,
        };
        if idx {
            s.push_str(&format!("['{}']", f));
        } else {
            s.push_str(&format!(".{}", f));
        }
    }
    s
}

/// A syntactic position a `has(..)`/`coalesce(..)` call is placed in, and how its outcome shows there.
#[allow(dead_code)]
struct Position {
    name: &'static str,
    wrap: fn(&str) -> String,
    /// how a boolean result of the call shows at the top
    on_bool: fn(bool) -> String,
    boolean_only: bool,
}

fn positions() -> Vec<Position> {
    fn b(x: bool) -> String {
        if x { "b:1".into() } else { "b:0".into() }
    }
    vec![
        Position { name: "top level", wrap: |c| c.to_string(), on_bool: b, boolean_only: false },
        Position { name: "map body", wrap: |c| format!("[1].map(x, {})[0]", c), on_bool: b, boolean_only: false },
        Position { name: "filter body", wrap: |c| format!("([1].filter(x, {}) == [1])", c), on_bool: b, boolean_only: true },
        Position { name: "nested all/exists body", wrap: |c| format!("[[1]].all(y, y.exists(x, {}))", c), on_bool: b, boolean_only: true },
        Position { name: "reduce step", wrap: |c| format!("[1].reduce(acc, x, {}, null)", c), on_bool: b, boolean_only: false },
        Position { name: "ternary condition", wrap: |c| format!("({} ? 'y' : 'n')", c), on_bool: |x| if x { "s:79".into() } else { "s:6e".into() }, boolean_only: true },
        Position { name: "negated", wrap: |c| format!("!{}", c), on_bool: |x| b(!x), boolean_only: true },
        Position { name: "inside has", wrap: |c| format!("(has({}) ? {} : null)", c, c), on_bool: b, boolean_only: false },
    ]
}

/// Check `has(arg)` in every position against the class of `arg`.
#[allow(clippy::too_many_arguments)]
fn check_has(
    rep: &mut Report,
    pending: &mut Vec<Pending>,
    arg: &str,
    prefix: fn(&str) -> String,
    class: &Class,
    base: &ExecOut,
    cx: &Ctx,
    tag: &str,
    to_model: bool,
) {
    let call = format!("has({})", arg);
    for pos in positions().iter() {
        let src = prefix(&(pos.wrap)(&call));
        let out = run_src(&src, cx);
        rep.count(Some(&format!("{}|{}", src, tag)));
        rep.bump(&format!("has:position:{}", pos.name));
        rep.bump(&format!("has:argument:{}", class.name()));
        let (want, want_log): (String, String) = match class {
            Class::Value(_) => ((pos.on_bool)(true), base.log.clone()),
            Class::Absent => ((pos.on_bool)(false), base.log.clone()),
            // the same failure, with the kind the argument fails with on its own
            Class::Fails => (base.obs.clone(), base.log.clone()),
        };
        // `inside has`: the call is evaluated twice when it does not fail
        let want_log = if pos.name == "inside has" && *class != Class::Fails {
            let n: Vec<&str> = base.log.splitn(2, ' ').collect();
            if n.len() == 2 {
                let cnt: usize = n[0][2..].parse().unwrap_or(0);
                format!("L:{} {} {}", cnt * 2, n[1], n[1])
            } else {
                want_log
            }
        } else {
            want_log
        };
        if out.obs != want || out.log != want_log {
            let why = match class {
                Class::Value(_) => "the argument evaluates, has() must be true",
                Class::Absent => "the argument fails only because data is absent (unbound variable / missing field), has() must be false",
                Class::Fails => "the argument fails for another reason, has() must fail the same way",
            };
            rep.oracle_fail(
                &format!("{} [{}; {}]", src, pos.name, tag),
                &format!("{} {}", out.obs, out.log),
                &format!("{} {}", want, want_log),
                why,
            );
        }
        if to_model {
            queue(pending, &src, cx, &out, &format!(" [{}]", tag));
        }
    }
}

fn paths_part(rep: &mut Report, pending: &mut Vec<Pending>, opts: &Opts) {
    let mut n_cfg = 0u64;
    for d in 0..=4usize {
        for cfg in configs(d) {
            n_cfg += 1;
            let root = build_root(d, &cfg);
            let want = expected_class(&cfg);
            let name = cfg_name(&cfg, d);
            rep.bump(&format!("path:depth:{}", d));
            rep.bump(&format!("path:config:{}", name));
            for form in [Form::Bound, Form::Literal, Form::LoopVar, Form::Index, Form::Mixed, Form::DynBound, Form::DynIndex] {
                if d == 0 && matches!(form, Form::Index | Form::Mixed | Form::DynBound | Form::DynIndex) {
                    continue;
                }
                let is_dyn = matches!(form, Form::DynBound | Form::DynIndex);
                if is_dyn && root.is_none() {
                    continue;
                }
                let mut binds = vec![("other".to_string(), CelValue::Int(9))];
                if let Some(r) = &root {
                    binds.push(("r".to_string(), if is_dyn { dynify(r, 0, d) } else { r.clone() }));
                }
                let cx = Ctx { binds, users: users() };
                // the text of the root operand and an enclosing macro that binds it (LoopVar)
                let (root_txt, prefix): (String, fn(&str) -> String) = match form {
                    Form::Literal => match &root {
                        None => continue,
                        Some(r) => match literal(r) {
                            Some(l) => (format!("({})", l), |s: &str| s.to_string()),
                            None => continue,
                        },
                    },
                    Form::LoopVar => {
                        if root.is_none() {
                            continue;
                        }
                        ("v".to_string(), |s: &str| format!("[r].map(v, {})[0]", s))
                    }
                    _ => ("r".to_string(), |s: &str| s.to_string()),
                };
                let path = path_src(&root_txt, d, form);
                // with [] a non-map operand is a type error, not an absent field: only dotted forms are
                // claimed for "intermediate not a map"
                let idx_nonmap = match (&cfg, form) {
                    (Cfg::NotMapAt(j, _), Form::Index) => Some(*j),
                    (Cfg::NotMapAt(j, _), Form::DynIndex) => Some(*j),
                    (Cfg::NotMapAt(j, _), Form::Mixed) => Some(*j),
                    _ => None,
                };
                let claimed = match idx_nonmap {
                    None => true,
                    // Mixed: level j+1 is read with [] exactly when j is odd
                    Some(j) => form == Form::Mixed && j % 2 == 0,
                };
                let tag = format!("{} fields, {}, {:?}", d, name, form);
                // 1. the path on its own: Binding / Attribute for absent data, the value otherwise
                let base = run_src(&prefix(&path), &cx);
                rep.count(Some(&format!("{}|{}", path, tag)));
                rep.bump(&format!("path:form:{:?}", form));
                if !claimed {
                    rep.bump("path:index on a non-map (type error, not claimed)");
                    if is_dyn {
                        continue;
                    }
                    queue(pending, &prefix(&path), &cx, &base, &format!(" [{}]", tag));
                    let src = prefix(&format!("has({})", path));
                    let out = run_src(&src, &cx);
                    queue(pending, &src, &cx, &out, &format!(" [{}]", tag));
                    continue;
                }
                if class_of_obs(&base.obs) != want {
                    rep.oracle_fail(
                        &format!("{} [{}]", prefix(&path), tag),
                        &base.obs,
                        &match &want {
                            Class::Value(v) => v.clone(),
                            _ => "e:binding or e:attribute".to_string(),
                        },
                        "a field path must yield its value, or a Binding/Attribute failure exactly when data is absent",
                    );
                }
                if matches!(cfg, Cfg::RootUnbound) && d == 0 && base.obs != "e:binding" {
                    rep.oracle_fail(&path, &base.obs, "e:binding", "an unbound variable is a Binding failure");
                }
                if !is_dyn {
                    queue(pending, &prefix(&path), &cx, &base, &format!(" [{}]", tag));
                }
                if n_cfg <= 3 {
                    rep.sample(json!({"path": prefix(&path), "config": tag, "impl": base.obs}));
                }
                // 2. has(path) in every position
                let base_in = ExecOut { obs: base.obs.clone(), log: base.log.clone() };
                check_has(rep, pending, &path, prefix, &want, &base_in, &cx, &tag, !is_dyn);
                // 3. coalesce(path, 'dflt'), coalesce(path, tick(1)): the path value unless null / absent
                for (alt, alt_obs, alt_log) in [("'dflt'", "s:64666c74", "L:0"), ("tick(41)", "i:41", "L:1 7469636b n l:1 i:41")] {
                    let src = prefix(&format!("coalesce({}, {})", path, alt));
                    let out = run_src(&src, &cx);
                    rep.count(Some(&format!("{}|{}", src, tag)));
                    rep.bump("coalesce:over paths");
                    let (w, wl) = match &want {
                        Class::Value(v) if v != "n" => (v.clone(), "L:0".to_string()),
                        _ => (alt_obs.to_string(), alt_log.to_string()),
                    };
                    if out.obs != w || out.log != wl {
                        rep.oracle_fail(
                            &format!("{} [{}]", src, tag),
                            &format!("{} {}", out.obs, out.log),
                            &format!("{} {}", w, wl),
                            "coalesce returns the first argument that is neither null nor absent and evaluates nothing after it",
                        );
                    }
                    if !is_dyn {
                        queue(pending, &src, &cx, &out, &format!(" [{}]", tag));
                    }
                }
            }
        }
    }
    let _ = opts;
}

// ---------------------------------------------------------------------------------------------
// Part A': has() over other arguments (values, absence inside larger expressions, other failures)

fn fixed_ctx() -> Ctx {
    let mut inner = HashMap::new();
    inner.insert("k".to_string(), CelValue::Int(1));
    let mut r1 = HashMap::new();
    r1.insert("a".to_string(), CelValue::Int(0));
    r1.insert("n".to_string(), CelValue::Null);
    r1.insert("m".to_string(), CelValue::Map(inner));
    Ctx {
        binds: vec![
            ("r1".to_string(), CelValue::Map(r1)),
            ("pv".to_string(), CelValue::String("x".into())),
            ("nv".to_string(), CelValue::Null),
            ("z0".to_string(), CelValue::Int(0)),
            ("lst".to_string(), CelValue::List(vec![CelValue::Int(1), CelValue::Int(2)])),
        ],
        users: users(),
    }
}

fn other_args() -> Vec<(&'static str, &'static str)> {
    // (source, class name) — class: "value" | "absent" | "fails"
    vec![
        ("1", "value"), ("null", "value"), ("nv", "value"), ("pv", "value"), ("z0", "value"), ("false", "value"),
        ("[]", "value"), ("{}", "value"), ("lst[0]", "value"), ("(1 + z0)", "value"), ("tick(2)", "value"),
        ("tnull(3)", "value"), ("r1.n", "value"), ("r1['m']['k']", "value"), ("has(q)", "value"), ("coalesce(q)", "value"),
        ("int", "value"), ("(z0 == 0 || 1/z0 == 1)", "value"), ("[1].map(x, x)", "value"),
        // stored programs referenced by name: a failing one is a failed operand of its own kind, not "absent"
        ("pval", "value"), ("pnull", "value"), ("pmap", "value"), ("pmap.m.k", "value"), ("(pval + 1)", "value"),
        ("pabs", "absent"), ("punb", "absent"), ("pmap.zz", "absent"), ("pmap.a.zz", "absent"), ("(punb + 1)", "absent"),
        ("pdiv", "fails"), ("pidx", "fails"), ("pdiv.a", "fails"), ("(pdiv + 1)", "fails"), ("[1].map(x, pdiv)", "fails"),
        ("pmap[0]", "fails"), ("tick(pidx)", "fails"),
        // absent data, also inside a larger expression (a failed operand is handed on by operators)
        ("q", "absent"), ("(q + 1)", "absent"), ("(1 + q)", "absent"), ("q.a", "absent"), ("q.a.b.c", "absent"),
        ("r1.zz", "absent"), ("r1['zz']", "absent"), ("r1.m.zz", "absent"), ("r1.a.zz", "absent"), ("r1.n.zz", "absent"),
        ("tick(q)", "absent"), ("[1].map(x, q)", "absent"), ("{'a': 1}.b", "absent"), ("-q", "absent"), ("!q", "absent"),
        ("(q ? 1 : 2)", "absent"), ("lst[q]", "absent"), ("{'k': tick(5)}.zz", "absent"), ("size(r1.zz)", "absent"),
        ("[2].all(x, r1.zz)", "absent"), ("(r1.zz == 1)", "absent"),
        // every other failure
        ("(1/0)", "fails"), ("(1/z0)", "fails"), ("(1 % z0)", "fails"), ("(pv + 1)", "fails"), ("(-pv)", "fails"),
        ("lst[5]", "fails"), ("lst[-9]", "fails"), ("[1, 2][2]", "fails"), ("lst['a']", "fails"), ("z0['a']", "fails"),
        ("r1[0]", "fails"), ("int('zz')", "fails"), ("(tick(1)/z0)", "fails"), ("tfail(1)", "fails"),
        ("[1].map(x, 1/z0)", "fails"), ("(1 < 'a')", "fails"), ("(1/z0).a", "fails"), ("lst[5].a", "fails"),
        ("{'a': 1/z0}.a", "fails"), ("f'{1/z0}'", "fails"), ("(z0 > 0 ? 1 : 1/z0)", "fails"), ("[1].all(x, 1/z0)", "fails"),
        ("size(5)", "fails"), ("(5).all(x, x)", "fails"), ("lst.map(x)", "fails"), ("has()", "fails"), ("has(1, 2)", "fails"),
        ("uint(-1)", "fails"), ("tick(1/z0)", "fails"),
        ("9223372036854775807 + 1", "fails"), ("(z0 - 9223372036854775807 - 2)", "fails"),
    ]
}

fn others_part(rep: &mut Report, pending: &mut Vec<Pending>) {
    let cx = fixed_ctx();
    for (src, cname) in other_args() {
        let base = run_src(src, &cx);
        let got = class_of_obs(&base.obs);
        rep.count(Some(src));
        if got.name() != cname && !(cname == "value" && matches!(got, Class::Value(_))) {
            rep.oracle_fail(
                src,
                &base.obs,
                cname,
                "argument expression on its own: value / Binding-or-Attribute (absent data) / another failure",
            );
            continue;
        }
        queue(pending, src, &cx, &base, "");
        check_has(rep, pending, src, |s| s.to_string(), &got, &base, &cx, cname, true);
    }
}

// ---------------------------------------------------------------------------------------------
// Part B: coalesce over all argument lists

#[derive(Clone)]
struct CAtom {
    /// source text; `#` is replaced by the call-counter id of the position
    src: &'static str,
    class: &'static str, // present | null | absent | fails
    /// log entry template when the atom is evaluated (function name hex), None: logs nothing
    logs: Option<&'static str>,
}

fn catoms(extended: bool) -> Vec<CAtom> {
    let mut v = vec![
        CAtom { src: "7", class: "present", logs: None },
        CAtom { src: "pv", class: "present", logs: None },
        CAtom { src: "false", class: "present", logs: None },
        CAtom { src: "null", class: "null", logs: None },
        CAtom { src: "nv", class: "null", logs: None },
        CAtom { src: "q", class: "absent", logs: None },
        CAtom { src: "r1.zz", class: "absent", logs: None },
        CAtom { src: "(1/z0)", class: "fails", logs: None },
        CAtom { src: "lst[5]", class: "fails", logs: None },
        CAtom { src: "(pv + 1)", class: "fails", logs: None },
        CAtom { src: "pdiv", class: "fails", logs: None },
        CAtom { src: "pmap.zz", class: "absent", logs: None },
        CAtom { src: "pnull", class: "null", logs: None },
        CAtom { src: "tick(#)", class: "present", logs: Some("7469636b") },
        CAtom { src: "tnull(#)", class: "null", logs: Some("746e756c6c") },
        CAtom { src: "{'k': tick(#)}.zz", class: "absent", logs: Some("7469636b") },
        CAtom { src: "(tick(#)/z0)", class: "fails", logs: Some("7469636b") },
    ];
    if extended {
        v.extend(vec![
            CAtom { src: "r1.n", class: "null", logs: None },
            CAtom { src: "r1.a.zz", class: "absent", logs: None },
            CAtom { src: "q.a.b", class: "absent", logs: None },
            CAtom { src: "r1['zz']", class: "absent", logs: None },
            CAtom { src: "0", class: "present", logs: None },
            CAtom { src: "''", class: "present", logs: None },
            CAtom { src: "r1.m.k", class: "present", logs: None },
            CAtom { src: "[]", class: "present", logs: None },
            CAtom { src: "(1/0)", class: "fails", logs: None },
            CAtom { src: "z0['a']", class: "fails", logs: None },
            CAtom { src: "(1/z0).a", class: "fails", logs: None },
            CAtom { src: "tfail(#)", class: "fails", logs: Some("746661696c") },
            CAtom { src: "coalesce(q, tnull(#))", class: "null", logs: Some("746e756c6c") },
            CAtom { src: "coalesce(nv, tick(#))", class: "present", logs: Some("7469636b") },
            CAtom { src: "(has(q) ? 1 : null)", class: "null", logs: None },
        ]);
    }
    v
}

struct CPos {
    name: &'static str,
    wrap: fn(&str) -> String,
}

fn cpositions() -> Vec<CPos> {
    vec![
        CPos { name: "top level", wrap: |c| c.to_string() },
        CPos { name: "map body", wrap: |c| format!("[1].map(x, {})[0]", c) },
        CPos { name: "nested macro bodies", wrap: |c| format!("[[1]].map(y, y.map(x, {}))[0][0]", c) },
        CPos { name: "reduce step", wrap: |c| format!("[1].reduce(acc, x, {}, 0)", c) },
        CPos { name: "first argument of coalesce", wrap: |c| format!("coalesce({})", c) },
    ]
}

/// Standalone outcome of every atom (kind of failure, value), evaluated once through the real API.
fn atom_bases(rep: &mut Report, atoms: &[CAtom], cx: &Ctx) -> Vec<ExecOut> {
    atoms
        .iter()
        .map(|a| {
            let src = a.src.replace('#', "10");
            let o = run_src(&src, cx);
            let got = class_of_obs(&o.obs);
            let ok = match a.class {
                "present" => matches!(&got, Class::Value(v) if v != "n"),
                "null" => matches!(&got, Class::Value(v) if v == "n"),
                "absent" => got == Class::Absent,
                _ => got == Class::Fails,
            };
            if !ok {
                rep.oracle_fail(&src, &o.obs, a.class, "coalesce argument on its own does not have the class the generator assumes");
            }
            o
        })
        .collect()
}

fn check_coalesce(
    rep: &mut Report,
    pending: &mut Vec<Pending>,
    atoms: &[CAtom],
    bases: &[ExecOut],
    idx: &[usize],
    pos: &CPos,
    cx: &Ctx,
    to_model: bool,
) {
    let args: Vec<String> = idx.iter().enumerate().map(|(i, a)| atoms[*a].src.replace('#', &format!("{}", 10 + i))).collect();
    let src = (pos.wrap)(&format!("coalesce({})", args.join(", ")));
    // expected, from the classes alone
    let mut log: Vec<String> = Vec::new();
    let mut want = "n".to_string();
    let mut chosen = idx.len();
    for (i, a) in idx.iter().enumerate() {
        let at = &atoms[*a];
        if let Some(f) = at.logs {
            log.push(format!("{} n l:1 i:{}", f, 10 + i));
        }
        match at.class {
            "present" => {
                want = if at.logs.is_some() { format!("i:{}", 10 + i) } else { bases[*a].obs.clone() };
                chosen = i;
                break;
            }
            "fails" => {
                want = bases[*a].obs.clone();
                chosen = i;
                break;
            }
            _ => {}
        }
    }
    let want_log = mklog(&log);
    let out = run_src(&src, cx);
    rep.count(Some(&src));
    rep.bump(&format!("coalesce:length:{}", idx.len()));
    rep.bump(&format!("coalesce:position:{}", pos.name));
    rep.bump(&format!(
        "coalesce:outcome:{}",
        if chosen == idx.len() { "nothing qualifies" } else if atoms[idx[chosen]].class == "fails" { "propagated failure" } else { "value" }
    ));
    if chosen < idx.len() && idx[chosen + 1..].iter().any(|a| atoms[*a].logs.is_some()) {
        rep.bump("coalesce:call-counting argument after the chosen one");
    }
    if out.obs != want || out.log != want_log {
        let after = out.log.len() > want_log.len();
        rep.oracle_fail(
            &src,
            &format!("{} {}", out.obs, out.log),
            &format!("{} {}", want, want_log),
            if after && out.obs == want {
                "an argument after the chosen one was evaluated (call log)"
            } else {
                "coalesce must return the first argument that is neither null nor absent, propagate other failures, yield null when nothing qualifies"
            },
        );
    }
    if to_model {
        queue(pending, &src, cx, &out, "");
    }
}

fn coalesce_part(rep: &mut Report, pending: &mut Vec<Pending>, opts: &Opts) {
    let cx = fixed_ctx();
    let atoms = catoms(false);
    let bases = atom_bases(rep, &atoms, &cx);
    let poss = cpositions();
    let k = atoms.len();
    let max_exh = if opts.thorough { 5 } else { 4 };
    let mut counter = 0u64;
    for len in 0..=max_exh {
        let total = k.pow(len as u32);
        for code in 0..total {
            let mut idx = Vec::with_capacity(len);
            let mut c = code;
            for _ in 0..len {
                idx.push(c % k);
                c /= k;
            }
            counter += 1;
            // every list at top level; the other positions in rotation (all of them for lists up to 3)
            let to_model = len <= 2 || counter % (if opts.thorough { 40 } else { 8 }) == 0;
            check_coalesce(rep, pending, &atoms, &bases, &idx, &poss[0], &cx, to_model);
            if len <= 3 {
                for p in poss.iter().skip(1) {
                    check_coalesce(rep, pending, &atoms, &bases, &idx, p, &cx, len <= 2);
                }
            } else {
                let p = &poss[1 + (counter as usize % (poss.len() - 1))];
                check_coalesce(rep, pending, &atoms, &bases, &idx, p, &cx, false);
            }
        }
    }
    rep.notes.push(format!(
        "coalesce: all argument lists of length 0..{} over {} argument forms (present / null / absent / failing, each also call-counting) — exhaustive; length 5 {}",
        max_exh,
        k,
        if opts.thorough { "exhaustive" } else { "sampled" }
    ));
    // sampled: length 5 (quick), and the extended argument set at lengths 1..5
    let mut rng = Rng::new(opts.seed ^ 0xC08);
    if !opts.thorough {
        for i in 0..20_000 {
            let idx: Vec<usize> = (0..5).map(|_| rng.below(k)).collect();
            check_coalesce(rep, pending, &atoms, &bases, &idx, &poss[i % poss.len()], &cx, i % 10 == 0);
        }
    }
    let ext = catoms(true);
    let ebases = atom_bases(rep, &ext, &cx);
    let n = if opts.thorough { 300_000 } else { 20_000 };
    for i in 0..n {
        let len = 1 + rng.below(5);
        let idx: Vec<usize> = (0..len).map(|_| rng.below(ext.len())).collect();
        check_coalesce(rep, pending, &ext, &ebases, &idx, &poss[i % poss.len()], &cx, i % 10 == 0);
    }
}

// ---------------------------------------------------------------------------------------------
// Part C: generated argument expressions (metamorphic: the argument evaluated on its own decides)

fn generated_part(rep: &mut Report, pending: &mut Vec<Pending>, opts: &Opts) {
    let mut rng = Rng::new(opts.seed ^ 0xC08C08);
    let n = if opts.thorough { 40_000 } else { 3_000 };
    let us = vec![("tick".to_string(), UserFn::Arg0)];
    for i in 0..n {
        let variant = (i % 6) as u64;
        let cx = Ctx { binds: std_bindings(variant), users: us.clone() };
        let depth = 1 + (i % 4) as u32;
        let mut exprs = Vec::new();
        for _ in 0..3 {
            let want = *rng.pick(&[Ty::Int, Ty::Bool, Ty::Any, Ty::List, Ty::Str, Ty::Map]);
            let mut g = Gen::new(&mut rng);
            g.noise = 120;
            exprs.push(g.expr(depth, want));
        }
        let bases: Vec<ExecOut> = exprs.iter().map(|e| run_src(e, &cx)).collect();
        if bases.iter().any(|b| b.obs == "P" || b.obs == "e:syntax") {
            continue;
        }
        // has(e)
        let c0 = class_of_obs(&bases[0].obs);
        let src = if i % 2 == 0 { format!("has({})", exprs[0]) } else { format!("[1].map(w9, has({}))[0]", exprs[0]) };
        let out = run_src(&src, &cx);
        let want = match &c0 {
            Class::Value(_) => "b:1".to_string(),
            Class::Absent => "b:0".to_string(),
            Class::Fails => bases[0].obs.clone(),
        };
        rep.count(Some(&src));
        rep.bump(&format!("generated:has:{}", c0.name()));
        if out.obs != want || out.log != bases[0].log {
            rep.oracle_fail(
                &format!("{} [bindings variant {}]", src, variant),
                &format!("{} {}", out.obs, out.log),
                &format!("{} {}", want, bases[0].log),
                &format!("the argument on its own gives {} {}", bases[0].obs, bases[0].log),
            );
        }
        queue(pending, &src, &cx, &out, &format!(" [bindings variant {}]", variant));
        // coalesce(e0, e1, e2)
        let call = format!("coalesce({}, {}, {})", exprs[0], exprs[1], exprs[2]);
        let src = if i % 2 == 1 { call } else { format!("[1].map(w9, {})[0]", call) };
        let out = run_src(&src, &cx);
        let mut want = "n".to_string();
        let mut logs: Vec<String> = Vec::new();
        for b in bases.iter() {
            if let Some((_, rest)) = b.log.split_once(' ') {
                logs.push(rest.to_string());
            }
            match class_of_obs(&b.obs) {
                Class::Value(v) if v != "n" => {
                    want = v;
                    break;
                }
                Class::Fails => {
                    want = b.obs.clone();
                    break;
                }
                _ => {}
            }
        }
        // entries are space separated triples; count them from the L:n headers
        let cnt: usize = {
            let mut c = 0;
            let mut stop = false;
            for b in bases.iter() {
                if stop {
                    break;
                }
                c += b.log.split(' ').next().and_then(|h| h[2..].parse::<usize>().ok()).unwrap_or(0);
                match class_of_obs(&b.obs) {
                    Class::Value(v) if v != "n" => stop = true,
                    Class::Fails => stop = true,
                    _ => {}
                }
            }
            c
        };
        let want_log = format!("L:{}{}{}", cnt, if logs.is_empty() { "" } else { " " }, logs.join(" "));
        rep.count(Some(&src));
        rep.bump("generated:coalesce");
        if out.obs != want || out.log != want_log {
            rep.oracle_fail(
                &format!("{} [bindings variant {}]", src, variant),
                &format!("{} {}", out.obs, out.log),
                &format!("{} {}", want, want_log),
                "coalesce over generated arguments: first argument (evaluated on its own) that is neither null nor absent; later arguments are not evaluated",
            );
        }
        queue(pending, &src, &cx, &out, &format!(" [bindings variant {}]", variant));
    }
}

// ---------------------------------------------------------------------------------------------
// Part D: odd and malformed uses (no claim beyond: no panic, model = code)

fn odd_part(rep: &mut Report, pending: &mut Vec<Pending>, opts: &Opts) {
    let cx = fixed_ctx();
    let fixed = [
        "has()", "has(1, 2)", "has", "coalesce", "r1.has(a)", "r1.has(zz)", "has(has(q))", "has(has)", "coalesce(,)", "has(q",
        "coalesce(q,)", "has(.a)", "r1.coalesce(q, 1)", "has(r1.size)", "has(r1.map)", "has(r1.m.size)", "has(r1.has)",
        "coalesce(r1.size, 1)", "has(r1.a.size)", "has(r1..a)", "has(r1.)", "coalesce(coalesce(), coalesce(q), 3)",
        "has(coalesce)", "[has].map(x, x)", "has(x)", "[1].map(has, has(has))", "[r1].map(coalesce, coalesce(coalesce.zz, coalesce.a))",
        "has(r1.a) && has(r1.zz) || has(q)", "has(q) ? 1/0 : 2", "coalesce(null)", "coalesce(q) == null",
    ];
    let mut srcs: Vec<String> = fixed.iter().map(|s| s.to_string()).collect();
    // Reported finding (not claimed, see properties_conf.json assumptions): an absent key whose name is also a
    // function / macro name is a method reference that is never called; has() then fails with an Internal error
    // instead of false.  Raised as an oracle failure (known_findings.json lists it by its `why`); VERIF_C08_METHOD_FIELDS=0 only counts it.
    let strict = std::env::var("VERIF_C08_METHOD_FIELDS").map(|v| v != "0").unwrap_or(true);
    for name in ["size", "map", "filter", "has", "all", "min", "max", "type", "string", "int", "coalesce", "reduce"] {
        for (src, want) in [(format!("has(r1.{})", name), "b:0"), (format!("has(r1.m.{})", name), "b:0"), (format!("coalesce(r1.{}, 7)", name), "i:7")] {
            let out = run_src(&src, &cx);
            rep.count(Some(&src));
            if out.obs != want {
                rep.bump("reported finding: absent key named like a function/macro is not 'absent' for has()/coalesce()");
                if strict {
                    rep.oracle_fail(&src, &out.obs, want, "field named like a built-in function or macro: the key is absent, has() must be false / coalesce() must pass over it");
                }
            } else {
                rep.bump("method-named absent key handled as absent");
            }
            queue(pending, &src, &cx, &out, " [method-named field]");
        }
    }
    // token-level damage of valid calls
    let mut rng = Rng::new(opts.seed ^ 0xBAD08);
    let seeds = ["has(r1.m.k)", "coalesce(q, r1.zz, tick(1), tick(2))", "[1].map(x, has(r1.a.zz))[0]", "coalesce(nv, (1/z0), 3)"];
    let n = if opts.thorough { 4_000 } else { 600 };
    for i in 0..n {
        let s: Vec<char> = seeds[i % seeds.len()].chars().collect();
        let mut t = s.clone();
        match rng.below(4) {
            0 => {
                t.remove(rng.below(s.len()));
            }
            1 => {
                let p = rng.below(s.len());
                t.insert(p, s[rng.below(s.len())]);
            }
            2 => {
                let (a, b) = (rng.below(s.len()), rng.below(s.len()));
                t.swap(a, b);
            }
            _ => {
                let p = rng.below(s.len());
                t[p] = *rng.pick(&['(', ')', ',', '.', 'q', '0', ' ', '[', ']', '\'']);
            }
        }
        srcs.push(t.into_iter().collect());
    }
    for src in srcs.iter() {
        let out = run_src(src, &cx);
        rep.count(Some(src));
        rep.bump(&format!("odd:{}", if out.obs == "P" { "panic" } else if out.obs == "e:syntax" { "syntax error" } else if out.obs.starts_with("e:") { "error" } else { "value" }));
        if out.obs == "P" {
            rep.oracle_fail(src, "P", "value or error", "panicked");
        }
        queue(pending, src, &cx, &out, " [odd form]");
    }
}

pub fn run(opts: &Opts) -> Report {
    let mut rep = Report::new(
        "C08",
        "has(): every field path of 0..4 fields x every binding configuration (root unbound, intermediate map missing, leaf missing, leaf null, leaf present (12 value kinds), \
         intermediate not a map (7 kinds)) x 5 spellings (bound root, literal root, loop-variable root, [] keys, mixed) x 8 positions (top level, macro bodies, nested macros, ternary, \
         negation, inside has) — exhaustive; has() over 70 other arguments incl. every other failure kind; coalesce(): all argument lists of length 0..4 (quick) / 0..5 (thorough) over 14 \
         argument forms {present, null, absent, failing} each also call-counting — exhaustive — plus sampled longer/extended lists, in 5 positions; generated arguments (metamorphic); \
         odd/malformed calls. Expected results and call logs computed from the argument classes (model-free); non-trivial = distinct source text + configuration",
    );
    let mut pending: Vec<Pending> = Vec::new();
    paths_part(&mut rep, &mut pending, opts);
    others_part(&mut rep, &mut pending);
    coalesce_part(&mut rep, &mut pending, opts);
    generated_part(&mut rep, &mut pending, opts);
    odd_part(&mut rep, &mut pending, opts);
    rep.exhaustive = true;
    let _ = l2_absent;
    rep.compare_with_model(&opts.driver, &pending);
    rep
}
