//! C19 — a compiled program serialised to JSON or to bincode and read back behaves exactly like the original.
//!
//! ORACLE (model-free): for every generated program × {serde_json text, serde_json::Value, bincode}: serialisation
//! succeeds, deserialisation succeeds, the program read back reports the same source and parameters, holds
//! the same bytecode (doubles bit for bit, for JSON up to the NaN payload; error constants with their payload),
//! evaluates under several bindings to the same value / error kind with the same call log, and serialises
//! again to the same form.  TIE: the model's `encBin` / `encJ` of the real program dump against the real
//! `bincode::serialize` bytes and `serde_json::to_value` tree, and the model's `decBin ∘ encBin`, `decJ ∘ encJ`
//! against the real programs read back.
use crate::api::{compile, exec_full, literal, UserFn};
use crate::gen::{std_bindings, Gen, Ty};
use crate::report::{guarded, Pending, Report};
use crate::rng::Rng;
use crate::wire::{err_kind, hex};
use crate::Opts;
use chrono::{DateTime, TimeDelta, Utc};
use rscel::{ByteCode, CelError, CelValue, Program, ProgramDetails};
use serde_json::{json, Value};
use std::collections::{BTreeMap, BTreeSet};

// ---------------------------------------------------------------------------------------------
// rich wire form (shared with Driver/SerdeWire.lean)

#[derive(Clone, Copy)]
struct Form {
    /// map entries and parameters sorted (canonical form for comparisons) instead of iteration order
    sort: bool,
    /// every NaN as the one NaN JSON can carry
    nan: bool,
}

fn rich_err(e: &CelError, out: &mut String) {
    match e {
        CelError::Misc(m) => out.push_str(&format!("E:misc:{}", hex(m.as_bytes()))),
        CelError::Syntax(s) => out.push_str(&format!(
            "E:syntax:{}:{}:{}",
            s.loc().line(),
            s.loc().col(),
            match s.message() {
                None => "-".to_string(),
                Some(m) => hex(m.as_bytes()),
            }
        )),
        CelError::Value(m) => out.push_str(&format!("E:value:{}", hex(m.as_bytes()))),
        CelError::Argument(m) => out.push_str(&format!("E:argument:{}", hex(m.as_bytes()))),
        CelError::InvalidOp(m) => out.push_str(&format!("E:invalidOp:{}", hex(m.as_bytes()))),
        CelError::Runtime(m) => out.push_str(&format!("E:runtime:{}", hex(m.as_bytes()))),
        CelError::Binding { symbol } => out.push_str(&format!("E:binding:{}", hex(symbol.as_bytes()))),
        CelError::Attribute { parent, field } => out.push_str(&format!("E:attribute:{}:{}", hex(parent.as_bytes()), hex(field.as_bytes()))),
        CelError::DivideByZero => out.push_str("E:divZero"),
        CelError::Internal(m) => out.push_str(&format!("E:internal:{}", hex(m.as_bytes()))),
    }
}

fn rich_val(v: &CelValue, f: Form, out: &mut String) {
    match v {
        CelValue::Int(i) => out.push_str(&format!("i:{}", i)),
        CelValue::UInt(u) => out.push_str(&format!("u:{}", u)),
        CelValue::Float(x) => {
            let bits = if f.nan && x.is_nan() { 0x7ff8000000000000u64 } else { x.to_bits() };
            out.push_str(&format!("f:{:016x}", bits))
        }
        CelValue::Bool(b) => out.push_str(if *b { "b:1" } else { "b:0" }),
        CelValue::String(s) => out.push_str(&format!("s:{}", hex(s.as_bytes()))),
        CelValue::Bytes(b) => out.push_str(&format!("y:{}", hex(b.as_slice()))),
        CelValue::List(l) => {
            out.push_str(&format!("l:{}", l.len()));
            for x in l {
                out.push(' ');
                rich_val(x, f, out);
            }
        }
        CelValue::Map(m) => {
            let mut entries: Vec<(&String, &CelValue)> = m.iter().collect();
            if f.sort {
                entries.sort_by(|a, b| a.0.cmp(b.0));
            }
            out.push_str(&format!("m:{}", entries.len()));
            for (k, x) in entries {
                out.push(' ');
                out.push_str(&hex(k.as_bytes()));
                out.push(' ');
                rich_val(x, f, out);
            }
        }
        CelValue::Null => out.push('n'),
        CelValue::Ident(s) => out.push_str(&format!("id:{}", hex(s.as_bytes()))),
        CelValue::Type(s) => out.push_str(&format!("t:{}", hex(s.as_bytes()))),
        CelValue::TimeStamp(t) => {
            let n = t.timestamp() as i128 * 1_000_000_000 + t.timestamp_subsec_nanos() as i128;
            out.push_str(&format!("ts:{}", n))
        }
        CelValue::Duration(d) => {
            let n = d.num_seconds() as i128 * 1_000_000_000 + d.subsec_nanos() as i128;
            out.push_str(&format!("d:{}", n))
        }
        CelValue::ByteCode(bc) => {
            out.push_str(&format!("c:{}", bc.len()));
            for i in bc.iter() {
                out.push(' ');
                rich_instr(i, f, out);
            }
        }
        CelValue::Err(e) => rich_err(e, out),
        _ => out.push_str("unsupported"),
    }
}

fn rich_instr(i: &ByteCode, f: Form, out: &mut String) {
    if let ByteCode::Push(v) = i {
        out.push_str("PUSH ");
        rich_val(v, f, out)
    } else {
        crate::wire::write_instr(i, out)
    }
}

fn rich_prog(p: &Program, f: Form) -> String {
    let mut out = match p.source() {
        None => "S:-".to_string(),
        Some(s) => format!("S:{}", hex(s.as_bytes())),
    };
    let mut params: Vec<&str> = p.params();
    if f.sort {
        params.sort();
    }
    out.push_str(&format!(" N:{}", params.len()));
    for x in params {
        out.push(' ');
        out.push_str(&hex(x.as_bytes()));
    }
    out.push_str(&format!(" c:{}", p.bytecode().len()));
    for i in p.bytecode().iter() {
        out.push(' ');
        rich_instr(i, f, &mut out);
    }
    out
}

// ---------------------------------------------------------------------------------------------
// what a program holds (measured, for the distribution)

struct Census {
    values: BTreeMap<&'static str, u64>,
    instrs: BTreeMap<&'static str, u64>,
    errs: BTreeMap<&'static str, u64>,
    sub_ms: bool,
    multi_entry: bool,
    nan: bool,
    max_depth: u32,
}

fn value_name(v: &CelValue) -> &'static str {
    match v {
        CelValue::Int(_) => "Int",
        CelValue::UInt(_) => "UInt",
        CelValue::Float(_) => "Float",
        CelValue::Bool(_) => "Bool",
        CelValue::String(_) => "String",
        CelValue::Bytes(_) => "Bytes",
        CelValue::List(_) => "List",
        CelValue::Map(_) => "Map",
        CelValue::Null => "Null",
        CelValue::Ident(_) => "Ident",
        CelValue::Type(_) => "Type",
        CelValue::TimeStamp(_) => "TimeStamp",
        CelValue::Duration(_) => "Duration",
        CelValue::ByteCode(_) => "ByteCode",
        CelValue::Err(_) => "Err",
        _ => "unserialisable",
    }
}

fn instr_name(i: &ByteCode) -> &'static str {
    use ByteCode::*;
    match i {
        Push(_) => "Push", Pop => "Pop", Test => "Test", Dup => "Dup", Or => "Or", And => "And", Not => "Not", Neg => "Neg",
        Add => "Add", Sub => "Sub", Mul => "Mul", Div => "Div", Mod => "Mod", Lt => "Lt", Le => "Le", Eq => "Eq", Ne => "Ne",
        Ge => "Ge", Gt => "Gt", In => "In", Jmp(_) => "Jmp", JmpCond { .. } => "JmpCond", MkList(_) => "MkList",
        MkDict(_) => "MkDict", Index => "Index", Access => "Access", Call(_) => "Call", FmtString(_) => "FmtString",
    }
}

const VALUE_VARIANTS: [&str; 15] = ["Int", "UInt", "Float", "Bool", "String", "Bytes", "List", "Map", "Null", "Ident", "Type", "TimeStamp", "Duration", "ByteCode", "Err"];
const INSTR_VARIANTS: [&str; 28] = [
    "Push", "Pop", "Test", "Dup", "Or", "And", "Not", "Neg", "Add", "Sub", "Mul", "Div", "Mod", "Lt", "Le", "Eq", "Ne", "Ge", "Gt", "In", "Jmp",
    "JmpCond", "MkList", "MkDict", "Index", "Access", "Call", "FmtString",
];
const ERR_KINDS: [&str; 10] = ["misc", "syntax", "value", "argument", "invalidOp", "runtime", "binding", "attribute", "divZero", "internal"];

fn census_val(v: &CelValue, c: &mut Census, depth: u32) {
    *c.values.entry(value_name(v)).or_insert(0) += 1;
    c.max_depth = c.max_depth.max(depth);
    match v {
        CelValue::Float(x) => c.nan |= x.is_nan(),
        CelValue::List(l) => l.iter().for_each(|x| census_val(x, c, depth + 1)),
        CelValue::Map(m) => {
            c.multi_entry |= m.len() > 1;
            m.values().for_each(|x| census_val(x, c, depth + 1))
        }
        CelValue::TimeStamp(t) => c.sub_ms |= t.timestamp_subsec_nanos() % 1_000_000 != 0,
        CelValue::Duration(d) => c.sub_ms |= d.subsec_nanos() % 1_000_000 != 0,
        CelValue::ByteCode(bc) => bc.iter().for_each(|i| census_instr(i, c, depth + 1)),
        CelValue::Err(e) => *c.errs.entry(err_kind(e)).or_insert(0) += 1,
        _ => {}
    }
}

fn census_instr(i: &ByteCode, c: &mut Census, depth: u32) {
    *c.instrs.entry(instr_name(i)).or_insert(0) += 1;
    if let ByteCode::Push(v) = i {
        census_val(v, c, depth)
    }
}

fn census(p: &Program) -> Census {
    let mut c = Census { values: BTreeMap::new(), instrs: BTreeMap::new(), errs: BTreeMap::new(), sub_ms: false, multi_entry: false, nan: false, max_depth: 0 };
    p.bytecode().iter().for_each(|i| census_instr(i, &mut c, 0));
    c.multi_entry |= p.params().len() > 1;
    c
}

// ---------------------------------------------------------------------------------------------
// constant-rich source generator

struct KGen<'a> {
    rng: &'a mut Rng,
    /// no quote characters (for use inside an f-string segment)
    plain: bool,
}

impl<'a> KGen<'a> {
    fn int(&mut self) -> String {
        let pool = crate::pool::ints();
        let i = if self.rng.chance(1, 2) { *self.rng.pick(&pool) } else { self.rng.interesting_u64() as i64 };
        if i == i64::MIN {
            "-9223372036854775808".to_string()
        } else if i < 0 {
            format!("(0 - {})", -(i as i128))
        } else {
            format!("{}", i)
        }
    }

    fn uint(&mut self) -> String {
        let pool = crate::pool::uints();
        let u = if self.rng.chance(1, 2) { *self.rng.pick(&pool) } else { self.rng.interesting_u64() };
        format!("{}u", u)
    }

    fn double(&mut self) -> String {
        let x = match self.rng.below(12) {
            0 => return "(0.0/0.0)".into(),
            1 => return "(1.0/0.0)".into(),
            2 => return "((0.0 - 1.0)/0.0)".into(),
            3 => return "(0.0 * (0.0 - 1.0))".into(),
            4 => *self.rng.pick(&[0.1, 1.0 / 3.0, 5e-324, f64::MAX, f64::MIN_POSITIVE, 2.5, 1e22, 1e23, 9007199254740993.0, 0.30000000000000004]),
            5 | 6 => (self.rng.next_u64() as f64) / (self.rng.below(1000) as f64 + 1.0),
            _ => f64::from_bits(self.rng.next_u64()),
        };
        if x.is_nan() {
            return if self.plain { "(0.0/0.0)".into() } else { "double('NaN')".into() };
        }
        if x.is_infinite() {
            return if x > 0.0 { "(1.0/0.0)".into() } else { "((0.0 - 1.0)/0.0)".into() };
        }
        let repr = format!("{:?}", x.abs());
        if !repr.contains('e') && repr.contains('.') {
            if x.is_sign_negative() {
                format!("(0.0 - {})", repr)
            } else {
                repr
            }
        } else if self.plain {
            "1.5".into()
        } else {
            format!("double('{}{}')", if x.is_sign_negative() { "-" } else { "" }, repr)
        }
    }

    fn string(&mut self) -> String {
        if self.plain {
            return "s".into();
        }
        let pool = ["", "a", "héllo wörld", "quote'\"\\", "line\nbreak\ttab", "\u{1F600}\u{10FFFF}", "\u{0}\u{7f}\u{80}", "NaN", "Infinity", "$f", "日本語"];
        literal(&CelValue::String(self.rng.pick(&pool).to_string())).unwrap()
    }

    fn bytes(&mut self) -> String {
        if self.plain {
            return "bytes(s)".into();
        }
        let n = self.rng.below(5);
        let b: Vec<u8> = (0..n)
            .map(|_| {
                let r = self.rng.below(256) as u8;
                *self.rng.pick(&[0u8, 0x7f, 0x80, 0xff, 0xc3, 0x28, 0x41, r])
            })
            .collect();
        literal(&CelValue::from_bytes(b)).unwrap()
    }

    fn duration(&mut self) -> String {
        if self.plain {
            return format!("duration({})", self.rng.range(-5, 100000));
        }
        match self.rng.below(8) {
            0 => "duration('1h')".into(),
            1 => format!("duration('{}ms')", self.rng.below(100000)),
            2 => format!("duration({})", self.rng.range(-4000000000, 4000000000)),
            3 => "(duration('1s') + duration('250ms'))".into(),
            4 => format!("(duration('{}s') - duration('{}ms'))", self.rng.below(100), self.rng.below(100000)),
            5 => format!("duration('{}h{}m{}s')", self.rng.below(1000), self.rng.below(60), self.rng.below(60)),
            // below the resolution of the serialised form (outside the property; only the model tie looks at the rounding)
            6 if self.rng.chance(1, 4) => format!("duration('{}us')", self.rng.pick(&[1u64, 499, 500, 501, 999, 1500, 2500, 123456]).clone()),
            6 => format!("duration('{}ms')", self.rng.interesting_u64() % 9_000_000_000_000_000),
            _ => "duration(0)".into(),
        }
    }

    fn failing(&mut self) -> String {
        match self.rng.below(12) {
            0 => "(1/0)".into(),
            1 => "(1 % 0)".into(),
            2 => "[1][5]".into(),
            3 => "(1 + 'a')".into(),
            4 => "(9223372036854775807 + 1)".into(),
            5 => "(1u - 2u)".into(),
            6 => "{'a': 1}['b']".into(),
            7 => "[1]['a']".into(),
            8 => "('a' < 1)".into(),
            9 => format!("({} / 0)", self.int()),
            10 => format!("({} * {})", self.int(), self.int()),
            _ => format!("({} + {})", self.uint(), self.uint()),
        }
    }

    fn konst(&mut self, depth: u32) -> String {
        let pick = self.rng.below(if depth == 0 { 12 } else { 17 });
        match pick {
            0 | 1 => self.int(),
            2 => self.uint(),
            3 | 4 => self.double(),
            5 => (*self.rng.pick(&["true", "false", "null"])).to_string(),
            6 => self.string(),
            7 => self.bytes(),
            8 => self.duration(),
            9 => self.failing(),
            10 => (*self.rng.pick(&["type(1)", "type(1u)", "type(1.5)", "type(null)", "type([])", "type({})", "type(true)", "type(type(1))", "int", "string", "dyn"])).to_string(),
            11 => (*self.rng.pick(&["x", "m", "q", "l"])).to_string(),
            12 | 13 => {
                let n = self.rng.below(4);
                let items: Vec<String> = (0..n).map(|_| self.konst(depth - 1)).collect();
                format!("[{}]", items.join(", "))
            }
            14 | 15 => {
                let n = self.rng.below(4);
                let keys = if self.plain { vec!["s"; 4] } else { vec!["'a'", "'b'", "'k'", "'é'", "''", "'a'", "'$f'"] };
                let items: Vec<String> = (0..n).map(|_| format!("{}: {}", *self.rng.pick(&keys), self.konst(depth - 1))).collect();
                format!("{{{}}}", items.join(", "))
            }
            _ => {
                let op = *self.rng.pick(&["+", "-", "*", "/", "%", "==", "!=", "<", "<=", ">", ">=", "in", "||", "&&"]);
                format!("({} {} {})", self.konst(depth - 1), op, self.konst(depth - 1))
            }
        }
    }
}

fn k(rng: &mut Rng, depth: u32) -> String {
    KGen { rng, plain: false }.konst(depth)
}

fn kplain(rng: &mut Rng, depth: u32) -> String {
    KGen { rng, plain: true }.konst(depth)
}

fn g(rng: &mut Rng, depth: u32, ty: Ty) -> String {
    let mut gen = Gen::new(rng);
    gen.doubles = true;
    gen.expr(depth, ty)
}

/// A program source built around constants: every context the compiler has for a constant.
fn source(rng: &mut Rng, i: usize) -> String {
    let d = 1 + (i % 3) as u32;
    match rng.below(26) {
        0 | 1 => k(rng, d + 1),
        2 => format!("[{}, {}, {}]", k(rng, d), k(rng, d), g(rng, d, Ty::Any)),
        3 => format!("tick({})", k(rng, d)),
        4 => format!("[{}, {}].map(v, [v, {}])", k(rng, d), k(rng, d), k(rng, d)),
        5 => format!("f'a{{{}}}b{{{}}}{{{{}}}}'", kplain(rng, d), kplain(rng, 1)),
        6 => format!("match {} {{ case int: {}, case string: {}, case > {}: {}, case _: {} }}", k(rng, d), k(rng, d), k(rng, d), k(rng, 0), k(rng, 0), g(rng, d, Ty::Any)),
        7 => format!("({} ? {} : {})", g(rng, d, Ty::Bool), k(rng, d), k(rng, d)),
        8 => format!("coalesce(n, m.zz, {})", k(rng, d)),
        9 => format!("({} == {})", k(rng, d), g(rng, d, Ty::Any)),
        10 => format!("({} in [{}, {}, x])", k(rng, d), k(rng, d), k(rng, d)),
        11 => format!("{{'k': {}, 'j': x, s: {}}}", k(rng, d), k(rng, d)),
        12 => format!("[{}, x][{}]", k(rng, d), *rng.pick(&["0", "1", "-1", "y"])),
        13 => format!("x.foo({}, {})", k(rng, d), k(rng, d)),
        14 => format!("{}({})", *rng.pick(&["string", "size", "type", "int", "uint", "double", "bool", "bytes", "duration", "abs", "tick"]), k(rng, d)),
        15 => format!("(has(m.b.c) && {})", k(rng, d)),
        16 => format!("(-{})", k(rng, d)),
        17 => format!("(!{})", k(rng, d)),
        18 => {
            let op = *rng.pick(&["+", "-", "*", "/", "%", "<", "<=", "==", "!=", ">=", ">", "in", "||", "&&"]);
            if rng.chance(1, 2) {
                format!("({} {} {})", g(rng, d, Ty::Any), op, k(rng, d))
            } else {
                format!("({} {} {})", k(rng, d), op, g(rng, d, Ty::Any))
            }
        }
        19 => format!("[{}].all(v, v == {} || {})", k(rng, d), k(rng, d), g(rng, 1, Ty::Bool)),
        20 => format!("[1, 2].reduce(acc, v, [acc, v, {}], {})", k(rng, d), k(rng, d)),
        21 => format!("(timestamp({}) + {})", *rng.pick(&["0", "1700000000", "'2020-01-01T00:00:00Z'", "x"]), KGen { rng, plain: false }.duration()),
        22 => format!("{}.{}", k(rng, d), *rng.pick(&["a", "size()", "getHours()", "k.j"])),
        23 => g(rng, d + 1, Ty::Any),
        24 => format!("{{{}: {}}}", KGen { rng, plain: false }.string(), g(rng, d, Ty::Any)),
        _ => format!("[{}, {}].filter(v, {})", k(rng, d), g(rng, d, Ty::Any), g(rng, 1, Ty::Bool)),
    }
}

// ---------------------------------------------------------------------------------------------
// programs assembled through the public API (`Program::new`): constants the compiler cannot fold
// (time stamps, the error kinds no operator produces) and every instruction with extreme operands

struct Parts {
    jmp_true: ByteCode,
    jmp_false: ByteCode,
    syntax_errors: Vec<CelError>,
}

fn parts() -> Parts {
    let find = |src: &str| -> ByteCode {
        let p = Program::from_source(src).expect("template compiles");
        let found = p.bytecode().iter().find(|i| matches!(i, ByteCode::JmpCond { .. })).cloned();
        found.expect("template holds a conditional jump")
    };
    let a = find("a || b");
    let b = find("a && b");
    let (t, f) = match &a {
        ByteCode::JmpCond { when, .. } if when.as_bool() => (a.clone(), b.clone()),
        _ => (b.clone(), a.clone()),
    };
    let mut syntax_errors = Vec::new();
    for src in ["1 +", "(", "'abc", "1 ? 2", "[1, ", "@", "((((((((((((((((((((((((((((((((((1))))))))))))))))))))))))))))))))))", "1 2", "\n\n  )"] {
        if let Err(e @ CelError::Syntax(_)) = Program::from_source(src) {
            syntax_errors.push(e)
        }
    }
    Parts { jmp_true: t, jmp_false: f, syntax_errors }
}

fn with_dist(template: &ByteCode, d: i32) -> ByteCode {
    match template {
        ByteCode::JmpCond { when, .. } => ByteCode::JmpCond { when: when.clone(), dist: d },
        other => other.clone(),
    }
}

fn rand_string(rng: &mut Rng) -> String {
    let pool = ["", "a", "héllo", "x y", "quote'\"\\", "\n\t\r", "\u{1F600}", "\u{0}", "日本", "NaN", "a\u{7f}b\u{80}c"];
    let mut s = rng.pick(&pool).to_string();
    if rng.chance(1, 4) {
        s.push_str(&format!("{}", rng.below(1000)));
    }
    s
}

fn rand_const(rng: &mut Rng, parts: &Parts, depth: u32, sub_ms_ok: bool) -> CelValue {
    let top = if depth == 0 { 13 } else { 16 };
    match rng.below(top) {
        0 => CelValue::Int(rng.interesting_u64() as i64),
        1 => CelValue::UInt(rng.interesting_u64()),
        2 => CelValue::Float(match rng.below(6) {
            0 => f64::NAN,
            1 => f64::from_bits(0xfff8_0000_0000_0001 | (rng.next_u64() >> 13)),
            2 => *rng.pick(&[f64::INFINITY, f64::NEG_INFINITY, -0.0, 0.0, f64::MAX, f64::MIN_POSITIVE, 5e-324]),
            _ => f64::from_bits(rng.next_u64()),
        }),
        3 => CelValue::Bool(rng.chance(1, 2)),
        4 => CelValue::String(rand_string(rng)),
        5 => CelValue::from_bytes((0..rng.below(6)).map(|_| rng.below(256) as u8).collect()),
        6 => CelValue::Null,
        7 => CelValue::from_ident(&rand_string(rng)),
        8 => CelValue::Type(rng.pick(&["int", "uint", "float", "string", "bytes", "list", "map", "null", "timestamp", "duration", "type", "dyn", ""]).to_string()),
        9 => {
            let lo = -8334601228800000i64;
            let hi = 8210266876799999i64;
            let ms = match rng.below(6) {
                0 => lo,
                1 => hi,
                2 => *rng.pick(&[0i64, -1, 1, 999, -999, 1000, 1_700_000_000_000]),
                _ => rng.range(lo, hi),
            };
            let mut t = DateTime::<Utc>::from_timestamp_millis(ms).expect("in range");
            if sub_ms_ok && rng.chance(1, 12) && ms < hi {
                t = t + TimeDelta::nanoseconds(*rng.pick(&[1i64, 499_999, 500_000, 999_999]));
            }
            CelValue::TimeStamp(t)
        }
        10 => {
            let ms = match rng.below(6) {
                0 => i64::MAX,
                1 => -i64::MAX,
                2 => *rng.pick(&[0i64, -1, 1, 999, -999, 1000, 86_400_000]),
                _ => rng.interesting_u64() as i64,
            };
            let ms = if ms == i64::MIN { -i64::MAX } else { ms };
            let mut d = TimeDelta::milliseconds(ms);
            if sub_ms_ok && rng.chance(1, 12) && ms.abs() < i64::MAX {
                let extra = *rng.pick(&[1i64, 499_999, 500_000, 500_001, 999_999]);
                d = d + TimeDelta::nanoseconds(if ms < 0 { -extra } else { extra });
            }
            CelValue::Duration(d)
        }
        11 | 12 => CelValue::from_err(match rng.below(11) {
            0 => CelError::misc(&rand_string(rng)),
            1 => CelError::value(&rand_string(rng)),
            2 => CelError::argument(&rand_string(rng)),
            3 => CelError::invalid_op(&rand_string(rng)),
            4 => CelError::runtime(&rand_string(rng)),
            5 => CelError::internal(&rand_string(rng)),
            6 => CelError::binding(&rand_string(rng)),
            7 => CelError::attribute(&rand_string(rng), &rand_string(rng)),
            8 => CelError::DivideByZero,
            _ => rng.pick(&parts.syntax_errors).clone(),
        }),
        13 => CelValue::List((0..rng.below(4)).map(|_| rand_const(rng, parts, depth - 1, sub_ms_ok)).collect()),
        14 => {
            let mut m = std::collections::HashMap::new();
            for _ in 0..rng.below(5) {
                m.insert(rand_string(rng), rand_const(rng, parts, depth - 1, sub_ms_ok));
            }
            CelValue::Map(m)
        }
        _ => {
            let n = rng.below(4);
            let code: Vec<ByteCode> = (0..n).map(|_| rand_instr(rng, parts, depth - 1, sub_ms_ok)).collect();
            CelValue::ByteCode(code.into())
        }
    }
}

fn rand_instr(rng: &mut Rng, parts: &Parts, depth: u32, sub_ms_ok: bool) -> ByteCode {
    use ByteCode::*;
    let d32 = |rng: &mut Rng| -> i32 {
        let r = rng.next_u64() as i32;
        *rng.pick(&[0i32, 1, -1, i32::MAX, i32::MIN, 255, 256, 65536, -65536, r])
    };
    let u32v = |rng: &mut Rng| -> u32 {
        let r = rng.next_u64() as u32;
        *rng.pick(&[0u32, 1, u32::MAX, 255, 256, 1 << 31, r])
    };
    match rng.below(30) {
        0 | 28 | 29 => Push(rand_const(rng, parts, depth, sub_ms_ok)),
        1 => Pop, 2 => Test, 3 => Dup, 4 => Or, 5 => And, 6 => Not, 7 => Neg, 8 => Add, 9 => Sub, 10 => Mul, 11 => Div, 12 => Mod,
        13 => Lt, 14 => Le, 15 => Eq, 16 => Ne, 17 => Ge, 18 => Gt, 19 => In,
        20 => Jmp(d32(rng)),
        21 => {
            let d = d32(rng);
            with_dist(if rng.chance(1, 2) { &parts.jmp_true } else { &parts.jmp_false }, d)
        }
        22 => MkList(u32v(rng)),
        23 => MkDict(u32v(rng)),
        24 => Index,
        25 => Access,
        26 => Call(u32v(rng)),
        _ => FmtString(u32v(rng)),
    }
}

/// `[Jmp over] <every kind of instruction, never executed> <k constants> MkList k`
fn constructed(rng: &mut Rng, parts: &Parts, sub_ms_ok: bool) -> Program {
    let mut code: Vec<ByteCode> = Vec::new();
    let soup = rng.below(10);
    code.push(ByteCode::Jmp(soup as i32));
    for _ in 0..soup {
        code.push(rand_instr(rng, parts, 2, sub_ms_ok));
    }
    let kk = 1 + rng.below(5);
    for _ in 0..kk {
        code.push(ByteCode::Push(rand_const(rng, parts, 3, sub_ms_ok)));
    }
    code.push(ByteCode::MkList(kk as u32));
    let mut details = ProgramDetails::new();
    if rng.chance(3, 4) {
        details.add_source(rand_string(rng));
    }
    for _ in 0..rng.below(4) {
        details.add_param(&rand_string(rng));
    }
    Program::new(details, code.into())
}

// ---------------------------------------------------------------------------------------------
// the three routes

#[derive(Clone, Copy, PartialEq)]
enum Route {
    JsonText,
    JsonValue,
    Bincode,
}

impl Route {
    fn name(self) -> &'static str {
        match self {
            Route::JsonText => "json-text",
            Route::JsonValue => "json-value",
            Route::Bincode => "bincode",
        }
    }
}

enum Ser {
    Text(String),
    Tree(Value),
    Bytes(Vec<u8>),
}

fn ser(p: &Program, r: Route) -> Result<Ser, String> {
    let mut out: Option<Result<Ser, String>> = None;
    let obs = {
        let out = &mut out;
        guarded(move || {
            *out = Some(match r {
                Route::JsonText => serde_json::to_string(p).map(Ser::Text).map_err(|e| e.to_string()),
                Route::JsonValue => serde_json::to_value(p).map(Ser::Tree).map_err(|e| e.to_string()),
                Route::Bincode => bincode::serialize(p).map(Ser::Bytes).map_err(|e| e.to_string()),
            });
            "ok".to_string()
        })
    };
    match out {
        Some(r) => r,
        None => Err(format!("panic ({})", obs)),
    }
}

fn de(s: &Ser) -> Result<Program, String> {
    let mut out: Option<Result<Program, String>> = None;
    let obs = {
        let out = &mut out;
        guarded(move || {
            *out = Some(match s {
                Ser::Text(t) => serde_json::from_str::<Program>(t).map_err(|e| e.to_string()),
                Ser::Tree(v) => serde_json::from_value::<Program>(v.clone()).map_err(|e| e.to_string()),
                Ser::Bytes(b) => bincode::deserialize::<Program>(b).map_err(|e| e.to_string()),
            });
            "ok".to_string()
        })
    };
    match out {
        Some(r) => r,
        None => Err(format!("panic ({})", obs)),
    }
}

/// The real JSON tree in the form the model prints: doubles as {"$f": bits}, parameters sorted.
fn canon_tree(v: &Value) -> Value {
    fn floats(v: &Value) -> Value {
        match v {
            Value::Number(n) if n.is_f64() => json!({"$f": format!("{:016x}", n.as_f64().unwrap().to_bits())}),
            Value::Array(a) => Value::Array(a.iter().map(floats).collect()),
            Value::Object(m) => Value::Object(m.iter().map(|(k, x)| (k.clone(), floats(x))).collect()),
            other => other.clone(),
        }
    }
    let mut v = floats(v);
    if let Some(Value::Array(ps)) = v.get_mut("details").and_then(|d| d.get_mut("params")) {
        ps.sort_by(|a, b| a.as_str().unwrap_or("").cmp(b.as_str().unwrap_or("")));
    }
    v
}

fn sorted(mut b: Vec<u8>) -> Vec<u8> {
    b.sort();
    b
}

fn clip(s: &str) -> String {
    if s.len() > 600 {
        let mut e = 600;
        while !s.is_char_boundary(e) {
            e -= 1;
        }
        format!("{}…", &s[..e])
    } else {
        s.to_string()
    }
}

struct Origin {
    tag: &'static str,
    label: String,
}

/// Everything the property says about one program.
fn check_program(rep: &mut Report, pending: &mut Vec<Pending>, p: &Program, origin: &Origin, variant: u64, totals: &mut BTreeMap<String, BTreeSet<&'static str>>) {
    let cen = census(p);
    for (kind, names) in [("value", &cen.values), ("instr", &cen.instrs), ("err", &cen.errs)] {
        for (n, c) in names.iter() {
            *rep.dist.entry(format!("{}.{}:{}", origin.tag, kind, n)).or_insert(0) += *c;
            totals.entry(format!("{}.{}", origin.tag, kind)).or_default().insert(n);
            totals.entry(format!("any.{}", kind)).or_default().insert(n);
        }
    }
    rep.bump(&format!("{}.nesting_depth:{}", origin.tag, cen.max_depth.min(6)));
    if cen.sub_ms {
        rep.bump(&format!("{}.sub_millisecond_time_constant", origin.tag));
    }
    if cen.nan {
        rep.bump(&format!("{}.holds_nan", origin.tag));
    }
    if cen.multi_entry {
        rep.bump(&format!("{}.map_or_params_with_several_entries", origin.tag));
    }
    if cen.values.contains_key("unserialisable") {
        rep.bump("holds a Dyn/Message/Enum constant");
    }
    let input = format!("{} [{}]", origin.label, origin.tag);
    let exact = Form { sort: true, nan: false };
    let json_form = Form { sort: true, nan: true };
    let wire_raw = rich_prog(p, Form { sort: false, nan: false });
    let users = vec![("tick".to_string(), UserFn::Arg0)];
    let bind_sets: Vec<Vec<(String, CelValue)>> = vec![std_bindings(variant), std_bindings(variant + 1), Vec::new()];
    let run = |q: &Program, b: &Vec<(String, CelValue)>| -> String {
        let o = exec_full(&[("main".to_string(), q.clone())], "main", b, &users);
        format!("{} {}", o.obs, o.log)
    };
    let originals: Vec<String> = bind_sets.iter().map(|b| run(p, b)).collect();
    if originals.iter().any(|o| o.starts_with("P ")) {
        rep.bump("original panicked (outside this property)");
    }
    rep.bump(&format!(
        "outcome:{}",
        if originals[0].starts_with("e:") { originals[0].split(' ').next().unwrap_or("e").to_string() } else if originals[0].starts_with("P ") { "panic".into() } else { "value".into() }
    ));
    let mut p_src_params: (Option<String>, Vec<String>) = (p.source().map(|s| s.to_string()), p.params().iter().map(|s| s.to_string()).collect());
    p_src_params.1.sort();
    for route in [Route::JsonText, Route::JsonValue, Route::Bincode] {
        let rn = route.name();
        rep.count(Some(&format!("{}|{}|{}", wire_raw, rn, variant)));
        let s = match ser(p, route) {
            Ok(s) => s,
            Err(e) => {
                rep.oracle_fail(&input, &format!("{} serialisation failed: {}", rn, e), "serialisation succeeds", "serialization never fails for a program the compiler produced");
                continue;
            }
        };
        // model tie, encoder side
        match &s {
            Ser::Bytes(b) => pending.push(Pending { request: format!("serbin {}", wire_raw), implementation: hex(b), level: 9, input: format!("bincode bytes of {}", input) }),
            // objects are compared unordered, the parameter array sorted on both sides
            Ser::Tree(t) => pending.push(Pending { request: format!("serjson {}", rich_prog(p, exact)), implementation: canon_tree(t).to_string(), level: 4, input: format!("JSON tree of {}", input) }),
            Ser::Text(_) => {}
        }
        let q = match de(&s) {
            Ok(q) => q,
            Err(e) => {
                rep.oracle_fail(&input, &format!("{} deserialisation failed: {}", rn, e), "the program is read back", &format!("a serialised program must be readable ({})", clip(&wire_raw)));
                continue;
            }
        };
        // (a) source and parameters
        let mut q_src_params: (Option<String>, Vec<String>) = (q.source().map(|s| s.to_string()), q.params().iter().map(|s| s.to_string()).collect());
        q_src_params.1.sort();
        if q_src_params != p_src_params {
            rep.oracle_fail(&input, &format!("{}: source/params {:?}", rn, q_src_params), &format!("{:?}", p_src_params), "the program read back reports another source or other parameters");
        }
        // (b) bytecode
        let form = if route == Route::Bincode { exact } else { json_form };
        if !cen.sub_ms {
            let (a, b) = (rich_prog(p, form), rich_prog(&q, form));
            if a != b {
                rep.oracle_fail(&input, &format!("{}: {}", rn, clip(&b)), &clip(&a), "the program read back holds other bytecode");
            }
            // (c) behaviour
            for (bi, b) in bind_sets.iter().enumerate() {
                let got = run(&q, b);
                if got != originals[bi] {
                    rep.oracle_fail(&input, &format!("{} bindings#{}: {}", rn, bi, clip(&got)), &clip(&originals[bi]), "the program read back evaluates differently");
                }
            }
        }
        // serialise what was read back: the same form again
        match (ser(&q, route), &s) {
            (Ok(Ser::Bytes(b2)), Ser::Bytes(b1)) => {
                let same = if cen.multi_entry { sorted(b2.clone()) == sorted(b1.clone()) } else { &b2 == b1 };
                if !same {
                    rep.oracle_fail(&input, &format!("{}: second serialisation {}", rn, clip(&hex(&b2))), &clip(&hex(b1)), "serialising the program read back gives other bytes");
                }
            }
            (Ok(Ser::Tree(t2)), Ser::Tree(t1)) => {
                if canon_tree(&t2) != canon_tree(t1) {
                    rep.oracle_fail(&input, &format!("{}: second serialisation {}", rn, clip(&t2.to_string())), &clip(&t1.to_string()), "serialising the program read back gives another tree");
                }
            }
            (Ok(Ser::Text(t2)), Ser::Text(t1)) => {
                let parse = |t: &str| serde_json::from_str::<Value>(t).map(|v| canon_tree(&v)).ok();
                if parse(&t2).is_none() || parse(&t2) != parse(t1) {
                    rep.oracle_fail(&input, &format!("{}: second serialisation {}", rn, clip(&t2)), &clip(t1), "serialising the program read back gives another document");
                }
            }
            (Err(e), _) => rep.oracle_fail(&input, &format!("{}: second serialisation failed: {}", rn, e), "serialisation succeeds", "the program read back cannot be serialised"),
            _ => {}
        }
        // model tie
        match &s {
            Ser::Bytes(b) => {
                pending.push(Pending { request: format!("rtbin {}", wire_raw), implementation: rich_prog(&q, exact), level: 9, input: format!("bincode round trip of {}", input) });
                // truncated streams are rejected, never read as another program
                let cut = (variant as usize * 7919 + b.len() / 2) % b.len();
                if let Ok(other) = de(&Ser::Bytes(b[..cut].to_vec())) {
                    rep.oracle_fail(&input, &format!("a {}-byte prefix of the {} bytes reads as {}", cut, b.len(), clip(&rich_prog(&other, exact))), "error", "a truncated stream yields a program silently");
                }
                rep.bump("bincode.truncated_stream_rejected");
            }
            Ser::Tree(_) => {
                pending.push(Pending { request: format!("rtjson {}", wire_raw), implementation: rich_prog(&q, exact), level: 9, input: format!("JSON round trip of {}", input) });
            }
            Ser::Text(t) => {
                // the text and the tree are the same document
                if let (Ok(v), Ok(w)) = (serde_json::from_str::<Value>(t), serde_json::to_value(p)) {
                    if canon_tree(&v) != canon_tree(&w) {
                        rep.oracle_fail(&input, &clip(t), &clip(&w.to_string()), "to_string and to_value disagree");
                    }
                }
            }
        }
    }
}

/// Ask the model in batches (the requests carry whole programs).
fn flush(rep: &mut Report, pending: &mut Vec<Pending>, opts: &Opts, at: usize) {
    if pending.len() >= at {
        rep.compare_with_model(&opts.driver, pending);
        pending.clear();
    }
}

pub fn run(opts: &Opts) -> Report {
    let mut rep = Report::new(
        "C19",
        "programs compiled from constant-rich sources (extreme ints/uints, doubles from random bit patterns, non-finite, -0.0, strings, non-UTF-8 bytes, nested lists and maps, types, \
         durations, folded error constants) in every context (calls, macros, f-strings, match, ternary, operators), general generated programs, and programs assembled through Program::new \
         (time stamps, every error kind, every instruction with extreme operands, nested blocks); × serde_json text / serde_json::Value / bincode; per route: serialise, read back, compare \
         source, parameters, bytecode, evaluation under 3 binding sets with call log, serialise again; model tie: bytes, tree and round-trip result; \
         non-trivial = program serialised, distinct by program dump + route + bindings variant",
    );
    let mut pending: Vec<Pending> = Vec::new();
    let mut totals: BTreeMap<String, BTreeSet<&'static str>> = BTreeMap::new();
    let mut rng = Rng::new(opts.seed ^ 0xC19);
    let n_src = if opts.thorough { 150_000 } else { 16_000 };
    let n_con = if opts.thorough { 60_000 } else { 6_000 };
    // hand-written: one of each
    let fixed = [
        "1/0", "1.0/0.0", "(0.0 - 1.0)/0.0", "0.0/0.0", "0.0 * (0.0 - 1.0)", "[1][5]", "1 + 'a'", "-9223372036854775808", "18446744073709551615u", "9223372036854775807",
        "b'\\xff\\x00'", "{'a': 1, 'b': [1, 2.5, {'c': null}]}", "type(1)", "duration('1h') + duration('1ms')", "duration('1500us')", "duration('1ns')",
        "[1, 2].map(v, v + 1)", "f'a{1}b{x}'", "x.foo(1, [2])", "match x { case int: 1, case > 2: 1.5, case _: 'a' }", "has(m.a) ? coalesce(n, 1) : [1/0]",
        "0.1 + 0.2", "5e-324", "1.7976931348623157e308", "double('-0.0')", "[1/0, 1 % 0, {'k': [1][9]}]", "4 + 7 * 2", "x", "", "tick(1) + tick(2)", "a || b && c ? d : e",
        "{'a': 1}['b']", "timestamp(0) + duration('1s')", "[x, y].map(v, v * 2).filter(v, v > 2)", "\"\\\"quoted\\\" 'x'\"", "'\u{1F600}'", "{'': '', 'é': 'é'}",
    ];
    for (i, src) in fixed.iter().enumerate() {
        match compile(src) {
            Ok(p) => check_program(&mut rep, &mut pending, &p, &Origin { tag: "compiled", label: src.to_string() }, i as u64 % 6, &mut totals),
            Err(_) => rep.bump("compile:rejected"),
        }
    }
    // the deepest nesting the parser accepts (31 levels) and the levels just below it, for every nesting construct
    for k in [8usize, 24, 28, 29, 30, 31] {
        for (open, close) in [("int(", ")"), ("size(", ")"), ("[1].map(v, ", ")"), ("[", "]"), ("(", ")"), ("{'a': ", "}"), ("x.f(", ")"), ("[x][", "]"), ("has(", ")")] {
            let src = format!("{}x{}", open.repeat(k), close.repeat(k));
            match compile(&src) {
                Ok(p) => check_program(&mut rep, &mut pending, &p, &Origin { tag: "compiled", label: format!("nesting {} levels of `{}..{}`: {}", k, open, close, src) }, k as u64 % 6, &mut totals),
                Err(_) => rep.bump("compile:rejected"),
            }
        }
    }
    for i in 0..n_src {
        let src = source(&mut rng, i);
        match compile(&src) {
            Ok(p) => {
                if i < 4 {
                    rep.sample(json!({"src": src, "bytecode": p.dumps_bc().replace('\n', " ; "), "json": serde_json::to_string(&p).unwrap_or_default()}));
                }
                check_program(&mut rep, &mut pending, &p, &Origin { tag: "compiled", label: src }, (i % 6) as u64, &mut totals);
                flush(&mut rep, &mut pending, opts, 12_000);
            }
            Err(e) => {
                rep.count(None);
                rep.bump(&format!("compile:{}", if e == "P" { "panic" } else { "rejected" }));
            }
        }
    }
    let parts = parts();
    for i in 0..n_con {
        let p = constructed(&mut rng, &parts, true);
        let label = format!("Program::new {}", clip(&rich_prog(&p, Form { sort: true, nan: false })));
        if i < 2 {
            rep.sample(json!({"constructed": p.dumps_bc().replace('\n', " ; "), "json": serde_json::to_string(&p).unwrap_or_default()}));
        }
        check_program(&mut rep, &mut pending, &p, &Origin { tag: "constructed", label }, (i % 6) as u64, &mut totals);
        flush(&mut rep, &mut pending, opts, 12_000);
    }
    // malformed streams: arbitrary bytes / byte flips are rejected or read as some program, never a panic
    let seeds: Vec<Vec<u8>> = fixed.iter().filter_map(|s| compile(s).ok()).filter_map(|p| bincode::serialize(&p).ok()).collect();
    let m = if opts.thorough { 40_000 } else { 4_000 };
    for _ in 0..m {
        let mut b = rng.pick(&seeds).clone();
        match rng.below(3) {
            0 => {
                let at = rng.below(b.len());
                b[at] ^= 1 << rng.below(8);
            }
            1 => {
                let at = rng.below(b.len());
                b[at] = *rng.pick(&[0u8, 1, 2, 14, 15, 16, 17, 18, 27, 28, 255]);
            }
            _ => {
                let n = rng.below(b.len());
                b.truncate(n);
            }
        }
        let r = de(&Ser::Bytes(b.clone()));
        rep.count(None);
        match r {
            Ok(_) => rep.bump("malformed_bincode:some_program"),
            Err(e) if e.starts_with("panic") => {
                rep.bump("malformed_bincode:panic");
                rep.oracle_fail(&format!("bincode bytes {}", hex(&b)), "P", "error or program", "deserialisation panicked on a malformed stream");
            }
            Err(_) => rep.bump("malformed_bincode:rejected"),
        }
    }
    rep.compare_with_model(&opts.driver, &pending);
    // coverage actually reached
    let missing = |have: Option<&BTreeSet<&'static str>>, all: &[&'static str]| -> Vec<&'static str> {
        all.iter().filter(|n| !have.map(|h| h.contains(*n)).unwrap_or(false)).cloned().collect()
    };
    for (key, all) in [("value", &VALUE_VARIANTS[..]), ("instr", &INSTR_VARIANTS[..]), ("err", &ERR_KINDS[..])] {
        let any = missing(totals.get(&format!("any.{}", key)), all);
        let compiled = missing(totals.get(&format!("compiled.{}", key)), all);
        rep.notes.push(format!("{} variants never produced by the compiler in this run (reached only through Program::new): {:?}", key, compiled));
        if !any.is_empty() && rep.model_error.is_none() {
            rep.model_error = Some(format!("generator coverage lost: {} variants {:?} never occurred in a serialised program", key, any));
        }
    }
    rep.notes.push(
        "the python and wasm bindings (python/src/py_cel_program.rs, wasm/src/cel_program.rs) serialise with the same serde_json / bincode calls on the same Program type: same code path".to_string(),
    );
    rep
}
