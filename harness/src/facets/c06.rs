//! C06 — collections: literals, indexing (incl. negative), membership, concatenation, size.
//! Oracle: the generator knows the elements it rendered, so the expected element / membership / size is
//! computed here from the generating list, independently of the Lean model.
use crate::api::{env_wire, exec_src, literal};
use crate::pool;
use crate::report::{Pending, Report};
use crate::rng::Rng;
use crate::wire::{hex, show_val};
use crate::Opts;
use rscel::CelValue;
use std::collections::HashMap;

fn elems() -> Vec<CelValue> {
    vec![
        CelValue::Int(0),
        CelValue::Int(7),
        CelValue::Int(-1),
        CelValue::UInt(7),
        CelValue::Float(1.5),
        CelValue::Bool(true),
        CelValue::String("a".into()),
        CelValue::String("é𝄞".into()),
        CelValue::String("".into()),
        CelValue::from_bytes(vec![0, 255]),
        CelValue::Null,
        CelValue::List(vec![]),
        CelValue::List(vec![CelValue::Int(1), CelValue::String("x".into())]),
        pool::map_of(&[("k", CelValue::Int(3))]),
        CelValue::Int(7), // duplicate on purpose
    ]
}

/// model pipeline (lexer, parser, folding compiler, VM) vs the real one on the same source + bindings
fn queue_exec(pending: &mut Vec<Pending>, src: &str, binds: &[(String, CelValue)], real: &str, level: u8) {
    pending.push(Pending {
        request: format!("exec {} {}", env_wire(&[], binds, &[]), hex(src.as_bytes())),
        implementation: format!("{} L:0", real),
        level,
        input: format!("{} with {:?}", src, binds.iter().map(|(k, v)| format!("{}={}", k, show_val(v))).collect::<Vec<_>>()),
    });
}

fn real_exec(src: &str, binds: &[(String, CelValue)]) -> String {
    exec_src(src, binds)
}

struct Ctx<'a> {
    rep: &'a mut Report,
    pending: &'a mut Vec<Pending>,
}

impl<'a> Ctx<'a> {
    /// Evaluate `src` under `binds`; check against `expected` (Some(value wire) / Some("E") / Some("e:kind") / None).
    fn case(&mut self, tag: &str, src: &str, binds: &[(String, CelValue)], expected: Option<String>, why: &str) -> String {
        let real = real_exec(src, binds);
        let key = format!("{}|{}|{:?}", tag, src, binds.iter().map(|(_, v)| show_val(v)).collect::<Vec<_>>());
        self.rep.count(Some(&key));
        self.rep.bump(&format!("{}:{}", tag, if real == "P" { "panic" } else if real.starts_with("e:") { real.as_str() } else { "value" }));
        if real == "P" {
            self.rep.oracle_fail(src, "P", "value or error", "evaluation panicked");
        }
        if let Some(exp) = expected {
            let ok = if exp == "E" { real.starts_with("e:") } else { real == exp };
            if !ok {
                let inp = format!("{}  [{}]", src, binds.iter().map(|(k, v)| format!("{}={}", k, show_val(v))).collect::<Vec<_>>().join(", "));
                self.rep.oracle_fail(&inp, &real, &exp, why);
            }
        }
        queue_exec(self.pending, src, binds, &real, 3);
        real
    }
}

fn b(k: &str, v: &CelValue) -> (String, CelValue) {
    (k.to_string(), v.clone())
}

fn int_indices(n: usize) -> Vec<i64> {
    let n = n as i64;
    let mut v: Vec<i64> = (-n - 2..=n + 2).collect();
    v.extend([i64::MAX, i64::MIN, i64::MIN + 1, 1 << 31, -(1 << 31), 1 << 32, -(1i64 << 32) - 1]);
    v
}

fn uint_indices(n: usize) -> Vec<u64> {
    let mut v: Vec<u64> = (0..=n as u64 + 2).collect();
    v.extend([u64::MAX, 1 << 63, (1 << 63) - 1, 1 << 32]);
    v
}

pub fn run(opts: &Opts) -> Report {
    let mut rep = Report::new(
        "C06",
        "lists of length 0..5 over a 15-value element pool (every type, nested, duplicates) x every int index in [-n-2,n+2] + extremes, uint indices, non-integer indices, \
         in bound and literal form; maps from entry lists with duplicate / absent keys (literal, bound-value and mixed forms) x m[k], m.k, k in m; membership, substring, \
         concatenation and size; non-trivial = distinct (form, source, bindings)",
    );
    let mut pending: Vec<Pending> = Vec::new();
    let mut rng = Rng::new(opts.seed ^ 0xC06);
    let pool_e = elems();
    let n_lists = if opts.thorough { 400 } else { 60 };
    let mut lists: Vec<Vec<CelValue>> = vec![vec![], vec![pool_e[1].clone()], pool_e[..5].to_vec(), pool_e[5..10].to_vec(), pool_e[10..15].to_vec()];
    for _ in 0..n_lists {
        let n = rng.below(6);
        lists.push((0..n).map(|_| rng.pick(&pool_e).clone()).collect());
    }
    {
        let mut cx = Ctx { rep: &mut rep, pending: &mut pending };
        // ---- list indexing
        for l in lists.iter() {
            let lv = CelValue::List(l.clone());
            let n = l.len();
            let lit_l = literal(&lv);
            for i in int_indices(n) {
                let exp = if i >= 0 && (i as u128) < n as u128 {
                    show_val(&l[i as usize])
                } else if i < 0 && (-(i as i128)) as u128 <= n as u128 {
                    show_val(&l[(n as i128 + i as i128) as usize])
                } else {
                    "E".to_string()
                };
                cx.case("index-int-bound", "l[i]", &[b("l", &lv), b("i", &CelValue::Int(i))], Some(exp.clone()), "l[i] is not the element the property names");
                if let (Some(ll), Some(il)) = (&lit_l, literal(&CelValue::Int(i))) {
                    cx.case("index-int-literal", &format!("{}[{}]", ll, il), &[], Some(exp.clone()), "literal l[i] is not the element the property names");
                    cx.case("index-int-mixed", &format!("{}[i]", ll), &[b("i", &CelValue::Int(i))], Some(exp.clone()), "literal list, bound index");
                }
            }
            for u in uint_indices(n) {
                let exp = if (u as u128) < n as u128 { show_val(&l[u as usize]) } else { "E".to_string() };
                cx.case("index-uint-bound", "l[i]", &[b("l", &lv), b("i", &CelValue::UInt(u))], Some(exp.clone()), "l[u] is not the u-th element");
                if let Some(ll) = &lit_l {
                    cx.case("index-uint-literal", &format!("{}[{}u]", ll, u), &[], Some(exp), "literal l[u]");
                }
            }
            for bad in [CelValue::Float(0.0), CelValue::String("0".into()), CelValue::Bool(false), CelValue::Null, CelValue::List(vec![CelValue::Int(0)])] {
                cx.case("index-nonint", "l[i]", &[b("l", &lv), b("i", &bad)], Some("E".into()), "a non-integer list index must be an error");
            }
            // size, concatenation with every other list of the first few
            cx.case("size-list", "size(l)", &[b("l", &lv)], Some(format!("u:{}", n)), "size of a list is its element count");
            cx.case("size-list-m", "l.size()", &[b("l", &lv)], Some(format!("u:{}", n)), "size of a list is its element count");
            if let Some(ll) = &lit_l {
                cx.case("size-list-lit", &format!("size({})", ll), &[], Some(format!("u:{}", n)), "size of a literal list");
                // literal contains exactly its evaluated elements, in order
                cx.case("list-literal", ll, &[], Some(show_val(&lv)), "a list literal must contain exactly its elements in order");
            }
            // list built from bound elements (MKLIST at run time) and from a mix
            if n > 0 && n <= 5 {
                let names = ["a0", "a1", "a2", "a3", "a4"];
                let binds: Vec<(String, CelValue)> = l.iter().enumerate().map(|(i, v)| b(names[i], v)).collect();
                let src = format!("[{}]", names[..n].join(", "));
                cx.case("list-bound-elems", &src, &binds, Some(show_val(&lv)), "a list of bound elements must keep them in order");
                let mixed: Vec<String> = l.iter().enumerate().map(|(i, v)| if i % 2 == 0 { names[i].to_string() } else { literal(v).unwrap_or(names[i].to_string()) }).collect();
                cx.case("list-mixed-elems", &format!("[{}]", mixed.join(", ")), &binds, Some(show_val(&lv)), "a list of mixed literal/bound elements must keep them in order");
            }
            for x in pool_e.iter().take(11) {
                // membership: decided by the oracle only where language equality is unambiguous (same-variant scalars / null)
                let scalar = matches!(x, CelValue::Int(_) | CelValue::UInt(_) | CelValue::Bool(_) | CelValue::String(_) | CelValue::Bytes(_) | CelValue::Null);
                let exp = if scalar {
                    let hit = l.iter().any(|y| show_val(y) == show_val(x));
                    let cross = l.iter().any(|y| {
                        matches!((x, y), (CelValue::Int(_), CelValue::UInt(_)) | (CelValue::UInt(_), CelValue::Int(_)) | (CelValue::Int(_), CelValue::Float(_)) | (CelValue::UInt(_), CelValue::Float(_)) | (CelValue::Bool(_), CelValue::Int(_)) | (CelValue::Bool(_), CelValue::UInt(_)) | (CelValue::Int(_), CelValue::Bool(_)) | (CelValue::UInt(_), CelValue::Bool(_)) | (CelValue::Bool(_), CelValue::Float(_)))
                    });
                    if hit { Some("b:1".to_string()) } else if cross { None } else { Some("b:0".to_string()) }
                } else {
                    None
                };
                cx.case("in-list", "x in l", &[b("x", x), b("l", &lv)], exp.clone(), "x in l must test list membership");
                if let (Some(xl), Some(ll)) = (literal(x), &lit_l) {
                    cx.case("in-list-literal", &format!("{} in {}", xl, ll), &[], exp, "literal x in l must test list membership");
                }
            }
        }
        // membership among doubles follows the language's `==` (IEEE: -0.0 == 0.0, NaN != NaN), not the bit pattern
        let fl = [0.0f64, -0.0, f64::NAN, 1.5, f64::INFINITY, -1.5];
        for x in fl {
            for y in fl {
                for z in [None, Some(7.25f64), Some(f64::NAN)] {
                    let mut l = vec![CelValue::Float(y)];
                    if let Some(z) = z {
                        l.insert(0, CelValue::Float(z));
                    }
                    let hit = l.iter().any(|v| matches!(v, CelValue::Float(f) if *f == x));
                    let lv = CelValue::List(l);
                    let exp = Some(if hit { "b:1".to_string() } else { "b:0".to_string() });
                    cx.case("in-list-double", "x in l", &[b("x", &CelValue::Float(x)), b("l", &lv)], exp.clone(), "x in l among doubles must agree with ==");
                    cx.case("in-list-double-eq", "(x in [y]) == (x == y)", &[b("x", &CelValue::Float(x)), b("y", &CelValue::Float(y))], Some("b:1".into()), "membership in a singleton is equality");
                    if let (Some(xl), Some(ll)) = (literal(&CelValue::Float(x)), literal(&lv)) {
                        cx.case("in-list-double-literal", &format!("{} in {}", xl, ll), &[], exp, "literal x in l among doubles must agree with ==");
                    }
                }
            }
        }
        for (i, l1v) in lists.iter().enumerate().take(if opts.thorough { 40 } else { 14 }) {
            for l2v in lists.iter().skip(i % 3).step_by(3).take(12) {
                let mut cat = l1v.clone();
                cat.extend(l2v.iter().cloned());
                let (a, c) = (CelValue::List(l1v.clone()), CelValue::List(l2v.clone()));
                cx.case("concat-list", "p + q", &[b("p", &a), b("q", &c)], Some(show_val(&CelValue::List(cat.clone()))), "+ must concatenate lists preserving order");
                cx.case("concat-list-size", "size(p + q) == size(p) + size(q)", &[b("p", &a), b("q", &c)], Some("b:1".into()), "size of a concatenation");
                if let (Some(x), Some(y)) = (literal(&a), literal(&c)) {
                    cx.case("concat-list-literal", &format!("{} + {}", x, y), &[], Some(show_val(&CelValue::List(cat))), "literal list concatenation");
                }
            }
        }
        // ---- strings / bytes: concat, size, substring
        let strs = pool::strings();
        for s in strs.iter() {
            let sv = CelValue::String(s.to_string());
            cx.case("size-string", "size(s)", &[b("s", &sv)], Some(format!("u:{}", s.len())), "size of a string is its UTF-8 length");
            cx.case("size-string-m", "s.size()", &[b("s", &sv)], Some(format!("u:{}", s.len())), "size of a string is its UTF-8 length");
            if let Some(sl) = literal(&sv) {
                cx.case("size-string-lit", &format!("size({})", sl), &[], Some(format!("u:{}", s.len())), "size of a literal string");
            }
            for t in strs.iter() {
                let tv = CelValue::String(t.to_string());
                cx.case("concat-str", "s + t", &[b("s", &sv), b("t", &tv)], Some(show_val(&CelValue::String(format!("{}{}", s, t)))), "+ must concatenate strings");
                cx.case("in-str", "t in s", &[b("s", &sv), b("t", &tv)], Some(if s.contains(t) { "b:1".into() } else { "b:0".into() }), "t in s must test substring containment");
                if let (Some(sl), Some(tl)) = (literal(&sv), literal(&tv)) {
                    cx.case("concat-str-lit", &format!("{} + {}", sl, tl), &[], Some(show_val(&CelValue::String(format!("{}{}", s, t)))), "literal string concatenation");
                    cx.case("in-str-lit", &format!("{} in {}", tl, sl), &[], Some(if s.contains(t) { "b:1".into() } else { "b:0".into() }), "literal substring containment");
                }
            }
        }
        let bys = pool::bytes();
        for x in bys.iter() {
            let xv = CelValue::from_bytes(x.clone());
            cx.case("size-bytes", "size(s)", &[b("s", &xv)], Some(format!("u:{}", x.len())), "size of bytes is its length");
            for y in bys.iter() {
                let mut cat = x.clone();
                cat.extend(y.iter());
                let yv = CelValue::from_bytes(y.clone());
                cx.case("concat-bytes", "s + t", &[b("s", &xv), b("t", &yv)], Some(show_val(&CelValue::from_bytes(cat.clone()))), "+ must concatenate bytes");
                if let (Some(xl), Some(yl)) = (literal(&xv), literal(&yv)) {
                    cx.case("concat-bytes-lit", &format!("{} + {}", xl, yl), &[], Some(show_val(&CelValue::from_bytes(cat))), "literal bytes concatenation");
                }
            }
        }
        // ---- `in` on other operand types is an error
        let all = pool::all_values();
        for r in all.iter().filter(|v| !matches!(v, CelValue::List(_) | CelValue::Map(_) | CelValue::String(_) | CelValue::Err(_))).step_by(3) {
            for x in [CelValue::Int(1), CelValue::String("a".into()), CelValue::Null] {
                cx.case("in-other", "x in r", &[b("x", &x), b("r", r)], Some("E".into()), "`in` on a non-collection right operand must be an error");
            }
        }
        for x in all.iter().filter(|v| !matches!(v, CelValue::String(_) | CelValue::Err(_))).step_by(5) {
            cx.case("in-str-nonstr", "x in r", &[b("x", x), b("r", &CelValue::String("a1".into()))], Some("E".into()), "non-string `in` string must be an error");
            cx.case("in-map-nonstr", "x in r", &[b("x", x), b("r", &pool::map_of(&[("a", CelValue::Int(1))]))], Some("E".into()), "non-string `in` map must be an error");
        }
        // ---- maps: entry lists with duplicates, last entry wins at compile time and at run time
        // some keys are also names of built-in functions, macros and types: the field must still win under `.k`
        let keys = ["a", "b", "c", "", "é", "k1", "size", "filter", "int", "string"];
        let n_maps = if opts.thorough { 600 } else { 120 };
        let mut entry_lists: Vec<Vec<(usize, CelValue)>> = vec![
            vec![],
            vec![(0, CelValue::Int(1)), (0, CelValue::Int(2))],
            vec![(0, CelValue::Int(1)), (1, CelValue::Int(2)), (0, CelValue::Int(3))],
            vec![(1, CelValue::Int(1)), (0, CelValue::Int(2)), (1, CelValue::Null), (0, CelValue::String("z".into()))],
        ];
        for _ in 0..n_maps {
            let n = rng.below(5);
            entry_lists.push((0..n).map(|_| (rng.below(keys.len()), rng.pick(&pool_e).clone())).collect());
        }
        for es in entry_lists.iter() {
            let mut expect: HashMap<String, CelValue> = HashMap::new();
            for (k, v) in es.iter() {
                expect.insert(keys[*k].to_string(), v.clone());
            }
            let mv = CelValue::Map(expect.clone());
            let names = ["v0", "v1", "v2", "v3", "v4"];
            let binds: Vec<(String, CelValue)> = es.iter().enumerate().map(|(i, (_, v))| b(names[i], v)).collect();
            let klit = |k: usize| literal(&CelValue::String(keys[k].to_string())).unwrap();
            // three spellings: all literal (folded), values bound (MKDICT at run time), keys bound too
            let all_lit = format!("{{{}}}", es.iter().map(|(k, v)| format!("{}: {}", klit(*k), literal(v).unwrap_or("null".into()))).collect::<Vec<_>>().join(", "));
            let lit_ok = es.iter().all(|(_, v)| literal(v).is_some());
            let bound_vals = format!("{{{}}}", es.iter().enumerate().map(|(i, (k, _))| format!("{}: {}", klit(*k), names[i])).collect::<Vec<_>>().join(", "));
            let knames = ["k0", "k1", "k2", "k3", "k4"];
            let mut binds_k = binds.clone();
            for (i, (k, _)) in es.iter().enumerate() {
                binds_k.push(b(knames[i], &CelValue::String(keys[*k].to_string())));
            }
            let bound_all = format!("{{{}}}", es.iter().enumerate().map(|(i, _)| format!("{}: {}", knames[i], names[i])).collect::<Vec<_>>().join(", "));
            let mixed = format!(
                "{{{}}}",
                es.iter().enumerate().map(|(i, (k, v))| if i % 2 == 0 { format!("{}: {}", klit(*k), names[i]) } else { format!("{}: {}", klit(*k), literal(v).unwrap_or(names[i].to_string())) }).collect::<Vec<_>>().join(", ")
            );
            let why = "a map literal must contain exactly its entries; for a repeated key the last entry wins (same at compile time and run time)";
            if lit_ok {
                cx.case("map-literal", &all_lit, &[], Some(show_val(&mv)), why);
            }
            cx.case("map-bound-values", &bound_vals, &binds, Some(show_val(&mv)), why);
            cx.case("map-bound-keys", &bound_all, &binds_k, Some(show_val(&mv)), why);
            cx.case("map-mixed", &mixed, &binds, Some(show_val(&mv)), why);
            for (ki, k) in keys.iter().enumerate() {
                let kv = CelValue::String(k.to_string());
                let exp_get = match expect.get(*k) {
                    Some(v) => show_val(v),
                    None => "e:attribute".to_string(),
                };
                let exp_in = if expect.contains_key(*k) { "b:1" } else { "b:0" };
                cx.case("map-index-bound", "m[k]", &[b("m", &mv), b("k", &kv)], Some(exp_get.clone()), "m[k] must be the stored value or an absent-field error");
                cx.case("map-in-bound", "k in m", &[b("m", &mv), b("k", &kv)], Some(exp_in.into()), "k in m must test key presence");
                cx.case("map-index-run", &format!("{}[{}]", bound_vals, klit(ki)), &binds, Some(exp_get.clone()), "run-time map, literal key");
                if lit_ok {
                    cx.case("map-index-literal", &format!("{}[{}]", all_lit, klit(ki)), &[], Some(exp_get.clone()), "compile-time map, literal key");
                    cx.case("map-in-literal", &format!("{} in {}", klit(ki), all_lit), &[], Some(exp_in.into()), "compile-time key presence");
                }
                if k.chars().all(|c| c.is_ascii_alphanumeric()) && !k.is_empty() {
                    // `m.size` with no field `size` names the method of that name (C12: a field wins over a method); without a
                    // call that is some error, whose kind the property does not fix
                    let exp_get = if !expect.contains_key(*k) && ["size", "filter", "int", "string"].contains(k) { "E".to_string() } else { exp_get.clone() };
                    cx.case("map-access-bound", &format!("m.{}", k), &[b("m", &mv)], Some(exp_get.clone()), "m.k must be the stored value or an absent-field error");
                    cx.case("map-access-run", &format!("{}.{}", bound_vals, k), &binds, Some(exp_get.clone()), "run-time map, field access");
                    if lit_ok {
                        cx.case("map-access-literal", &format!("{}.{}", all_lit, k), &[], Some(exp_get.clone()), "compile-time map, field access");
                    }
                }
            }
            for bad in [CelValue::Int(0), CelValue::Null, CelValue::Bool(true)] {
                cx.case("map-index-nonstr", "m[k]", &[b("m", &mv), b("k", &bad)], Some("E".into()), "a non-string map index must be an error");
            }
        }
        // index / access on non-collections
        for o in all.iter().filter(|v| !matches!(v, CelValue::List(_) | CelValue::Map(_) | CelValue::Err(_))).step_by(4) {
            cx.case("index-other", "o[0]", &[b("o", o)], Some("E".into()), "indexing a non-collection must be an error");
        }
    }
    rep.exhaustive = false;
    // dyn-wrapped operands: indexing, field access, membership, size and concatenation on wrapped containers / keys
    {
        use crate::facets::dynwrap as dw;
        let keys = vec![CelValue::Int(0), CelValue::Int(-1), CelValue::UInt(1), CelValue::Int(5), CelValue::String("k".into()), CelValue::String("size".into()), CelValue::String("zz".into()), CelValue::Float(0.0), CelValue::Null];
        // (a dyn value supports member access, equality and truthiness; size / in / + on it are errors)
        let maps: Vec<CelValue> = dw::containers().into_iter().filter(|v| matches!(v, CelValue::Map(_))).collect();
        let _ = keys;
        dw::transparency(&mut rep, "member access", &["b.k", "b.size", "b.bar", "b.filter", "b.zz", "b.k + b.k", "has(b.k)", "has(b.zz)"], &[CelValue::Null], &maps);
    }
    rep.compare_with_model(&opts.driver, &pending);
    rep
}
