//! C12 — names resolve in a fixed order; program references compose and are depth-bounded.
//!
//! Everything that can recurse (reference graphs, chains) runs in child processes of this executable
//! (`--c12-child`) on the default stack, so a stack overflow / abort / hang of the real code is observed as
//! an exit status or a timeout instead of taking the harness down.
//!
//! Oracles (model-free, from the property text):
//!  * acyclic reference graph  ⇒ the value computed by topological evaluation in the harness;
//!  * cyclic graph             ⇒ an error — never a crash (`A:`), a timeout (`T`) or a panic (`P`);
//!  * chains: correct value at least up to 16 deep, beyond the limit an error, failure is monotone in the length;
//!  * collisions: a type name resolves as in a clean context whatever parameter / program carries its name,
//!    parameter over program, program over nothing, unbound fails; call position: bound function over macro
//!    over type constructor; map field over method;
//!  * rebinding / re-adding replaces; a value bound from JSON equals the value bound directly.
//! Every case is also sent to the model (`ctx` / `json` driver commands) and compared at L1.
use crate::api::UserFn;
use crate::report::{guarded, Pending, Report};
use crate::rng::Rng;
use crate::wire::{err_kind, hex, l1, show_result, show_val};
use crate::Opts;
use rscel::{BindContext, CelContext, CelValue};
use serde_json::json;
use std::collections::HashMap;
use std::io::{BufRead, Write};
use std::process::{Command, Stdio};
use std::sync::mpsc;
use std::time::Duration;

// ---------------------------------------------------------------------------------------------
// isolated execution

/// One context to build and execute in a child: programs by source (in order), `tick` bound as a function
/// returning its first argument, no parameters.
#[derive(Clone)]
pub struct Job {
    pub progs: Vec<(String, String)>,
    pub main: String,
}

fn job_line(j: &Job) -> String {
    let mut s = hex(j.main.as_bytes());
    for (n, src) in &j.progs {
        s.push(' ');
        s.push_str(&hex(n.as_bytes()));
        s.push(' ');
        s.push_str(&hex(src.as_bytes()));
    }
    s
}

fn unhex(h: &str) -> String {
    if h == "_" {
        return String::new();
    }
    let bytes: Vec<u8> = (0..h.len() / 2).filter_map(|i| u8::from_str_radix(&h[2 * i..2 * i + 2], 16).ok()).collect();
    String::from_utf8_lossy(&bytes).to_string()
}

fn run_job_here(j: &Job) -> String {
    let j = j.clone();
    guarded(move || {
        let mut ctx = CelContext::new();
        for (n, src) in &j.progs {
            let _ = ctx.add_program_str(n, src);
        }
        let tick = |_this: CelValue, args: Vec<CelValue>| args.get(0).cloned().unwrap_or(CelValue::Null);
        let mut b = BindContext::new();
        b.bind_func("tick", &tick);
        show_result(&ctx.exec(&j.main, &b))
    })
}

/// Entry point of the child process: one job per input line, one observation per output line.
pub fn child_main() {
    let stdin = std::io::stdin();
    let stdout = std::io::stdout();
    for line in stdin.lock().lines() {
        let line = match line {
            Ok(l) => l,
            Err(_) => break,
        };
        let toks: Vec<&str> = line.split(' ').filter(|t| !t.is_empty()).collect();
        if toks.is_empty() {
            continue;
        }
        let main = unhex(toks[0]);
        let mut progs = Vec::new();
        let mut i = 1;
        while i + 1 < toks.len() {
            progs.push((unhex(toks[i]), unhex(toks[i + 1])));
            i += 2;
        }
        let obs = run_job_here(&Job { progs, main });
        let mut o = stdout.lock();
        let _ = writeln!(o, "{}", obs);
        let _ = o.flush();
    }
}

/// Run the jobs in child processes; a job that kills its child is reported `A:<status>`, one that does not
/// answer within 10 s `T`; the remaining jobs continue in a fresh child.
fn run_isolated_seq(jobs: &[Job]) -> Vec<String> {
    let mut out: Vec<String> = Vec::with_capacity(jobs.len());
    let exe = match std::env::current_exe() {
        Ok(e) => e,
        Err(_) => return jobs.iter().map(|_| "A:no-exe".to_string()).collect(),
    };
    while out.len() < jobs.len() {
        let start = out.len();
        let mut child = match Command::new(&exe).arg("--c12-child").stdin(Stdio::piped()).stdout(Stdio::piped()).stderr(Stdio::null()).spawn() {
            Ok(c) => c,
            Err(_) => {
                out.push("A:spawn".to_string());
                continue;
            }
        };
        let mut stdin = child.stdin.take().unwrap();
        let payload: String = jobs[start..].iter().map(|j| job_line(j) + "\n").collect();
        let writer = std::thread::spawn(move || {
            let _ = stdin.write_all(payload.as_bytes());
        });
        let stdout = child.stdout.take().unwrap();
        let (tx, rx) = mpsc::channel::<String>();
        let reader = std::thread::spawn(move || {
            let r = std::io::BufReader::new(stdout);
            for l in r.lines() {
                match l {
                    Ok(l) => {
                        if tx.send(l).is_err() {
                            break;
                        }
                    }
                    Err(_) => break,
                }
            }
        });
        loop {
            if out.len() == jobs.len() {
                break;
            }
            match rx.recv_timeout(Duration::from_secs(30)) {
                Ok(l) => out.push(l),
                Err(mpsc::RecvTimeoutError::Timeout) => {
                    let _ = child.kill();
                    out.push("T".to_string());
                    break;
                }
                Err(mpsc::RecvTimeoutError::Disconnected) => {
                    // the child ended before answering the next job
                    let status = child.wait().ok();
                    let desc = match status {
                        Some(st) => {
                            #[cfg(unix)]
                            {
                                use std::os::unix::process::ExitStatusExt;
                                match st.signal() {
                                    Some(sig) => format!("A:signal{}", sig),
                                    None => format!("A:exit{}", st.code().unwrap_or(-1)),
                                }
                            }
                            #[cfg(not(unix))]
                            {
                                format!("A:exit{}", st.code().unwrap_or(-1))
                            }
                        }
                        None => "A:unknown".to_string(),
                    };
                    out.push(desc);
                    break;
                }
            }
        }
        let _ = child.kill();
        let _ = child.wait();
        let _ = writer.join();
        let _ = reader.join();
    }
    out
}

fn run_isolated(jobs: &[Job], threads: usize) -> Vec<String> {
    if jobs.is_empty() {
        return Vec::new();
    }
    let chunk = ((jobs.len() + threads - 1) / threads).max(1);
    std::thread::scope(|sc| {
        let hs: Vec<_> = jobs.chunks(chunk).map(|c| sc.spawn(move || run_isolated_seq(c))).collect();
        hs.into_iter().flat_map(|h| h.join().unwrap_or_default()).collect()
    })
}

fn ctx_request(progs: &[(String, String)], binds: &[(String, CelValue)], users: &[(String, UserFn)], main: &str) -> String {
    let mut s = format!("ctx P:{}", binds.len());
    for (k, v) in binds {
        s.push_str(&format!(" {} {}", hex(k.as_bytes()), show_val(v)));
    }
    s.push_str(&format!(" S:{}", progs.len()));
    for (k, src) in progs {
        s.push_str(&format!(" {} {}", hex(k.as_bytes()), hex(src.as_bytes())));
    }
    s.push_str(&format!(" U:{}", users.len()));
    for (k, u) in users {
        s.push_str(&format!(" {} ", hex(k.as_bytes())));
        match u {
            UserFn::Arg0 => s.push_str("arg0"),
            UserFn::Const(v) => s.push_str(&format!("const {}", show_val(v))),
            UserFn::Fail => s.push_str("fail value"),
        }
    }
    s.push(' ');
    s.push_str(&hex(main.as_bytes()));
    s
}

// ---------------------------------------------------------------------------------------------
// referencing constructs

/// The constructs through which one program can reference another. Every one of them evaluates the
/// referenced program exactly once and fails when it fails.
#[derive(Clone, Copy, PartialEq, Debug)]
pub enum Site {
    Bare,
    Operand,
    CallBuiltin,
    CallCtor,
    CallUser,
    SizeList,
    MacroRange,
    MapBody,
    Map3Pred,
    Map3Body,
    FilterBody,
    AllBody,
    ExistsBody,
    ExistsOneBody,
    ReduceStep,
    ReduceSeed,
    Has,
    Coalesce,
    FString,
    Index,
    MapLit,
    MethodArg,
    MapOverMapBody,
    Map3OverMapBody,
    FilterOverMapBody,
}

pub const SITES: [Site; 25] = [
    Site::Bare,
    Site::Operand,
    Site::CallBuiltin,
    Site::CallCtor,
    Site::CallUser,
    Site::SizeList,
    Site::MacroRange,
    Site::MapBody,
    Site::Map3Pred,
    Site::Map3Body,
    Site::FilterBody,
    Site::AllBody,
    Site::ExistsBody,
    Site::ExistsOneBody,
    Site::ReduceStep,
    Site::ReduceSeed,
    Site::Has,
    Site::Coalesce,
    Site::FString,
    Site::Index,
    Site::MapLit,
    Site::MethodArg,
    Site::MapOverMapBody,
    Site::Map3OverMapBody,
    Site::FilterOverMapBody,
];

impl Site {
    /// Source text of a reference to program `p` through this construct (an int-valued expression).
    fn expr(self, p: &str) -> String {
        match self {
            Site::Bare | Site::Operand => p.to_string(),
            Site::CallBuiltin => format!("max({})", p),
            Site::CallCtor => format!("int({})", p),
            Site::CallUser => format!("tick({})", p),
            Site::SizeList => format!("int(size([{}]))", p),
            Site::MacroRange => format!("[{}].map(x, x)[0]", p),
            Site::MapBody => format!("[0].map(x, {})[0]", p),
            Site::Map3Pred => format!("[0].map(x, {} >= 0, 1)[0]", p),
            Site::Map3Body => format!("[0].map(x, true, {})[0]", p),
            Site::FilterBody => format!("([0].filter(x, {} >= 0) == [0] ? 1 : 0)", p),
            Site::AllBody => format!("([0].all(x, {} >= 0) ? 1 : 0)", p),
            Site::ExistsBody => format!("([0].exists(x, {} >= 0) ? 1 : 0)", p),
            Site::ExistsOneBody => format!("([0].exists_one(x, {} >= 0) ? 1 : 0)", p),
            Site::ReduceStep => format!("[0].reduce(a, x, a + {}, 0)", p),
            Site::ReduceSeed => format!("[0].reduce(a, x, a, {})", p),
            Site::Has => format!("(has({}) ? 1 : 0)", p),
            Site::Coalesce => format!("coalesce(null, {})", p),
            Site::FString => format!("int(f'{{{}}}')", p),
            Site::Index => format!("[{}][0]", p),
            Site::MapLit => format!("{{'k': {}}}.k", p),
            Site::MethodArg => format!("[7, 8].tick({})", p),
            // the receiver is a map: a separate code path in the macros (map_map / filter over keys)
            Site::MapOverMapBody => format!("{{'k': 0}}.map(x, {})[0]", p),
            Site::Map3OverMapBody => format!("{{'k': 0}}.map(x, true, {})[0]", p),
            Site::FilterOverMapBody => format!("({{'k': 0}}.filter(x, {} >= 0) == ['k'] ? 1 : 0)", p),
        }
    }
    /// What the reference evaluates to when the referenced program evaluates to `v` (all values are >= 0).
    fn sem(self, v: i64) -> i64 {
        match self {
            Site::SizeList | Site::Map3Pred | Site::FilterBody | Site::FilterOverMapBody | Site::AllBody | Site::ExistsBody | Site::ExistsOneBody | Site::Has => 1,
            _ => v,
        }
    }
    /// A failure of the referenced program does not fail the reference: `[p]` is a list holding a failed
    /// element and `size` counts it (lists may hold failed elements; that is C06's subject, not this one's).
    fn absorbs(self) -> bool {
        self == Site::SizeList
    }
    /// Nested levels one reference takes (the referenced program, plus argument / body blocks in between).
    fn levels(self) -> usize {
        match self {
            Site::Bare | Site::Operand | Site::Index | Site::MapLit | Site::MacroRange => 1,
            Site::FString | Site::SizeList => 3,
            _ => 2,
        }
    }
    /// References that stay in the referencing program's own block (no argument / body block in between).
    fn plain(self) -> bool {
        matches!(self, Site::Bare | Site::Operand | Site::Index | Site::MapLit | Site::MacroRange)
    }
}

fn pname(i: usize) -> String {
    format!("p{}", i)
}

const CONSTS: [i64; 4] = [1, 10, 100, 1000];

/// Adjacency as bit rows: `adj[i] & (1 << j)` = program i references program j.
/// `site_of(i, j)` picks the construct of that edge.
fn graph_job(n: usize, adj: &[u8], site_of: &dyn Fn(usize, usize) -> Site) -> Option<Job> {
    let mut progs = Vec::new();
    for i in 0..n {
        let outs: Vec<usize> = (0..n).filter(|j| adj[i] & (1 << j) != 0).collect();
        let body = if outs.len() == 1 && site_of(i, outs[0]) == Site::Bare {
            pname(outs[0])
        } else {
            let mut parts = vec![format!("{}", CONSTS[i])];
            for j in outs {
                let s = site_of(i, j);
                if s == Site::Bare {
                    return None; // a bare reference is the whole program; other shapes are the Operand site
                }
                parts.push(s.expr(&pname(j)));
            }
            parts.join(" + ")
        };
        progs.push((pname(i), body));
    }
    Some(Job { progs, main: pname(0) })
}

/// Expected value by topological evaluation; `None` when a cycle is reachable from program 0.
fn graph_expected(n: usize, adj: &[u8], site_of: &dyn Fn(usize, usize) -> Site) -> Option<i64> {
    fn go(i: usize, n: usize, adj: &[u8], site_of: &dyn Fn(usize, usize) -> Site, state: &mut Vec<u8>, memo: &mut Vec<i64>) -> Option<i64> {
        if state[i] == 1 {
            return None;
        }
        if state[i] == 2 {
            return Some(memo[i]);
        }
        state[i] = 1;
        let outs: Vec<usize> = (0..n).filter(|j| adj[i] & (1 << j) != 0).collect();
        let v = if outs.len() == 1 && site_of(i, outs[0]) == Site::Bare {
            go(outs[0], n, adj, site_of, state, memo)?
        } else {
            let mut v = CONSTS[i];
            for j in outs {
                v += site_of(i, j).sem(go(j, n, adj, site_of, state, memo)?);
            }
            v
        };
        state[i] = 2;
        memo[i] = v;
        Some(v)
    }
    go(0, n, adj, site_of, &mut vec![0; n], &mut vec![0; n])
}

/// Upper estimate of the number of program evaluations of a depth-limited evaluation (every reference is
/// followed until 32 nested levels are used up; `levels()` is how many levels one reference through the
/// construct takes).  It is exponential for a cycle with branching — a question of time, not of this property —
/// and is only used to leave such cases out.
fn eval_count(n: usize, adj: &[u8], site_of: &dyn Fn(usize, usize) -> Site) -> u64 {
    // cnt[b][i]: evaluations when program i starts with b levels left
    let mut cnt = vec![vec![1u64; n]; 33];
    for b in 1..=32usize {
        for i in 0..n {
            let mut c = 1u64;
            for j in 0..n {
                if adj[i] & (1 << j) != 0 {
                    let l = site_of(i, j).levels();
                    c = c.saturating_add(if b > l { cnt[b - l][j] } else { 1 });
                }
            }
            cnt[b][i] = c;
        }
    }
    cnt[32][0]
}

fn reachable_all(n: usize, adj: &[u8]) -> bool {
    let mut seen = 1u8;
    let mut stack = vec![0usize];
    while let Some(i) = stack.pop() {
        for j in 0..n {
            if adj[i] & (1 << j) != 0 && seen & (1 << j) == 0 {
                seen |= 1 << j;
                stack.push(j);
            }
        }
    }
    seen == (1u8 << n) - 1
}

struct IsoCase {
    job: Job,
    /// Some(v): must evaluate to int v; None: must be an error
    expect: Option<i64>,
    /// oracle strength: 0 = exact (value or must-fail), 1 = value-or-error allowed (chains beyond the guaranteed depth)
    lenient: bool,
    key: String,
    class: String,
}

fn graph_cases(opts: &Opts, rep: &mut Report) -> Vec<IsoCase> {
    let mut cases = Vec::new();
    let mut rng = Rng::new(opts.seed ^ 0xC12);
    let cap: u64 = if opts.thorough { 15_000 } else { 6_000 };
    let mut push = |rep: &mut Report, n: usize, adj: Vec<u8>, site_of: &dyn Fn(usize, usize) -> Site, tag: &str, cases: &mut Vec<IsoCase>| {
        if eval_count(n, &adj, site_of) > cap {
            rep.bump("graph:skipped-exponential-evaluation");
            return;
        }
        let job = match graph_job(n, &adj, site_of) {
            Some(j) => j,
            None => return,
        };
        let expect = graph_expected(n, &adj, site_of);
        let class = format!("graph{}:{}:{}", n, if expect.is_some() { "acyclic" } else { "cyclic" }, tag);
        let key = format!("g{}|{:?}|{}", n, job.progs, tag);
        // a cycle through a failure-absorbing construct may end in a value; then only "no crash" is demanded
        let absorbing = (0..n).any(|i| (0..n).any(|j| adj[i] & (1 << j) != 0 && site_of(i, j).absorbs()));
        let (expect, lenient) = match expect {
            None if absorbing => (Some(-1), true),
            e => (e, false),
        };
        cases.push(IsoCase { job, expect, lenient, key, class });
    };
    // all graphs on 1..3 programs x every construct (all edges through the same construct)
    for n in 1..=3usize {
        for g in 0u32..(1 << (n * n)) {
            let adj: Vec<u8> = (0..n).map(|i| ((g >> (i * n)) & ((1 << n) - 1)) as u8).collect();
            if !reachable_all(n, &adj) {
                continue; // the same evaluation as a smaller graph
            }
            for s in SITES.iter() {
                let s = *s;
                push(rep, n, adj.clone(), &move |_, _| s, &format!("{:?}", s), &mut cases);
            }
            // mixed constructs, chosen per edge
            for v in 0..2u64 {
                let salt = rng.next_u64();
                let f = move |i: usize, j: usize| {
                    let h = salt.wrapping_mul(0x9E37_79B9_7F4A_7C15).wrapping_add(((i * 7 + j) as u64 + v).wrapping_mul(0xBF58_476D_1CE4_E5B9));
                    SITES[1 + ((h >> 33) as usize % (SITES.len() - 1))]
                };
                push(rep, n, adj.clone(), &f, "mixed", &mut cases);
            }
        }
    }
    // four programs: exhaustive over the graphs in the thorough tier (one uniform construct by rotation + one
    // mixed assignment each), a random sample in the quick tier
    let total4: u32 = 1 << 16;
    let mut idx = 0usize;
    let mut do4 = |rep: &mut Report, g: u32, rng: &mut Rng, cases: &mut Vec<IsoCase>| {
        let n = 4usize;
        let adj: Vec<u8> = (0..n).map(|i| ((g >> (i * n)) & 0xF) as u8).collect();
        if !reachable_all(n, &adj) {
            return;
        }
        let s = SITES[idx % SITES.len()];
        idx += 1;
        push(rep, n, adj.clone(), &move |_, _| s, &format!("{:?}", s), cases);
        let salt = rng.next_u64();
        let f = move |i: usize, j: usize| {
            let h = salt.wrapping_mul(0x9E37_79B9_7F4A_7C15).wrapping_add(((i * 7 + j) as u64).wrapping_mul(0xBF58_476D_1CE4_E5B9));
            SITES[1 + ((h >> 33) as usize % (SITES.len() - 1))]
        };
        push(rep, n, adj, &f, "mixed", cases);
    };
    if opts.thorough {
        for g in 0..total4 {
            do4(rep, g, &mut rng, &mut cases);
        }
    } else {
        for _ in 0..2500 {
            let g = (rng.next_u64() % total4 as u64) as u32;
            // sparse graphs are the interesting ones (dense ones are skipped as exponential)
            let g = g & (rng.next_u64() as u32) & 0xFFFF;
            do4(rep, g, &mut rng, &mut cases);
        }
    }
    cases
}

fn chain_cases() -> Vec<IsoCase> {
    let mut cases = Vec::new();
    for s in SITES.iter() {
        for k in 1..=64usize {
            let mut progs = Vec::new();
            for i in 0..k {
                let r = s.expr(&pname(i + 1));
                progs.push((pname(i), if *s == Site::Bare { r } else { format!("{} + 1", r) }));
            }
            progs.push((pname(k), "0".to_string()));
            // expected value: p_k = 0, p_i = sem(p_{i+1}) + 1
            let mut v = 0i64;
            for _ in 0..k {
                v = if *s == Site::Bare { v } else { s.sem(v) + 1 };
            }
            // guaranteed by the property text: reference chains at least 16 deep; a construct that puts an
            // argument / body block between the programs is held to half of that, the exact limit is the model's
            let guaranteed = if s.plain() { k <= 16 } else { k <= 8 };
            cases.push(IsoCase {
                job: Job { progs, main: pname(0) },
                expect: Some(v),
                lenient: !guaranteed,
                key: format!("chain|{:?}|{}", s, k),
                class: format!("chain:{:?}", s),
            });
        }
    }
    // the depth edge: macros at the last level (an empty range needs no further level, a body does)
    for last in ["[].map(x, 1)", "size([].map(x, x))", "[1].map(x, 1)", "has(zz)", "coalesce()", "[].all(x, x)", "[].reduce(a, x, a, 5)", "f'a'", "max(3)"] {
        for k in 26..=34usize {
            let mut progs = Vec::new();
            for i in 0..k {
                progs.push((pname(i), pname(i + 1)));
            }
            progs.push((pname(k), last.to_string()));
            cases.push(IsoCase {
                job: Job { progs, main: pname(0) },
                expect: Some(-1), // value not predicted here: value or error, compared with the model
                lenient: true,
                key: format!("edge|{}|{}", last, k),
                class: "depth-edge".to_string(),
            });
        }
    }
    cases
}

fn run_iso(opts: &Opts, rep: &mut Report, pending: &mut Vec<Pending>, cases: Vec<IsoCase>) {
    let jobs: Vec<Job> = cases.iter().map(|c| c.job.clone()).collect();
    let obs = run_isolated(&jobs, 16);
    let users = vec![("tick".to_string(), UserFn::Arg0)];
    // failure must be monotone along a chain: remember the first failing length per construct
    let mut first_fail: HashMap<String, usize> = HashMap::new();
    for (c, o) in cases.iter().zip(obs.iter()) {
        rep.count(Some(&c.key));
        rep.bump(&c.class);
        let input = format!("{:?} exec({})", c.job.progs, c.job.main);
        let crashed = o.starts_with("A:") || o == "T" || o == "P";
        rep.bump(&format!(
            "outcome:{}",
            if crashed { o.as_str() } else if o.starts_with("e:") { "error" } else { "value" }
        ));
        if crashed {
            rep.oracle_fail(&input, o, "a value or an error", "evaluation of a reference graph crashed / hung / panicked instead of ending in an error");
            continue;
        }
        match (c.expect, c.lenient) {
            (None, _) => {
                if !o.starts_with("e:") {
                    rep.oracle_fail(&input, o, "an error (a reference cycle is reachable)", "cyclic program references must end in an error");
                }
            }
            (Some(v), false) => {
                if *o != format!("i:{}", v) {
                    rep.oracle_fail(&input, o, &format!("i:{}", v), "acyclic references compose: value by topological evaluation");
                }
            }
            (Some(v), true) => {
                if v >= 0 && !o.starts_with("e:") && *o != format!("i:{}", v) {
                    rep.oracle_fail(&input, o, &format!("i:{} or an error", v), "a deep chain yields its value or fails, never another value");
                }
            }
        }
        if c.key.starts_with("chain|") {
            let parts: Vec<&str> = c.key.split('|').collect();
            let k: usize = parts[2].parse().unwrap_or(0);
            if o.starts_with("e:") {
                first_fail.entry(parts[1].to_string()).or_insert(k);
            } else if let Some(f) = first_fail.get(parts[1]) {
                rep.oracle_fail(&input, o, "an error", &format!("a chain of {} references failed but this longer one ({}) evaluates", f, k));
            }
        }
        if rep.samples.len() < 6 && (c.class.contains("cyclic:M") || c.class.starts_with("chain:F")) {
            rep.sample(json!({"programs": c.job.progs, "exec": c.job.main, "impl": o, "class": c.class}));
        }
        pending.push(Pending {
            request: ctx_request(&c.job.progs, &[], &users, &c.job.main),
            implementation: o.clone(),
            level: 12,
            input,
        });
    }
    for (s, k) in first_fail.iter() {
        rep.notes.push(format!("chain through {} first fails at {} references", s, k));
    }
    rep.notes.sort();
    let _ = opts;
}

// ---------------------------------------------------------------------------------------------
// in-process contexts (no recursion involved)

struct Setup {
    progs: Vec<(String, String)>,
    binds: Vec<(String, CelValue)>,
    users: Vec<(String, UserFn)>,
}

fn exec_setup(s: &Setup, main: &str) -> (String, String) {
    let mut compiled = Vec::new();
    for (n, src) in &s.progs {
        if let Ok(p) = crate::api::compile(src) {
            compiled.push((n.clone(), p));
        }
    }
    let o = crate::api::exec_full(&compiled, main, &s.binds, &s.users);
    (o.obs, o.log)
}

fn queue(rep: &mut Report, pending: &mut Vec<Pending>, s: &Setup, main: &str, class: &str) -> String {
    let (obs, log) = exec_setup(s, main);
    let input = format!("programs {:?} params {:?} functions {:?} exec({})", s.progs, s.binds.iter().map(|(k, v)| format!("{}={}", k, show_val(v))).collect::<Vec<_>>(), s.users.iter().map(|u| u.0.clone()).collect::<Vec<_>>(), main);
    rep.count(Some(&input));
    rep.bump(class);
    if obs == "P" {
        rep.oracle_fail(&input, "P", "a value or an error", "evaluation panicked");
    }
    pending.push(Pending { request: ctx_request(&s.progs, &s.binds, &s.users, main), implementation: format!("{} {}", obs, log), level: 3, input });
    obs
}

const TYPE_NAMES: [&str; 12] = ["bool", "int", "uint", "float", "double", "string", "bytes", "type", "timestamp", "duration", "null_type", "dyn"];

fn ident_collisions(rep: &mut Report, pending: &mut Vec<Pending>) {
    let mut names: Vec<&str> = TYPE_NAMES.to_vec();
    names.extend_from_slice(&["v", "size", "has", "map", "tick", "now"]);
    // usage forms of the identifier `N`; `ok(N)` is what each yields when N resolves to R
    // (also as the bare argument of calls that run at run time: a user function, built-ins, a format string — the
    // argument is a block of its own, resolved by the same rule)
    let forms: [&str; 12] = ["N", "[N][0]", "[1].map(x, N)[0]", "has(N)", "coalesce(N, 3)", "N == N", "{'k': N}.k", "idf(N)", "[idf(N)][0] == N", "f'{N}'", "max(N, N)", "[7].idf(N)"];
    for name in names.iter() {
        let is_type = TYPE_NAMES.contains(name);
        for mask in 0..8u32 {
            let (as_param, as_prog, as_func) = (mask & 1 != 0, mask & 2 != 0, mask & 4 != 0);
            for form in forms.iter() {
                if as_func && ((*name == "has" && form.starts_with("has(")) || (*name == "map" && form.contains(".map(")) || (*name == "coalesce" && form.starts_with("coalesce("))) {
                    continue; // the form's own call would resolve to the bound function: that is the call-position table
                }
                let src = form.replace('N', name);
                let mk = |param: bool, prog: bool, func: bool| -> Setup {
                    let mut s = Setup { progs: vec![("main".to_string(), src.clone())], binds: vec![], users: vec![] };
                    if prog {
                        s.progs.push((name.to_string(), "7".to_string()));
                    }
                    if param {
                        s.binds.push((name.to_string(), CelValue::Int(5)));
                    }
                    if func {
                        s.users.push((name.to_string(), UserFn::Const(CelValue::Int(99))));
                    }
                    // a caller's function that returns its first argument
                    s.users.push(("idf".to_string(), UserFn::Arg0));
                    s
                };
                let s = mk(as_param, as_prog, as_func);
                let obs = queue(rep, pending, &s, "main", &format!("ident:{}:{}{}{}", if is_type { "type" } else { "plain" }, if as_param { "P" } else { "-" }, if as_prog { "G" } else { "-" }, if as_func { "F" } else { "-" }));
                let input = format!("`{}` with {} bound as:{}{}{}", src, name, if as_param { " param=5" } else { "" }, if as_prog { " program=7" } else { "" }, if as_func { " function" } else { "" });
                // the reference observation: what decides by the property text
                let reference = if is_type {
                    // a type name resolves as in a clean context
                    exec_setup(&mk(false, false, false), "main").0
                } else if as_param {
                    exec_setup(&mk(true, false, false), "main").0
                } else if as_prog {
                    exec_setup(&mk(false, true, false), "main").0
                } else {
                    exec_setup(&mk(false, false, false), "main").0
                };
                if l1(&obs) != l1(&reference) {
                    rep.oracle_fail(&input, &obs, &reference, "identifier resolution order: type, then parameter, then program; functions are not values");
                }
                // absolute expectations for the plain form
                if *form == "N" {
                    let want = if is_type {
                        None
                    } else if as_param {
                        Some("i:5".to_string())
                    } else if as_prog {
                        Some("i:7".to_string())
                    } else {
                        Some("e:binding".to_string())
                    };
                    if let Some(w) = want {
                        if obs != w {
                            rep.oracle_fail(&input, &obs, &w, "parameter over program over unbound (Binding failure)");
                        }
                    } else if !obs.starts_with("t:") {
                        rep.oracle_fail(&input, &obs, "a type value", "a built-in type name resolves to the type");
                    }
                }
                if *form == "has(N)" {
                    let resolves = is_type || as_param || as_prog;
                    let w = if resolves { "b:1" } else { "b:0" };
                    if obs != w {
                        rep.oracle_fail(&input, &obs, w, "has() of an identifier is true exactly when it resolves");
                    }
                }
            }
        }
    }
}

fn call_collisions(rep: &mut Report, pending: &mut Vec<Pending>) {
    // (callee name, call expression, expectation without a user function)
    let calls: [(&str, &str); 14] = [
        ("int", "int(s12)"),
        ("string", "string(y)"),
        ("type", "type(y)"),
        ("has", "has(y)"),
        ("has", "has(1)"),
        ("coalesce", "coalesce(nul, y)"),
        ("map", "l.map(y, y)"),
        ("filter", "l.filter(y, true)"),
        ("size", "size(s12)"),
        ("size", "s12.size()"),
        ("max", "max(y, 2)"),
        ("v", "v(y)"),
        ("sort", "l.sort()"),
        ("int", "int('12')"),
    ];
    for (name, call) in calls.iter() {
        for mask in 0..8u32 {
            let (as_param, as_prog, as_func) = (mask & 1 != 0, mask & 2 != 0, mask & 4 != 0);
            let mk = |param: bool, prog: bool, func: bool| -> Setup {
                let mut s = Setup {
                    progs: vec![("main".to_string(), call.to_string())],
                    binds: vec![
                        ("y".to_string(), CelValue::Int(5)),
                        ("s12".to_string(), CelValue::String("12".into())),
                        ("nul".to_string(), CelValue::Null),
                        ("l".to_string(), CelValue::List(vec![CelValue::Int(2), CelValue::Int(1)])),
                    ],
                    users: vec![],
                };
                if prog {
                    s.progs.push((name.to_string(), "7".to_string()));
                }
                if param {
                    s.binds.push((name.to_string(), CelValue::Int(6)));
                }
                if func {
                    s.users.push((name.to_string(), UserFn::Const(CelValue::Int(99))));
                }
                s
            };
            let s = mk(as_param, as_prog, as_func);
            let obs = queue(rep, pending, &s, "main", &format!("call:{}:{}{}{}", name, if as_param { "P" } else { "-" }, if as_prog { "G" } else { "-" }, if as_func { "F" } else { "-" }));
            let input = format!("`{}` with {} bound as:{}{}{}", call, name, if as_param { " param" } else { "" }, if as_prog { " program" } else { "" }, if as_func { " function->99" } else { "" });
            if *call == "int('12')" {
                // all-literal arguments: the compiler has already evaluated the call with the default functions
                // (constant folding, property C09 and its assumption that built-ins are not rebound)
                if obs != "i:12" && obs != "i:99" {
                    rep.oracle_fail(&input, &obs, "i:12 (folded) or i:99", "a call on literals");
                }
            } else if as_func {
                if obs != "i:99" {
                    rep.oracle_fail(&input, &obs, "i:99", "in call position a bound function wins over a macro, a type constructor and a built-in of the same name");
                }
            } else {
                // parameters and programs are not callable and do not shadow anything in call position
                let clean = exec_setup(&mk(false, false, false), "main").0;
                if l1(&obs) != l1(&clean) {
                    rep.oracle_fail(&input, &obs, &clean, "a parameter / program named like a function, macro or type does not change a call");
                }
                if *name == "v" && !obs.starts_with("e:") {
                    rep.oracle_fail(&input, &obs, "an error", "a name that is neither function, macro nor type is not callable");
                }
            }
        }
    }
    // absolute anchors (clean context)
    for (src, want) in [("int(s12)", "i:12"), ("has(y)", "b:1"), ("coalesce(nul, y)", "i:5"), ("l.map(y, y)", "l:2 i:2 i:1"), ("size(s12)", "u:2"), ("s12.size()", "u:2"), ("max(y, 2)", "i:5"), ("l.sort()", "l:2 i:1 i:2"), ("type(y) == int", "b:1")] {
        let s = Setup {
            progs: vec![("main".to_string(), src.to_string())],
            binds: vec![
                ("y".to_string(), CelValue::Int(5)),
                ("s12".to_string(), CelValue::String("12".into())),
                ("nul".to_string(), CelValue::Null),
                ("l".to_string(), CelValue::List(vec![CelValue::Int(2), CelValue::Int(1)])),
            ],
            users: vec![],
        };
        let obs = queue(rep, pending, &s, "main", "call:anchor");
        if obs != want {
            rep.oracle_fail(src, &obs, want, "built-in call in a clean context");
        }
    }
}

fn field_vs_method(rep: &mut Report, pending: &mut Vec<Pending>) {
    let names = ["size", "tick", "map", "has", "filter", "sort", "k", "int", "zz"];
    let mut full: HashMap<String, CelValue> = HashMap::new();
    for (i, n) in names.iter().enumerate() {
        if *n != "zz" {
            full.insert(n.to_string(), CelValue::Int(10 + i as i64));
        }
    }
    let mut other: HashMap<String, CelValue> = HashMap::new();
    other.insert("q".to_string(), CelValue::Int(1));
    for user_tick in [false, true] {
        for (mname, map) in [("m", &full), ("o", &other)] {
            for (i, n) in names.iter().enumerate() {
                for form in ["M.N", "M.N()", "M.N(x, x)", "has(M.N)"] {
                    let src = form.replace('M', mname).replace('N', n);
                    let mut s = Setup { progs: vec![("main".to_string(), src.clone())], binds: vec![(mname.to_string(), CelValue::Map(map.clone()))], users: vec![] };
                    if user_tick {
                        s.users.push(("tick".to_string(), UserFn::Arg0));
                    }
                    let obs = queue(rep, pending, &s, "main", &format!("field:{}:{}", if map.contains_key(*n) { "present" } else { "absent" }, form));
                    let input = format!("`{}` with {} = {}{}", src, mname, show_val(&CelValue::Map(map.clone())), if user_tick { ", tick bound" } else { "" });
                    if map.contains_key(*n) {
                        let field = format!("i:{}", 10 + i);
                        match form {
                            "M.N" => {
                                if obs != field {
                                    rep.oracle_fail(&input, &obs, &field, "a map field wins over a method of the same name");
                                }
                            }
                            "has(M.N)" => {
                                if obs != "b:1" {
                                    rep.oracle_fail(&input, &obs, "b:1", "has() of an existing field");
                                }
                            }
                            _ => {
                                // the field (an int) is what gets called: never the method
                                if !obs.starts_with("e:") {
                                    rep.oracle_fail(&input, &obs, "an error (an int is not callable)", "a map field wins over a method of the same name, also in call position");
                                }
                            }
                        }
                    } else {
                        // no such field: the method, if any
                        match (form, *n) {
                            ("M.N(x, x)", "map") => {
                                if obs != format!("l:1 s:{}", hex(b"q")) {
                                    rep.oracle_fail(&input, &obs, "['q']", "without such a field the macro is called on the map");
                                }
                            }
                            ("M.N()", "tick") if user_tick => {
                                if obs != "n" {
                                    rep.oracle_fail(&input, &obs, "null", "without such a field the bound function is called on the map");
                                }
                            }
                            ("has(M.N)", "zz") | ("has(M.N)", "k") | ("has(M.N)", "int") => {
                                if obs != "b:0" {
                                    rep.oracle_fail(&input, &obs, "b:0", "has() of a missing field");
                                }
                            }
                            ("M.N", "zz") | ("M.N", "k") | ("M.N", "int") => {
                                if !obs.starts_with("e:") {
                                    rep.oracle_fail(&input, &obs, "an error", "a missing field that is no method fails");
                                }
                            }
                            _ => {}
                        }
                    }
                }
            }
        }
    }
}

fn replacing(opts: &Opts, rep: &mut Report, pending: &mut Vec<Pending>) {
    // scripted: the latest definition is the one later executions see; a source that does not compile replaces nothing
    let scripts: Vec<(Vec<(&str, &str)>, Vec<(&str, i64)>, &str, &str)> = vec![
        (vec![("p", "1"), ("main", "p + 1"), ("p", "10")], vec![], "main", "i:11"),
        (vec![("p", "1"), ("main", "p + 1"), ("main", "p + 2")], vec![], "main", "i:3"),
        (vec![("p", "1"), ("main", "p + 1"), ("p", "1 +")], vec![], "main", "i:2"),
        (vec![("main", "v")], vec![("v", 1), ("v", 2)], "main", "i:2"),
        (vec![("main", "v"), ("v", "7")], vec![("v", 1)], "main", "i:1"),
        (vec![("main", "[1].map(x, p)[0]"), ("p", "1"), ("p", "2")], vec![], "main", "i:2"),
        (vec![("main", "size([p, p])"), ("p", "1"), ("p", "q"), ("q", "5")], vec![], "main", "u:2"),
    ];
    for (progs, binds, main, want) in scripts {
        let s = Setup { progs: progs.iter().map(|(a, b)| (a.to_string(), b.to_string())).collect(), binds: binds.iter().map(|(k, v)| (k.to_string(), CelValue::Int(*v))).collect(), users: vec![] };
        let obs = queue(rep, pending, &s, main, "replace:scripted");
        if obs != want {
            rep.oracle_fail(&format!("{:?} {:?}", s.progs, binds), &obs, want, "re-adding a program / rebinding a name replaces the old one");
        }
    }
    // bind_func twice
    {
        let s = Setup { progs: vec![("main".into(), "f(1)".into())], binds: vec![], users: vec![("f".into(), UserFn::Const(CelValue::Int(1))), ("f".into(), UserFn::Const(CelValue::Int(2)))] };
        let obs = queue(rep, pending, &s, "main", "replace:function");
        if obs != "i:2" {
            rep.oracle_fail("bind_func(f -> 1); bind_func(f -> 2); f(1)", &obs, "i:2", "rebinding a function replaces the old one");
        }
    }
    // random: definitions over three names, the harness tracks the latest
    let mut rng = Rng::new(opts.seed ^ 0x12E9);
    let n = if opts.thorough { 4000 } else { 600 };
    let names = ["a", "b", "c"];
    for _ in 0..n {
        let steps = 2 + rng.below(7);
        let mut progs: Vec<(String, String)> = Vec::new();
        let mut binds: Vec<(String, CelValue)> = Vec::new();
        let mut latest_prog: HashMap<&str, i64> = HashMap::new();
        let mut latest_bind: HashMap<&str, i64> = HashMap::new();
        for _ in 0..steps {
            let nm = names[rng.below(3)];
            let v = rng.range(0, 50);
            match rng.below(5) {
                0 | 1 => {
                    progs.push((nm.to_string(), format!("{}", v)));
                    latest_prog.insert(nm, v);
                }
                2 => {
                    // does not compile: keeps the previous definition
                    progs.push((nm.to_string(), format!("{} +", v)));
                }
                _ => {
                    binds.push((nm.to_string(), CelValue::Int(v)));
                    latest_bind.insert(nm, v);
                }
            }
        }
        progs.push(("main".to_string(), "[has(a) ? a : -1, has(b) ? b : -1, has(c) ? c : -1]".to_string()));
        let s = Setup { progs, binds, users: vec![] };
        let obs = queue(rep, pending, &s, "main", "replace:random");
        let want: Vec<String> = names
            .iter()
            .map(|nm| match (latest_bind.get(nm), latest_prog.get(nm)) {
                (Some(v), _) => format!("i:{}", v),
                (None, Some(v)) => format!("i:{}", v),
                _ => "i:-1".to_string(),
            })
            .collect();
        let want = format!("l:3 {}", want.join(" "));
        if obs != want {
            rep.oracle_fail(&format!("{:?} {:?}", s.progs, s.binds.iter().map(|(k, v)| format!("{}={}", k, show_val(v))).collect::<Vec<_>>()), &obs, &want, "the latest definition per name decides (parameter over program)");
        }
    }
}

// ---------------------------------------------------------------------------------------------
// JSON

/// A generated document: the serde_json value, the CelValue the property expects (the same value bound directly)
/// and the model's wire form of the document.
fn gen_json(rng: &mut Rng, depth: u32) -> (serde_json::Value, CelValue, String) {
    use serde_json::Value;
    let k = if depth == 0 { rng.below(7) } else { rng.below(9) };
    match k {
        0 => (Value::Null, CelValue::Null, "jn".to_string()),
        1 => {
            let b = rng.chance(1, 2);
            (Value::Bool(b), CelValue::Bool(b), format!("jb:{}", if b { 1 } else { 0 }))
        }
        2 => {
            // any i64
            let i = rng.interesting_u64() as i64;
            let w = if i < 0 { format!("jm:{}", i) } else { format!("jp:{}", i) };
            (Value::from(i), CelValue::Int(i), w)
        }
        3 => {
            // any u64: an Int when it fits i64, a UInt only above
            let u = rng.interesting_u64();
            let want = if u <= i64::MAX as u64 { CelValue::Int(u as i64) } else { CelValue::UInt(u) };
            (Value::from(u), want, format!("jp:{}", u))
        }
        4 => {
            let pool = [0.0, -0.0, 1.0, -1.0, 1.5, 2.5e10, 1e19, 1.8446744073709552e19, 9.223372036854775807e18, -9.223372036854775808e18, 1e300, -1e-300, 5e-324, f64::MAX, f64::MIN, 3.0, 100.0];
            let f = if rng.chance(1, 2) { *rng.pick(&pool) } else { f64::from_bits(rng.next_u64()) };
            let f = if f.is_finite() { f } else { 0.5 };
            (serde_json::Number::from_f64(f).map(Value::Number).unwrap_or(Value::Null), CelValue::Float(f), format!("jf:{:016x}", f.to_bits()))
        }
        5 | 6 => {
            let pool = ["", "a", "héllo", "size", "int", "\"q\"", "a b", "\u{1F600}", "\\n", "0"];
            let s = rng.pick(&pool).to_string();
            (Value::String(s.clone()), CelValue::String(s.clone()), format!("js:{}", hex(s.as_bytes())))
        }
        7 => {
            let n = rng.below(4);
            let mut vs = Vec::new();
            let mut cs = Vec::new();
            let mut w = format!("ja:{}", n);
            for _ in 0..n {
                let (v, c, ww) = gen_json(rng, depth - 1);
                vs.push(v);
                cs.push(c);
                w.push(' ');
                w.push_str(&ww);
            }
            (Value::Array(vs), CelValue::List(cs), w)
        }
        _ => {
            let n = rng.below(4);
            let keys = ["a", "b", "size", "k", "é", "", "zz"];
            let mut m = serde_json::Map::new();
            let mut c: HashMap<String, CelValue> = HashMap::new();
            for _ in 0..n {
                let key = rng.pick(&keys).to_string();
                if m.contains_key(&key) {
                    continue;
                }
                let (v, cv, _) = gen_json(rng, depth - 1);
                m.insert(key.clone(), v);
                c.insert(key, cv);
            }
            // wire form in the document's own member order
            let mut w = format!("jo:{}", m.len());
            for (k, v) in m.iter() {
                w.push(' ');
                w.push_str(&hex(k.as_bytes()));
                w.push(' ');
                w.push_str(&json_wire(v));
            }
            (Value::Object(m), CelValue::Map(c), w)
        }
    }
}

fn json_wire(v: &serde_json::Value) -> String {
    use serde_json::Value;
    match v {
        Value::Null => "jn".to_string(),
        Value::Bool(b) => format!("jb:{}", if *b { 1 } else { 0 }),
        Value::Number(n) => {
            if n.is_u64() {
                format!("jp:{}", n.as_u64().unwrap())
            } else if n.is_i64() {
                format!("jm:{}", n.as_i64().unwrap())
            } else {
                format!("jf:{:016x}", n.as_f64().unwrap_or(0.0).to_bits())
            }
        }
        Value::String(s) => format!("js:{}", hex(s.as_bytes())),
        Value::Array(a) => {
            let mut w = format!("ja:{}", a.len());
            for x in a {
                w.push(' ');
                w.push_str(&json_wire(x));
            }
            w
        }
        Value::Object(m) => {
            let mut w = format!("jo:{}", m.len());
            for (k, x) in m.iter() {
                w.push(' ');
                w.push_str(&hex(k.as_bytes()));
                w.push(' ');
                w.push_str(&json_wire(x));
            }
            w
        }
    }
}

fn json_check(rep: &mut Report, pending: &mut Vec<Pending>, doc: serde_json::Value, want: &CelValue, wire: &str, class: &str) {
    let input = format!("bind_params_from_json_obj({{\"j\": {}}})", doc);
    rep.count(Some(&input));
    rep.bump(class);
    let want_wire = show_val(want);
    let doc2 = doc.clone();
    let want2 = want.clone();
    let obs = guarded(move || {
        let mut b = BindContext::new();
        let mut obj = serde_json::Map::new();
        obj.insert("j".to_string(), doc2);
        if let Err(e) = b.bind_params_from_json_obj(serde_json::Value::Object(obj)) {
            return format!("e:{}", err_kind(&e));
        }
        b.bind_param("d", want2);
        let got = match b.get_param("j") {
            Some(v) => show_val(v),
            None => "unbound".to_string(),
        };
        let mut ctx = CelContext::new();
        let _ = ctx.add_program_str("j", "j");
        let _ = ctx.add_program_str("eq", "j == d");
        let _ = ctx.add_program_str("ty", "type(j) == type(d)");
        format!("{} | {} | {} | {}", got, show_result(&ctx.exec("j", &b)), show_result(&ctx.exec("eq", &b)), show_result(&ctx.exec("ty", &b)))
    });
    let parts: Vec<&str> = obs.split(" | ").collect();
    if parts.len() != 4 {
        rep.oracle_fail(&input, &obs, &want_wire, "binding from JSON failed");
        return;
    }
    if parts[0] != want_wire {
        rep.oracle_fail(&input, parts[0], &want_wire, "a value bound from JSON equals the same value bound directly (get_param)");
    }
    if parts[1] != want_wire {
        rep.oracle_fail(&input, parts[1], &want_wire, "a value bound from JSON evaluates like the same value bound directly");
    }
    if parts[3] != "b:1" {
        rep.oracle_fail(&input, parts[3], "b:1", "type(j) == type(d) for the JSON-bound j and the directly bound d");
    }
    let has_nan = want_wire.contains("f:nan");
    if !has_nan && parts[2] != "b:1" {
        rep.oracle_fail(&input, parts[2], "b:1", "j == d for the JSON-bound j and the directly bound d");
    }
    pending.push(Pending { request: format!("json {}", wire), implementation: parts[0].to_string(), level: 9, input });
}

fn json_cases(opts: &Opts, rep: &mut Report, pending: &mut Vec<Pending>) {
    let mut rng = Rng::new(opts.seed ^ 0x150A);
    let n = if opts.thorough { 30_000 } else { 3_000 };
    for _ in 0..n {
        let (doc, want, wire) = gen_json(&mut rng, 3);
        json_check(rep, pending, doc, &want, &wire, "json:generated");
    }
    // documents given as text (the number spelling decides: a fraction or an exponent makes a double)
    let texts: Vec<(&str, CelValue)> = vec![
        ("1", CelValue::Int(1)),
        ("-1", CelValue::Int(-1)),
        ("1.0", CelValue::Float(1.0)),
        ("1e2", CelValue::Float(100.0)),
        ("-0", CelValue::Float(-0.0)),
        ("-0.0", CelValue::Float(-0.0)),
        ("9223372036854775807", CelValue::Int(i64::MAX)),
        ("9223372036854775808", CelValue::UInt(9223372036854775808)),
        ("18446744073709551615", CelValue::UInt(u64::MAX)),
        ("18446744073709551616", CelValue::Float(18446744073709551616.0)),
        ("-9223372036854775808", CelValue::Int(i64::MIN)),
        ("-9223372036854775809", CelValue::Float(-9223372036854775809.0)),
        ("[1, 1.0, \"1\", true, null]", CelValue::List(vec![CelValue::Int(1), CelValue::Float(1.0), CelValue::String("1".into()), CelValue::Bool(true), CelValue::Null])),
        ("{\"a\": {\"b\": [2]}}", {
            let mut inner = HashMap::new();
            inner.insert("b".to_string(), CelValue::List(vec![CelValue::Int(2)]));
            let mut m = HashMap::new();
            m.insert("a".to_string(), CelValue::Map(inner));
            CelValue::Map(m)
        }),
        ("{\"a\": 1, \"a\": 2}", {
            let mut m = HashMap::new();
            m.insert("a".to_string(), CelValue::Int(2));
            CelValue::Map(m)
        }),
    ];
    for (t, want) in texts {
        match serde_json::from_str::<serde_json::Value>(t) {
            Ok(doc) => {
                // `-0` is read by serde_json as the double -0.0
                let wire = json_wire(&doc);
                json_check(rep, pending, doc, &want, &wire, "json:text");
            }
            Err(_) => rep.bump("json:text-unparsable"),
        }
    }
    // anything but an object binds nothing
    for doc in [json!([1]), json!(1), json!("a"), json!(null), json!(true)] {
        let d2 = doc.clone();
        let obs = guarded(move || {
            let mut b = BindContext::new();
            let r = b.bind_params_from_json_obj(d2);
            format!("{} {}", match r { Ok(()) => "ok".to_string(), Err(e) => format!("e:{}", err_kind(&e)) }, b.get_param("j").is_some())
        });
        rep.count(Some(&format!("json-nonobject {}", doc)));
        rep.bump("json:non-object");
        if !obs.starts_with("e:") || !obs.ends_with("false") {
            rep.oracle_fail(&format!("bind_params_from_json_obj({})", doc), &obs, "an error, nothing bound", "only an object binds parameters");
        }
    }
    // several members at once, and a member replacing an earlier binding
    {
        let obs = guarded(|| {
            let mut b = BindContext::new();
            b.bind_param("a", CelValue::Int(1));
            let _ = b.bind_params_from_json_obj(json!({"a": 2, "b": [3]}));
            let mut ctx = CelContext::new();
            let _ = ctx.add_program_str("m", "[a, b[0]]");
            show_result(&ctx.exec("m", &b))
        });
        rep.count(Some("json-rebind"));
        if obs != "l:2 i:2 i:3" {
            rep.oracle_fail("bind_param(a,1); bind_params_from_json_obj({a:2,b:[3]}); [a, b[0]]", &obs, "l:2 i:2 i:3", "a JSON member rebinds like bind_param");
        }
    }
}

pub fn run(opts: &Opts) -> Report {
    let mut rep = Report::new(
        "C12",
        "reference graphs on <= 4 programs (all graphs on <= 3 programs x 25 referencing constructs (incl. macro bodies over a map receiver) + per-edge mixes; 4 programs: every graph in the thorough tier) and chains of 1..64 references per construct, \
         each executed in a child process on the default stack; every name-collision configuration {type, parameter, program, function} x 7 usage forms in identifier position, 12 calls x 8 configurations in call position, \
         map field vs method x 9 names; re-adding / rebinding histories; JSON documents bound vs the same value bound directly. Non-trivial = distinct (programs, bindings, entry) context; exponential-time cyclic graphs (branching inside a cycle) are skipped and counted",
    );
    let mut pending: Vec<Pending> = Vec::new();
    let cases = {
        let mut c = graph_cases(opts, &mut rep);
        c.extend(chain_cases());
        c
    };
    run_iso(opts, &mut rep, &mut pending, cases);
    ident_collisions(&mut rep, &mut pending);
    call_collisions(&mut rep, &mut pending);
    field_vs_method(&mut rep, &mut pending);
    replacing(opts, &mut rep, &mut pending);
    json_cases(opts, &mut rep, &mut pending);
    rep.exhaustive = true;
    rep.compare_with_model_par(&opts.driver, &pending, 16);
    rep
}
