//! C04 — equality and ordering laws; sort/min/max.
use crate::api::exec_src;
use crate::pool;
use crate::report::{guarded, Pending, Report};
use crate::rng::Rng;
use crate::wire::{l1, show_val};
use crate::Opts;
use rscel::{CelValue, CelValueDyn};
use serde_json::json;

fn op(name: &str, a: &CelValue, b: &CelValue) -> String {
    let (a, b) = (a.clone(), b.clone());
    let name = name.to_string();
    guarded(move || {
        show_val(&match name.as_str() {
            "eq" => CelValueDyn::eq(&a, &b),
            "ne" => a.neq(b),
            "lt" => a.lt(b),
            "le" => a.le(b),
            "gt" => a.gt(b),
            _ => a.ge(b),
        })
    })
}

/// order class of a value: 0 numeric int-like, 1 double, 2 string, 3 bytes, 5 ts, 6 dur; None = not ordered
fn class(v: &CelValue) -> Option<u8> {
    Some(match v {
        CelValue::Int(_) | CelValue::UInt(_) | CelValue::Bool(_) => 0,
        CelValue::Float(_) => 1,
        CelValue::String(_) => 2,
        CelValue::Bytes(_) => 3,
        CelValue::TimeStamp(_) => 5,
        CelValue::Duration(_) => 6,
        _ => return None,
    })
}

fn comparable(a: &CelValue, b: &CelValue) -> bool {
    match (class(a), class(b)) {
        (Some(x), Some(y)) => x == y || (x <= 1 && y <= 1),
        _ => false,
    }
}

fn has_nan_or_err(v: &CelValue) -> bool {
    match v {
        CelValue::Float(f) => f.is_nan(),
        CelValue::Err(_) => true,
        CelValue::List(l) => l.iter().any(has_nan_or_err),
        CelValue::Map(m) => m.values().any(has_nan_or_err),
        _ => false,
    }
}

fn as_i128(v: &CelValue) -> Option<i128> {
    match v {
        CelValue::Int(i) => Some(*i as i128),
        CelValue::UInt(u) => Some(*u as i128),
        _ => None,
    }
}

fn pair_laws(rep: &mut Report, pending: &mut Vec<Pending>, a: &CelValue, b: &CelValue) {
    let input = format!("{} ? {}", show_val(a), show_val(b));
    let r: Vec<String> = ["eq", "ne", "lt", "le", "gt", "ge"].iter().map(|o| op(o, a, b)).collect();
    let (eq, ne, lt, le, gt, ge) = (&r[0], &r[1], &r[2], &r[3], &r[4], &r[5]);
    let nontrivial = comparable(a, b) || matches!((a, b), (CelValue::List(_), CelValue::List(_)) | (CelValue::Map(_), CelValue::Map(_)));
    rep.count(if nontrivial { Some(&input) } else { None });
    rep.bump(&format!("pair:{}x{}", pool::type_tag(a), pool::type_tag(b)));
    rep.sample(json!({"lhs": show_val(a), "rhs": show_val(b), "eq": eq, "lt": lt, "gt": gt}));
    for (n, o) in ["eq", "ne", "lt", "le", "gt", "ge"].iter().zip(r.iter()) {
        if o == "P" {
            rep.oracle_fail(&format!("{} {}", n, input), o, "value or error", "comparison panicked");
        }
        pending.push(Pending {
            request: match *n {
                "eq" | "ne" => format!("{} {} {}", n, show_val(a), show_val(b)),
                _ => format!("rel {} {} {}", n, show_val(a), show_val(b)),
            },
            implementation: o.clone(),
            level: 1,
            input: format!("{} {}", n, input),
        });
    }
    let isb = |s: &str| s == "b:0" || s == "b:1";
    // != is the complement of ==
    if isb(eq) {
        let want = if eq == "b:1" { "b:0" } else { "b:1" };
        if ne != want {
            rep.oracle_fail(&input, &format!("== {} != {}", eq, ne), want, "== and != are not complementary");
        }
    } else if !l1(ne).starts_with('E') {
        rep.oracle_fail(&input, &format!("== {} != {}", eq, ne), "E", "== fails but != does not");
    }
    // symmetry
    let eq_ba = op("eq", b, a);
    if l1(&eq_ba) != l1(eq) {
        rep.oracle_fail(&input, &format!("a==b {} b==a {}", eq, eq_ba), "equal", "== is not symmetric");
    }
    // int / uint: same number
    if let (Some(x), Some(y)) = (as_i128(a), as_i128(b)) {
        let want = if x == y { "b:1" } else { "b:0" };
        if eq != want {
            rep.oracle_fail(&input, eq, want, "int/uint equality differs from equality of the numbers");
        }
        let wl = if x < y { "b:1" } else { "b:0" };
        if lt != wl {
            rep.oracle_fail(&input, lt, wl, "int/uint < differs from the order of the numbers");
        }
    }
    // integer meets double as its nearest double
    let near = |v: &CelValue| -> Option<f64> {
        match v {
            CelValue::Int(i) => Some(*i as f64),
            CelValue::UInt(u) => Some(*u as f64),
            _ => None,
        }
    };
    if let (Some(x), CelValue::Float(d)) = (near(a), b) {
        let want = if x == *d { "b:1" } else { "b:0" };
        if eq != want {
            rep.oracle_fail(&input, eq, want, "integer == double is not comparison with the nearest double");
        }
    }
    if comparable(a, b) && !has_nan_or_err(a) && !has_nan_or_err(b) {
        // trichotomy and unions
        let t = [lt == "b:1", eq == "b:1", gt == "b:1"];
        if !(isb(lt) && isb(eq) && isb(gt)) || t.iter().filter(|x| **x).count() != 1 {
            rep.oracle_fail(&input, &format!("< {} == {} > {}", lt, eq, gt), "exactly one true", "trichotomy fails on a comparable NaN-free pair");
        }
        let wle = if t[0] || t[1] { "b:1" } else { "b:0" };
        let wge = if t[2] || t[1] { "b:1" } else { "b:0" };
        if le != wle || ge != wge {
            rep.oracle_fail(&input, &format!("<= {} >= {}", le, ge), &format!("<= {} >= {}", wle, wge), "<= / >= are not the unions of < / > with ==");
        }
    } else if !comparable(a, b) && !matches!(a, CelValue::Err(_)) && !matches!(b, CelValue::Err(_)) {
        for o in [lt, le, gt, ge] {
            if !o.starts_with("e:") {
                rep.oracle_fail(&input, o, "E", "ordering values of unrelated types must be an error");
            }
        }
    }
}

fn check_sort(rep: &mut Report, pending: &mut Vec<Pending>, list: &[CelValue], mutually_comparable: bool) {
    let lv = CelValue::List(list.to_vec());
    let input = format!("sort {}", show_val(&lv));
    let got = exec_src("x.sort()", &[("x".to_string(), lv.clone())]);
    rep.count(if list.len() > 1 { Some(&input) } else { None });
    rep.bump(&format!("sort:len{}", list.len().min(9)));
    pending.push(Pending { request: format!("sort {}", show_val(&lv)), implementation: got.clone(), level: 1, input: input.clone() });
    if got == "P" {
        rep.oracle_fail(&input, &got, "value or error", "sort panicked");
        return;
    }
    if !mutually_comparable {
        return;
    }
    // ordered permutation, judged with the implementation's own <=
    let ctx_list = {
        let l = list.to_vec();
        guarded(move || {
            let mut c = rscel::CelContext::new();
            c.add_program_str("main", "x.sort()").unwrap();
            let mut b = rscel::BindContext::new();
            b.bind_param("x", CelValue::List(l));
            match c.exec("main", &b) {
                Ok(CelValue::List(out)) => {
                    let mut ok = true;
                    for w in out.windows(2) {
                        if !w[0].clone().le(w[1].clone()).is_true() {
                            ok = false;
                        }
                    }
                    let mut a: Vec<String> = out.iter().map(show_val).collect();
                    a.sort();
                    format!("{}|{}", ok, a.join(","))
                }
                other => format!("not-a-list:{:?}", other.is_ok()),
            }
        })
    };
    let mut want: Vec<String> = list.iter().map(show_val).collect();
    want.sort();
    let want = format!("true|{}", want.join(","));
    if ctx_list != want {
        rep.oracle_fail(&input, &got, "an ordered permutation of the input", "sort result is not ordered by <= or not a permutation");
    }
}

fn check_minmax(rep: &mut Report, pending: &mut Vec<Pending>, list: &[CelValue], mutually_comparable: bool) {
    if list.is_empty() || list.len() > 6 {
        return;
    }
    let names: Vec<String> = (0..list.len()).map(|i| format!("a{}", i)).collect();
    let binds: Vec<(String, CelValue)> = names.iter().cloned().zip(list.iter().cloned()).collect();
    for f in ["min", "max"] {
        let src = format!("{}({})", f, names.join(", "));
        let got = exec_src(&src, &binds);
        let lv = CelValue::List(list.to_vec());
        let input = format!("{} {}", f, show_val(&lv));
        rep.count(if list.len() > 1 { Some(&input) } else { None });
        pending.push(Pending { request: format!("{} {}", f, show_val(&lv)), implementation: got.clone(), level: 1, input: input.clone() });
        if got == "P" {
            rep.oracle_fail(&input, &got, "value or error", "min/max panicked");
        }
        if mutually_comparable {
            // first least / greatest under the implementation's own < / >
            let mut best = 0usize;
            for i in 1..list.len() {
                let better = if f == "min" { list[i].clone().lt(list[best].clone()) } else { list[i].clone().gt(list[best].clone()) };
                if better.is_true() {
                    best = i;
                }
            }
            // independent: the extreme must be <= (>=) all, and no earlier element may be equal-ranked
            let want = show_val(&list[best]);
            if got != want {
                rep.oracle_fail(&input, &got, &want, "min/max is not the first least/greatest argument");
            }
            for v in list.iter() {
                let ok = if f == "min" { list[best].clone().le(v.clone()) } else { list[best].clone().ge(v.clone()) };
                if !ok.is_true() {
                    rep.oracle_fail(&input, &got, "a bound of all arguments", "min/max result is not a bound under <= / >=");
                }
            }
        }
    }
}

pub fn run(opts: &Opts) -> Report {
    let mut rep = Report::new(
        "C04",
        "all ordered pairs of the value pool (every type, boundary numbers) for == != < <= > >=; all triples within each order class for transitivity; \
         lists up to 8 elements with duplicates for sort/min/max; non-trivial = comparable pair / collection pair / list longer than 1, distinct by operands",
    );
    let mut pending = Vec::new();
    let all = pool::all_values();
    for a in all.iter() {
        for b in all.iter() {
            pair_laws(&mut rep, &mut pending, a, b);
        }
        // reflexivity
        if !has_nan_or_err(a) {
            let e = op("eq", a, a);
            if e != "b:1" {
                rep.oracle_fail(&format!("{} == itself", show_val(a)), &e, "b:1", "== is not reflexive on a NaN-free value");
            }
        }
    }
    rep.exhaustive = true;
    // transitivity over triples within classes
    let mut classes: Vec<Vec<CelValue>> = Vec::new();
    let mut intlike: Vec<CelValue> = pool::ints().into_iter().map(CelValue::Int).collect();
    intlike.extend(pool::uints().into_iter().map(CelValue::UInt));
    classes.push(intlike);
    classes.push(pool::floats().into_iter().filter(|f| !f.is_nan()).map(CelValue::Float).collect());
    classes.push(pool::strings().into_iter().map(|s| CelValue::String(s.to_string())).collect());
    classes.push(pool::bytes().into_iter().map(CelValue::from_bytes).collect());
    classes.push(vec![CelValue::Bool(false), CelValue::Bool(true)]);
    classes.push(pool::timestamps().into_iter().map(CelValue::TimeStamp).collect());
    classes.push(pool::durations().into_iter().map(CelValue::Duration).collect());
    for (ci, cls) in classes.iter().enumerate() {
        let n = cls.len();
        let mut lt = vec![vec![false; n]; n];
        for i in 0..n {
            for j in 0..n {
                lt[i][j] = cls[i].clone().lt(cls[j].clone()).is_true();
            }
        }
        for i in 0..n {
            for j in 0..n {
                for k in 0..n {
                    rep.evaluations += 1;
                    if lt[i][j] && lt[j][k] && !lt[i][k] {
                        rep.oracle_fail(&format!("{} < {} < {}", show_val(&cls[i]), show_val(&cls[j]), show_val(&cls[k])), "a<b, b<c, not a<c", "a<c", "< is not transitive");
                    }
                    if lt[i][j] && lt[j][i] {
                        rep.oracle_fail(&format!("{} <> {}", show_val(&cls[i]), show_val(&cls[j])), "a<b and b<a", "asymmetric", "< is not asymmetric");
                    }
                }
            }
        }
        rep.bump(&format!("triples:class{}", ci));
    }
    // sort / min / max
    let mut rng = Rng::new(opts.seed);
    let nlists = if opts.thorough { 40_000 } else { 3_000 };
    for i in 0..nlists {
        let cls = &classes[rng.below(classes.len())];
        let len = rng.below(9);
        let mut l: Vec<CelValue> = (0..len).map(|_| rng.pick(cls).clone()).collect();
        // every 10th list: a mixed / non-comparable list (must not panic; model must agree)
        let mixed = i % 10 == 9;
        if mixed && len > 0 {
            let k = rng.below(len);
            l[k] = rng.pick(&all).clone();
        }
        let comparable = !mixed;
        check_sort(&mut rep, &mut pending, &l, comparable);
        // an argument that fails never reaches min/max (call arguments are evaluated first)
        if !l.iter().any(|v| matches!(v, CelValue::Err(_))) {
            check_minmax(&mut rep, &mut pending, &l, comparable);
        }
    }
    // random numeric pairs
    let npairs = if opts.thorough { 200_000 } else { 10_000 };
    for _ in 0..npairs {
        let a = pool::random_numeric(&mut rng);
        let b = pool::random_numeric(&mut rng);
        pair_laws(&mut rep, &mut pending, &a, &b);
    }
    // dyn-wrapped operands: equality and ordering do not depend on how the caller wrapped the value
    {
        use crate::facets::dynwrap as dw;
        let mut vals = dw::scalars();
        vals.extend(dw::containers());
        // (a dyn value supports equality, truthiness and member access only; ordering a dyn value is an error)
        dw::complement_with_one_sided(&mut rep);
        dw::transparency(&mut rep, "equality", &["a == b", "a != b", "b == a", "[a] == [b]", "(a == b) == (b == a)", "(a != b) == !(a == b)"], &vals, &vals);
    }
    rep.compare_with_model(&opts.driver, &pending);
    rep
}
