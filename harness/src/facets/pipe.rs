//! Source-level correspondence: AST, bytecode and result of the model pipeline vs the real one.
use crate::api::{ast_obs, code_wire, compile, env_wire, exec_full, UserFn};
use crate::gen::std_bindings;
use crate::report::{Pending, Report};
use crate::wire::hex;

pub fn queue_ast(pending: &mut Vec<Pending>, src: &str) -> String {
    let obs = ast_obs(src);
    // the model prints "E line:col" for a syntax error; only the class is compared
    let imp = if obs == "E" { "E".to_string() } else { obs.clone() };
    pending.push(Pending { request: format!("parse {}", hex(src.as_bytes())), implementation: imp, level: 5, input: format!("AST of: {}", src) });
    obs
}

pub fn queue_bytecode(pending: &mut Vec<Pending>, src: &str) {
    let imp = match compile(src) {
        Ok(p) => code_wire(&p),
        Err(_) => "E".to_string(),
    };
    pending.push(Pending { request: format!("compile {}", hex(src.as_bytes())), implementation: imp, level: 9, input: format!("bytecode of: {}", src) });
}

/// exec through the model's own lexer+parser+compiler+VM vs the real pipeline (L1 + call log).
pub fn queue_exec(rep: &mut Report, pending: &mut Vec<Pending>, src: &str, variant: u64) -> String {
    let users = vec![("tick".to_string(), UserFn::Arg0)];
    let binds = std_bindings(variant);
    let out = match compile(src) {
        Ok(p) => {
            let o = exec_full(&[("main".to_string(), p)], "main", &binds, &users);
            format!("{} {}", o.obs, o.log)
        }
        Err(e) => format!("{} L:0", if e == "P" { "P" } else { "e:syntax" }),
    };
    if out.starts_with("P ") {
        rep.oracle_fail(src, "P", "value or error", "compile/evaluate panicked");
    }
    pending.push(Pending {
        request: format!("exec {} {}", env_wire(&[], &binds, &users), hex(src.as_bytes())),
        implementation: out.clone(),
        level: 3,
        input: format!("{} [bindings variant {}]", src, variant),
    });
    out
}
