//! C17 — the reported parameter list covers every variable a program can read.
//!
//! Inputs: a variable planted in each syntactic position (operands, call arguments and receivers, macro
//! ranges and bodies, f-string segments, index expressions, map keys and values, match scrutinee / patterns /
//! arms, both conditional branches incl. folded-away ones, short-circuited operands, has / coalesce
//! arguments), alone (exhaustive over the position table × two names) and combined (nesting / lists of two
//! or three positions), plus programs of the shared generator.
//!
//! Model-free oracle on the real code, per program:
//!  (i)   an independent free-identifier walk over the dump of `Program::ast()` (format-string segments parsed
//!        on their own) ⊆ `Program::params()` ⊆ identifiers among the source tokens;
//!  (ii)  relevance: for every identifier of the source that is *not* reported (and one fresh name) the
//!        result under bindings differing only there is the same;
//!  (iii) binding exactly the reported names (those that are not functions / macros / types) never ends in
//!        an unbound-variable failure;
//!  (iv)  `filter_from_bindings` against random bind sets (parameters, functions, macros) removes exactly the
//!        bound names.
//! Model: `params` of the model parse (as a set) and `filterFromBindings` for parameter / function bind sets.
use crate::api::{compile, token_wire, UserFn};
use crate::gen::{std_bindings, Gen, Ty};
use crate::report::{guarded, Pending, Report};
use crate::rng::Rng;
use crate::wire::{hex, show_val};
use crate::Opts;
use rscel::{BindContext, CelContext, CelError, CelValue, Program, StringTokenizer, Tokenizer};
use serde_json::{json, Value};
use std::collections::{BTreeSet, HashMap};

/// (position, template with `VAR`, kind of value the planted variable gets: i l m b s)
const POSITIONS: [(&str, &str, char); 74] = [
    ("alone", "VAR", 'i'),
    ("operand-lhs", "VAR + 1", 'i'),
    ("operand-rhs", "1 - VAR", 'i'),
    ("operand-mul", "2 * VAR % 5", 'i'),
    ("operand-neg", "-VAR", 'i'),
    ("operand-negneg", "- -VAR", 'i'),
    ("operand-not", "!VAR", 'b'),
    ("operand-rel", "VAR < 2", 'i'),
    ("operand-eq", "x == VAR", 'i'),
    ("operand-in-lhs", "VAR in [1, 3]", 'i'),
    ("operand-in-rhs", "1 in VAR", 'l'),
    ("operand-or-first", "VAR || false", 'b'),
    ("operand-or-shortcircuited", "true || VAR", 'b'),
    ("operand-and-shortcircuited", "false && VAR", 'b'),
    ("operand-and-chain", "b && b && VAR", 'b'),
    ("parens", "((VAR))", 'i'),
    ("call-arg", "size(VAR)", 'l'),
    ("call-arg-second", "max(1, VAR)", 'i'),
    ("call-arg-user", "tick(VAR)", 'i'),
    ("call-arg-type", "int(VAR)", 's'),
    ("call-arg-nested", "string(int(VAR) + 1)", 's'),
    ("call-receiver", "VAR.size()", 'l'),
    ("call-receiver-method-arg", "'abc'.contains(VAR)", 's'),
    ("call-receiver-string", "VAR.startsWith('a')", 's'),
    ("call-receiver-unknown-method", "VAR.nosuch(1)", 'i'),
    ("call-chain", "VAR.size().abs()", 'l'),
    ("call-const-folded-sibling", "size([1, 2]) + VAR", 'i'),
    ("macro-range-map", "VAR.map(v, v)", 'l'),
    ("macro-range-all", "VAR.all(v, v > 0)", 'l'),
    ("macro-range-exists", "VAR.exists(v, v > 1)", 'l'),
    ("macro-range-exists-one", "VAR.exists_one(v, v > 1)", 'l'),
    ("macro-range-filter", "VAR.filter(v, v > 1)", 'l'),
    ("macro-range-reduce", "VAR.reduce(a, v, a + v, 0)", 'l'),
    ("macro-body-map", "[1].map(v, v + VAR)", 'i'),
    ("macro-body-filter", "[1, 2].filter(v, VAR)", 'b'),
    ("macro-body-all", "[1, 2].all(v, v < VAR)", 'i'),
    ("macro-body-exists", "[1, 2].exists(v, v == VAR)", 'i'),
    ("macro-body-map3-predicate", "[1, 2].map(v, VAR, v)", 'b'),
    ("macro-body-map3-transform", "[1, 2].map(v, true, VAR)", 'i'),
    ("macro-body-reduce-step", "[1].reduce(a, v, a + VAR, 0)", 'i'),
    ("macro-body-reduce-seed", "[1].reduce(a, v, a, VAR)", 'i'),
    ("macro-body-empty-range", "[].map(v, VAR)", 'i'),
    ("macro-body-nested", "[1].map(v, [2].map(w, w + v + VAR))", 'i'),
    ("fstring-segment", "f'{VAR}'", 'i'),
    ("fstring-segment-expr", "f'a{1 + VAR}b'", 'i'),
    ("fstring-second-segment", "f'{x}-{VAR}'", 'i'),
    ("fstring-nested", "f'{f\"{VAR}\"}'", 'i'),
    ("fstring-segment-call", "f'{size(VAR)}'", 'l'),
    ("index-expression", "[1, 2][VAR]", 'i'),
    ("index-base", "VAR[0]", 'l'),
    ("index-map-key", "m[VAR]", 's'),
    ("index-after-call", "[1, 2].map(v, v * 2)[VAR]", 'i'),
    ("member-base", "VAR.a", 'm'),
    ("member-base-deep", "VAR.b.c", 'm'),
    ("map-key", "{VAR: 1}", 's'),
    ("map-value", "{'a': VAR}", 'i'),
    ("map-value-second", "{'a': 1, 'b': VAR}.b", 'i'),
    ("list-element", "[1, VAR, 3]", 'i'),
    ("list-nested", "[[VAR]]", 'i'),
    ("match-scrutinee", "match VAR { case 1: 2, case _: 3 }", 'i'),
    ("match-pattern-eq", "match 1 { case == VAR: 2 }", 'i'),
    ("match-pattern-bare", "match 1 { case VAR: 2 }", 'i'),
    ("match-pattern-gt", "match 5 { case > VAR: 2, case _: 0 }", 'i'),
    ("match-arm-first", "match 1 { case 1: VAR, case _: 0 }", 'i'),
    ("match-arm-untaken", "match 1 { case int: 0, case _: VAR }", 'i'),
    ("match-arm-after-type", "match 's' { case int: 0, case string: VAR }", 'i'),
    ("ternary-condition", "VAR ? 1 : 2", 'b'),
    ("ternary-true-folded", "true ? VAR : 2", 'i'),
    ("ternary-false-folded-away", "true ? 1 : VAR", 'i'),
    ("ternary-true-folded-away", "false ? VAR : 1", 'i'),
    ("ternary-true-dynamic", "b ? VAR : 1", 'i'),
    ("ternary-false-dynamic-untaken", "b ? 1 : VAR", 'i'),
    ("has-argument", "has(VAR.a)", 'm'),
    ("coalesce-argument", "coalesce(n, VAR, 1)", 'i'),
];

const EXTRA: [(&str, &str, char); 6] = [
    ("has-argument-bare", "has(VAR)", 'i'),
    ("coalesce-first", "coalesce(VAR, 1)", 'i'),
    ("coalesce-unreached", "coalesce(1, VAR)", 'i'),
    ("ternary-nested-untaken", "b ? 1 : (f ? VAR : 2)", 'i'),
    ("call-arg-of-receiver-call", "s.contains(VAR)", 's'),
    ("fstring-in-call-in-macro", "[1].map(v, size(f'{VAR}'))", 'i'),
];

fn kind_value(k: char) -> CelValue {
    match k {
        'l' => CelValue::List(vec![CelValue::Int(1), CelValue::Int(2)]),
        'm' => {
            let mut inner = HashMap::new();
            inner.insert("c".to_string(), CelValue::Int(2));
            let mut m = HashMap::new();
            m.insert("a".to_string(), CelValue::Int(1));
            m.insert("b".to_string(), CelValue::Map(inner));
            CelValue::Map(m)
        }
        'b' => CelValue::Bool(true),
        's' => CelValue::String("3".into()),
        _ => CelValue::Int(3),
    }
}

fn other_value(k: char) -> CelValue {
    match k {
        'l' => CelValue::List(vec![CelValue::Int(5)]),
        'm' => {
            let mut m = HashMap::new();
            m.insert("z".to_string(), CelValue::Int(9));
            CelValue::Map(m)
        }
        'b' => CelValue::Bool(false),
        's' => CelValue::String("41".into()),
        _ => CelValue::Int(41),
    }
}

/// Identifier tokens of a source text; format-string segments are lexed on their own, recursively.
fn source_idents(src: &str, depth: u32, out: &mut BTreeSet<String>) -> bool {
    if depth > 8 {
        return false;
    }
    let src = src.to_string();
    let mut wires: Vec<String> = Vec::new();
    let ok = {
        let wires = &mut wires;
        guarded(move || {
            let mut t = StringTokenizer::with_input(&src);
            loop {
                match t.next() {
                    Ok(Some(tok)) => wires.push(token_wire(&format!("{:?}", tok.token))),
                    Ok(None) => return "ok".to_string(),
                    Err(_) => return "err".to_string(),
                }
                if wires.len() > 100_000 {
                    return "err".to_string();
                }
            }
        }) == "ok"
    };
    for w in wires {
        if let Some(h) = w.strip_prefix("id:") {
            out.insert(unhex(h));
        } else if let Some(segs) = w.strip_prefix("fstr:") {
            for s in segs.split(',') {
                if let Some(h) = s.strip_prefix('E') {
                    source_idents(&unhex(h), depth + 1, out);
                }
            }
        }
    }
    ok
}

fn unhex(h: &str) -> String {
    let bytes: Vec<u8> = (0..h.len() / 2).filter_map(|i| u8::from_str_radix(&h[2 * i..2 * i + 2], 16).ok()).collect();
    String::from_utf8_lossy(&bytes).to_string()
}

/// Independent free-identifier walk over the JSON dump of the real AST: every `Primary::Ident` except the
/// name directly in front of an argument list (looked up as a function, never as a variable); the
/// expression segments of format strings are compiled on their own and walked the same way.
fn free_idents(v: &Value, out: &mut BTreeSet<String>, depth: u32) {
    match v {
        Value::Object(m) => {
            // a Member node: {"primary": .., "member": [..]}
            if let (Some(prim), Some(chain)) = (m.get("primary"), m.get("member").and_then(|c| c.as_array())) {
                let called_name = prim["node"].get("Ident").is_some() && chain.first().map_or(false, |op| op["node"].get("Call").is_some());
                if !called_name {
                    free_idents(prim, out, depth);
                }
                for op in chain {
                    free_idents(op, out, depth);
                }
                return;
            }
            if let Some(Value::String(name)) = m.get("Ident") {
                out.insert(name.clone());
                return;
            }
            if let Some(Value::Array(segs)) = m.get("FStringList") {
                for s in segs {
                    if let Some(Value::String(text)) = s.get("Expr") {
                        if depth < 8 {
                            if let Ok(p) = compile(text) {
                                if let Some(a) = p.ast().and_then(|a| serde_json::to_value(a).ok()) {
                                    free_idents(&a, out, depth + 1);
                                }
                            }
                        }
                    }
                }
                return;
            }
            if m.contains_key("MemberAccess") {
                return; // the name behind a dot is not an identifier expression
            }
            for (_, x) in m {
                free_idents(x, out, depth)
            }
        }
        Value::Array(a) => {
            for x in a {
                free_idents(x, out, depth)
            }
        }
        _ => {}
    }
}

fn exec_with(prog: &Program, binds: &[(String, CelValue)]) -> (String, Option<String>) {
    let mut sym: Option<String> = None;
    let obs = {
        let sym = &mut sym;
        guarded(move || {
            let mut ctx = CelContext::new();
            ctx.add_program("main", prog.clone());
            let tick: Box<dyn Fn(CelValue, Vec<CelValue>) -> CelValue> = Box::new(|_this, args: Vec<CelValue>| args.get(0).cloned().unwrap_or(CelValue::Null));
            let mut b = BindContext::new();
            for (k, v) in binds {
                b.bind_param(k, v.clone());
            }
            b.bind_func("tick", tick.as_ref());
            let r = ctx.exec("main", &b);
            if let Err(CelError::Binding { symbol }) = &r {
                *sym = Some(symbol.clone());
            }
            crate::wire::show_result(&r)
        })
    };
    (obs, sym)
}

fn is_callable_or_type(name: &str) -> bool {
    let b = BindContext::new();
    b.get_func(name).is_some()
        || b.get_macro(name).is_some()
        || ["bool", "int", "uint", "float", "double", "string", "bytes", "type", "timestamp", "duration", "null_type", "dyn", "tick"].contains(&name)
}

struct Planted {
    name: String,
    kind: char,
    position: String,
}

fn names_wire(names: &BTreeSet<String>) -> String {
    let mut hs: Vec<String> = names.iter().map(|n| hex(n.as_bytes())).collect();
    hs.sort();
    let mut s = format!("P:{}", hs.len());
    for h in hs {
        s.push(' ');
        s.push_str(&h);
    }
    s
}

fn check_program(rep: &mut Report, pending: &mut Vec<Pending>, rng: &mut Rng, src: &str, planted: &[Planted], tag: &str) {
    let prog = match compile(src) {
        Ok(p) => p,
        Err(e) => {
            rep.count(None);
            rep.bump(&format!("{}:compile-{}", tag, if e == "P" { "panic" } else { "error" }));
            if e == "P" {
                rep.oracle_fail(src, "P", "program or syntax error", "compiler panicked");
            }
            pending.push(Pending { request: format!("params {}", hex(src.as_bytes())), implementation: "E".into(), level: 9, input: format!("params of: {}", src) });
            return;
        }
    };
    rep.count(Some(src));
    rep.bump(&format!("{}:compiled", tag));
    let reported: BTreeSet<String> = prog.params().into_iter().map(|s| s.to_string()).collect();
    rep.bump(&format!("reported_names:{}", reported.len().min(8)));
    if prog.bytecode().len() == 1 {
        rep.bump("folded_to_constant");
    }
    // (i) free identifiers of the AST ⊆ reported ⊆ identifiers of the source
    let mut toks = BTreeSet::new();
    source_idents(src, 0, &mut toks);
    let mut free = BTreeSet::new();
    if let Some(a) = prog.ast().and_then(|a| serde_json::to_value(a).ok()) {
        free_idents(&a, &mut free, 0);
    } else {
        rep.oracle_fail(src, "no AST", "Program::ast() is Some", "compiled program exposes no syntax tree");
    }
    for n in free.iter() {
        if !reported.contains(n) {
            rep.oracle_fail(src, &format!("params() = {:?}", reported), &format!("contains `{}`", n), "C17 (i): an identifier in a variable position of the syntax tree is not reported");
        }
    }
    for n in reported.iter() {
        if !toks.contains(n) {
            rep.oracle_fail(src, &format!("params() = {:?}", reported), &format!("no `{}`: the source has no such identifier", n), "C17 (i): a reported name does not occur in the source");
        }
    }
    for p in planted {
        rep.bump(&format!("position:{}", p.position));
        if !reported.contains(&p.name) {
            rep.oracle_fail(src, &format!("params() = {:?}", reported), &format!("contains the planted variable `{}` ({})", p.name, p.position), "C17: a variable the program can read is not reported");
        }
    }
    // base bindings: the standard ones, the planted ones, every other reported non-callable name
    let mut base: Vec<(String, CelValue)> = std_bindings(0);
    for p in planted {
        base.retain(|(k, _)| *k != p.name);
        base.push((p.name.clone(), kind_value(p.kind)));
    }
    for n in reported.iter() {
        if !is_callable_or_type(n) && !base.iter().any(|(k, _)| k == n) {
            base.push((n.clone(), CelValue::Int(1)));
        }
    }
    let (r0, _) = exec_with(&prog, &base);
    if r0 == "P" {
        rep.oracle_fail(src, "P", "value or error", "evaluation panicked");
    }
    rep.bump(&format!("outcome:{}", if r0.starts_with("e:") { r0.as_str() } else { "value" }));
    // (ii) relevance: an unreported identifier of the source (and a fresh name) cannot influence the result
    let mut unreported: Vec<String> = toks.iter().filter(|n| !reported.contains(*n)).cloned().collect();
    unreported.push("zz_fresh".to_string());
    for u in unreported.iter() {
        let mut without: Vec<(String, CelValue)> = base.iter().filter(|(k, _)| k != u).cloned().collect();
        let (ra, _) = exec_with(&prog, &without);
        without.push((u.clone(), CelValue::Int(41)));
        let (rb, _) = exec_with(&prog, &without);
        without.pop();
        without.push((u.clone(), CelValue::String("zz".into())));
        let (rc, _) = exec_with(&prog, &without);
        rep.bump("relevance_probes");
        if ra != rb || ra != rc {
            rep.oracle_fail(
                src,
                &format!("`{}` unbound: {}; = 41: {}; = 'zz': {} (params() = {:?})", u, ra, rb, rc, reported),
                "equal results: the bindings agree on every reported name",
                "C17 (ii): evaluations under two bindings that agree on all reported names differ",
            );
        }
    }
    // the planted variables do matter (distribution only: how often a perturbation of a reported name shows)
    for p in planted {
        let mut alt: Vec<(String, CelValue)> = base.iter().filter(|(k, _)| *k != p.name).cloned().collect();
        alt.push((p.name.clone(), other_value(p.kind)));
        let (r1, _) = exec_with(&prog, &alt);
        rep.bump(if r1 != r0 { "planted_variable_changes_result" } else { "planted_variable_not_observable" });
    }
    // (iii) bind exactly the reported names: no unbound-variable failure
    let exact: Vec<(String, CelValue)> = base.iter().filter(|(k, _)| reported.contains(k)).cloned().collect();
    let (r3, sym) = exec_with(&prog, &exact);
    if let Some(symbol) = sym {
        if !is_callable_or_type(&symbol) {
            rep.oracle_fail(
                src,
                &format!("{} for `{}` with exactly {:?} bound", r3, symbol, exact.iter().map(|x| x.0.clone()).collect::<Vec<_>>()),
                "no unbound-variable failure",
                "C17 (iii): binding every reported name is not sufficient",
            );
        }
    }
    // model: the reported set
    pending.push(Pending { request: format!("params {}", hex(src.as_bytes())), implementation: names_wire(&reported), level: 9, input: format!("params of: {}", src) });
    // (iv) filter_from_bindings against random bind sets
    let mut pool: Vec<String> = reported.iter().cloned().collect();
    pool.extend(["zz_fresh".to_string(), "size".to_string(), "map".to_string(), "x".to_string()]);
    for round in 0..3 {
        let mut as_param: Vec<(String, CelValue)> = Vec::new();
        let mut as_func: Vec<String> = Vec::new();
        let mut as_macro: Vec<String> = Vec::new();
        for n in pool.iter() {
            match rng.below(if round == 2 { 6 } else { 5 }) {
                0 | 1 => as_param.push((n.clone(), CelValue::Int(rng.range(0, 9)))),
                2 => as_func.push(n.clone()),
                5 => as_macro.push(n.clone()),
                _ => {}
            }
        }
        let f: Box<dyn Fn(CelValue, Vec<CelValue>) -> CelValue> = Box::new(|_t, _a| CelValue::Null);
        let mac: Box<rscel::RsCelMacro> = Box::new(|_i, _t, _a| CelValue::Null);
        let mut remaining: Option<BTreeSet<String>> = None;
        {
            let remaining = &mut remaining;
            let (as_param, as_func, as_macro, prog) = (&as_param, &as_func, &as_macro, &prog);
            let (f, mac) = (&f, &mac);
            let _ = guarded(move || {
                let mut b = BindContext::new();
                for (k, v) in as_param {
                    b.bind_param(k, v.clone());
                }
                for k in as_func {
                    b.bind_func(k, f.as_ref());
                }
                for k in as_macro {
                    b.bind_macro(k, mac.as_ref());
                }
                let mut d = prog.details().clone();
                d.filter_from_bindings(&b);
                *remaining = Some(d.params().into_iter().map(|s| s.to_string()).collect());
                String::new()
            });
        }
        let remaining = match remaining {
            Some(r) => r,
            None => {
                rep.oracle_fail(src, "P", "filtered parameter list", "filter_from_bindings panicked");
                continue;
            }
        };
        let defaults = BindContext::new();
        let expected: BTreeSet<String> = reported
            .iter()
            .filter(|n| {
                !(as_param.iter().any(|(k, _)| k == *n)
                    || as_func.contains(n)
                    || as_macro.contains(n)
                    || defaults.get_func(n).is_some()
                    || defaults.get_macro(n).is_some())
            })
            .cloned()
            .collect();
        rep.bump("filter_probes");
        rep.bump(&format!("filter_removed:{}", (reported.len() - remaining.len().min(reported.len())).min(6)));
        if remaining != expected {
            rep.oracle_fail(
                src,
                &format!("after filter_from_bindings(params {:?}, funcs {:?}, macros {:?}): {:?}", as_param.iter().map(|x| &x.0).collect::<Vec<_>>(), as_func, as_macro, remaining),
                &format!("{:?}", expected),
                "C17 (iv): filtering removes exactly the names bound as variables, functions or macros",
            );
        }
        if as_macro.is_empty() {
            let users: Vec<(String, UserFn)> = as_func.iter().map(|k| (k.clone(), UserFn::Const(CelValue::Null))).collect();
            pending.push(Pending {
                request: format!("filterparams {} {}", crate::api::env_wire(&[], &as_param, &users), hex(src.as_bytes())),
                implementation: names_wire(&remaining),
                level: 9,
                input: format!("filter_from_bindings of: {} [params {:?} funcs {:?}]", src, as_param.iter().map(|x| &x.0).collect::<Vec<_>>(), as_func),
            });
        }
    }
    let _ = show_val;
}

fn instantiate(t: &str, var: &str) -> String {
    t.replace("VAR", var)
}

pub fn run(opts: &Opts) -> Report {
    let mut rep = Report::new(
        "C17",
        "a variable planted in each of 80 syntactic positions (exhaustive, two names each), combinations of two / three positions (nested and side by side), generator programs; \
         per program: free identifiers of the real AST ⊆ params() ⊆ source identifiers, planted variables reported, relevance probes on every unreported source identifier, \
         bind-exactly-the-reported-names, filter_from_bindings vs random bind sets; model params / filterFromBindings; non-trivial = distinct compiled source",
    );
    rep.exhaustive = true;
    let mut pending: Vec<Pending> = Vec::new();
    let mut rng = Rng::new(opts.seed ^ 0xC17);
    let all: Vec<(&str, &str, char)> = POSITIONS.iter().chain(EXTRA.iter()).cloned().collect();
    // A. every position alone, two names (one of them collides with the loop variable the templates use)
    for (pos, t, k) in all.iter() {
        // two plain names, and two that are also the name of a built-in function / macro: in a variable position
        // they are read from the bindings like any other name, so they must be reported too
        for name in ["pv", "q9_Z", "min", "filter"] {
            let src = instantiate(t, name);
            check_program(&mut rep, &mut pending, &mut rng, &src, &[Planted { name: name.into(), kind: *k, position: pos.to_string() }], "single");
        }
        if !t.contains("(v,") && !t.contains("(a, v") {
            let src = instantiate(t, "v");
            check_program(&mut rep, &mut pending, &mut rng, &src, &[Planted { name: "v".into(), kind: *k, position: pos.to_string() }], "single");
        }
    }
    rep.sample(json!({"positions": all.len()}));
    // B. combinations
    let n = if opts.thorough { 150_000 } else { 8_000 };
    for i in 0..n {
        let k = 2 + rng.below(2);
        let picks: Vec<(&str, &str, char)> = (0..k).map(|_| all[rng.below(all.len())]).collect();
        let names = ["pa", "pb", "pc"];
        let planted: Vec<Planted> = picks.iter().enumerate().map(|(j, (pos, _, kd))| Planted { name: names[j].into(), kind: *kd, position: pos.to_string() }).collect();
        let parts: Vec<String> = picks.iter().enumerate().map(|(j, (_, t, _))| instantiate(t, names[j])).collect();
        let src = match rng.below(6) {
            0 => format!("[{}]", parts.join(", ")),
            1 => parts.iter().map(|p| format!("({})", p)).collect::<Vec<_>>().join(" == "),
            2 => {
                // nest: the second goes where the first one's variable stands
                let inner = format!("({})", parts[1]);
                let outer = instantiate(picks[0].1, &inner);
                if k == 3 { format!("[{}, {}]", outer, parts[2]) } else { outer }
            }
            3 => format!("b ? ({}) : ({})", parts[0], parts[1..].join(" + ")),
            4 => format!("{{'k': {}, 'j': [{}]}}", parts[0], parts[1..].join(", ")),
            _ => format!("size([{}]) > 0 || ({})", parts[0], parts[1..].join(") || (")),
        };
        // nesting replaces the first variable: it is no longer planted
        let planted: Vec<Planted> = if src.contains("pa") { planted } else { planted.into_iter().skip(1).collect() };
        check_program(&mut rep, &mut pending, &mut rng, &src, &planted, "combined");
        if i < 4 {
            rep.sample(json!({"combined": src}));
        }
    }
    // C. generator programs
    let g = if opts.thorough { 60_000 } else { 4_000 };
    for i in 0..g {
        let depth = 1 + (i % 4) as u32;
        let want = [Ty::Int, Ty::Bool, Ty::Any, Ty::List, Ty::Str, Ty::Map, Ty::UInt][i % 7];
        let src = {
            let mut gen = Gen::new(&mut rng);
            gen.expr(depth, want)
        };
        check_program(&mut rep, &mut pending, &mut rng, &src, &[], "generated");
    }
    rep.compare_with_model(&opts.driver, &pending);
    rep
}
