pub mod c03;
pub mod c04;
