pub mod c03;
pub mod c04;
pub mod c10;
pub mod vmrun;
pub mod pipe;
pub mod c05;
pub mod c06;
pub mod c20;
