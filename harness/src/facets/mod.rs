pub mod c03;
