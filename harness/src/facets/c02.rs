//! C02 — parsing assigns the CEL grammar's precedence, associativity and grouping.
//!
//! The oracle is model free: the harness builds an abstract operator tree itself, renders it (minimal,
//! full and random parenthesisation, random whitespace) and demands that the real `Program::ast()` —
//! spans dropped, `Unary`/`Member` wrapper nodes collapsed, `Parens` removed — is that tree, that all
//! renderings evaluate to the same result, and that the result is the one a small reference evaluator
//! computes from the tree.  Flat operator sequences are not built from a tree: their expected tree is
//! computed from the level table of the property text (split at the last operator of the loosest level).
use crate::api::{ast_obs, ast_obs_value, exec_src};
use crate::model::run_model;
use crate::report::{Pending, Report};
use crate::rng::Rng;
use crate::wire::{hex, l1};
use crate::Opts;
use rscel::CelValue;
use serde_json::{json, Value};
use std::sync::atomic::{AtomicUsize, Ordering};

// ---------------------------------------------------------------------------------------------
// the operator alphabet and the level table of the property text

#[derive(Clone, Copy, PartialEq, Eq, Debug)]
pub enum Op {
    Or,
    And,
    Lt,
    Le,
    Gt,
    Ge,
    Eq,
    Ne,
    In,
    Add,
    Sub,
    Mul,
    Div,
    Mod,
}

const OPS: [Op; 14] = [
    Op::Or, Op::And, Op::Lt, Op::Le, Op::Gt, Op::Ge, Op::Eq, Op::Ne, Op::In, Op::Add, Op::Sub, Op::Mul, Op::Div, Op::Mod,
];

impl Op {
    /// `?:` 0 < `||` 1 < `&&` 2 < relations and `in` 3 < `+ -` 4 < `* / %` 5 < unary 6 < postfix/primary 7
    fn level(self) -> u8 {
        match self {
            Op::Or => 1,
            Op::And => 2,
            Op::Lt | Op::Le | Op::Gt | Op::Ge | Op::Eq | Op::Ne | Op::In => 3,
            Op::Add | Op::Sub => 4,
            Op::Mul | Op::Div | Op::Mod => 5,
        }
    }
    fn text(self) -> &'static str {
        match self {
            Op::Or => "||",
            Op::And => "&&",
            Op::Lt => "<",
            Op::Le => "<=",
            Op::Gt => ">",
            Op::Ge => ">=",
            Op::Eq => "==",
            Op::Ne => "!=",
            Op::In => "in",
            Op::Add => "+",
            Op::Sub => "-",
            Op::Mul => "*",
            Op::Div => "/",
            Op::Mod => "%",
        }
    }
    fn wire(self) -> &'static str {
        match self {
            Op::Or => "or",
            Op::And => "and",
            Op::Lt => "lt",
            Op::Le => "le",
            Op::Gt => "gt",
            Op::Ge => "ge",
            Op::Eq => "eq",
            Op::Ne => "ne",
            Op::In => "in",
            Op::Add => "add",
            Op::Sub => "sub",
            Op::Mul => "mul",
            Op::Div => "div",
            Op::Mod => "mod",
        }
    }
}

// ---------------------------------------------------------------------------------------------
// abstract trees (with optional explicit parentheses) and shapes

#[derive(Clone, PartialEq, Debug)]
enum PostOp {
    Access(String),
    Index(U),
    Call(Vec<U>),
}

#[derive(Clone, PartialEq, Debug)]
enum U {
    Id(String),
    Int(u64),
    /// another literal: source text and the `Literal` node `Program::ast()` serialises for it
    Lit(String, Value),
    List(Vec<U>),
    Paren(Box<U>),
    Not(u32, Box<U>),
    Neg(u32, Box<U>),
    Bin(Op, Box<U>, Box<U>),
    Tern(Box<U>, Box<U>, Box<U>),
    Post(Box<U>, Vec<PostOp>),
}

/// Shape of an expression: no spans, no parentheses, no wrapper nodes.
#[derive(Clone, PartialEq, Debug)]
enum S {
    Id(String),
    Lit(Value),
    List(Vec<S>),
    Not(u32, Box<S>),
    Neg(u32, Box<S>),
    Bin(Op, Box<S>, Box<S>),
    Tern(Box<S>, Box<S>, Box<S>),
    Post(Box<S>, Vec<SPost>),
    Other(String),
}

#[derive(Clone, PartialEq, Debug)]
enum SPost {
    Access(String),
    Index(S),
    Call(Vec<S>),
}

fn b<T>(x: T) -> Box<T> {
    Box::new(x)
}

fn level(u: &U) -> u8 {
    match u {
        U::Id(_) | U::Int(_) | U::Lit(..) | U::List(_) | U::Paren(_) | U::Post(..) => 7,
        U::Not(..) | U::Neg(..) => 6,
        U::Bin(op, ..) => op.level(),
        U::Tern(..) => 0,
    }
}

/// A primary: what a postfix chain may be attached to without parentheses.
fn is_primary(u: &U) -> bool {
    matches!(u, U::Id(_) | U::Int(_) | U::Lit(..) | U::List(_) | U::Paren(_))
}

/// Is the tree, rendered as it stands (only its explicit parentheses), a derivation of the grammar?
fn wf(u: &U) -> bool {
    match u {
        U::Id(_) | U::Lit(..) => true,
        U::Int(n) => *n <= i64::MAX as u64,
        U::List(es) => es.iter().all(wf),
        U::Paren(e) => wf(e),
        U::Not(n, e) | U::Neg(n, e) => *n >= 1 && level(e) >= 7 && wf(e),
        U::Bin(op, l, r) => level(l) >= op.level() && level(r) >= op.level() + 1 && wf(l) && wf(r),
        U::Tern(c, t, f) => level(c) >= 1 && level(t) >= 1 && wf(c) && wf(t) && wf(f),
        U::Post(base, chain) => {
            is_primary(base)
                && wf(base)
                && !chain.is_empty()
                && chain.iter().all(|o| match o {
                    PostOp::Access(_) => true,
                    PostOp::Index(e) => wf(e),
                    PostOp::Call(args) => args.iter().all(wf),
                })
        }
    }
}

/// Depth the parser's nesting counter reaches below the start (parentheses, else branches, unary runs,
/// index expressions, arguments, list elements).
fn nest(u: &U) -> u32 {
    match u {
        U::Id(_) | U::Int(_) | U::Lit(..) => 0,
        U::List(es) => es.iter().map(|e| nest(e) + 1).max().unwrap_or(0),
        U::Paren(e) => nest(e) + 1,
        U::Not(n, e) | U::Neg(n, e) => (*n).max(nest(e)),
        U::Bin(_, l, r) => nest(l).max(nest(r)),
        U::Tern(c, t, f) => nest(c).max(nest(t)).max(nest(f) + 1),
        U::Post(base, chain) => {
            let mut m = nest(base);
            for o in chain {
                match o {
                    PostOp::Access(_) => {}
                    PostOp::Index(e) => m = m.max(nest(e) + 1),
                    PostOp::Call(args) => {
                        for a in args {
                            m = m.max(nest(a) + 1)
                        }
                    }
                }
            }
            m
        }
    }
}

fn shape(u: &U) -> S {
    match u {
        U::Id(n) => S::Id(n.clone()),
        U::Int(n) => S::Lit(json!({ "IntegerLit": n })),
        U::Lit(_, v) => S::Lit(v.clone()),
        U::List(es) => S::List(es.iter().map(shape).collect()),
        U::Paren(e) => shape(e),
        U::Not(n, e) => S::Not(*n, b(shape(e))),
        U::Neg(n, e) => S::Neg(*n, b(shape(e))),
        U::Bin(op, l, r) => S::Bin(*op, b(shape(l)), b(shape(r))),
        U::Tern(c, t, f) => S::Tern(b(shape(c)), b(shape(t)), b(shape(f))),
        U::Post(base, chain) => S::Post(
            b(shape(base)),
            chain
                .iter()
                .map(|o| match o {
                    PostOp::Access(n) => SPost::Access(n.clone()),
                    PostOp::Index(e) => SPost::Index(shape(e)),
                    PostOp::Call(args) => SPost::Call(args.iter().map(shape).collect()),
                })
                .collect(),
        ),
    }
}

// ---------------------------------------------------------------------------------------------
// parenthesisation

fn wrap(need: u8, u: U) -> U {
    if level(&u) < need {
        U::Paren(b(u))
    } else {
        u
    }
}

/// How many parentheses to put around an operand beyond the needed ones.
trait Extra {
    fn extra(&mut self, operand: &U) -> u32;
}
struct NoExtra;
impl Extra for NoExtra {
    fn extra(&mut self, _: &U) -> u32 {
        0
    }
}
/// every operand that is not an atom gets one redundant pair
struct Full;
impl Extra for Full {
    fn extra(&mut self, operand: &U) -> u32 {
        if matches!(operand, U::Id(_) | U::Int(_) | U::Lit(..) | U::Paren(_)) {
            0
        } else {
            1
        }
    }
}
struct Rand<'a>(&'a mut Rng);
impl<'a> Extra for Rand<'a> {
    fn extra(&mut self, _: &U) -> u32 {
        match self.0.below(8) {
            0 | 1 => 1,
            2 => 2,
            _ => 0,
        }
    }
}

fn operand(need: u8, u: &U, x: &mut dyn Extra) -> U {
    let mut r = wrap(need, parenthesise(u, x));
    for _ in 0..x.extra(&r) {
        r = U::Paren(b(r));
    }
    r
}

/// Needed parentheses (a child looser than its position admits: left operand looser than the
/// operator, right operand not tighter, `?:` under `?:`'s condition/true branch, a non-primary under a
/// unary run or a postfix chain) plus the extra ones `x` asks for.
fn parenthesise(u: &U, x: &mut dyn Extra) -> U {
    match u {
        U::Id(_) | U::Int(_) | U::Lit(..) => u.clone(),
        U::List(es) => U::List(es.iter().map(|e| operand(0, e, x)).collect()),
        U::Paren(e) => U::Paren(b(parenthesise(e, x))),
        U::Not(n, e) => U::Not(*n, b(operand(7, e, x))),
        U::Neg(n, e) => U::Neg(*n, b(operand(7, e, x))),
        U::Bin(op, l, r) => U::Bin(*op, b(operand(op.level(), l, x)), b(operand(op.level() + 1, r, x))),
        U::Tern(c, t, f) => U::Tern(b(operand(1, c, x)), b(operand(1, t, x)), b(operand(0, f, x))),
        U::Post(base, chain) => {
            let mut base2 = parenthesise(base, x);
            if !is_primary(&base2) {
                base2 = U::Paren(b(base2));
            }
            for _ in 0..x.extra(&base2) {
                base2 = U::Paren(b(base2));
            }
            let chain2 = chain
                .iter()
                .map(|o| match o {
                    PostOp::Access(n) => PostOp::Access(n.clone()),
                    PostOp::Index(e) => PostOp::Index(operand(0, e, x)),
                    PostOp::Call(args) => PostOp::Call(args.iter().map(|a| operand(0, a, x)).collect()),
                })
                .collect();
            U::Post(b(base2), chain2)
        }
    }
}

// ---------------------------------------------------------------------------------------------
// printing

fn emit(u: &U, out: &mut Vec<String>) {
    match u {
        U::Id(n) => out.push(n.clone()),
        U::Int(n) => out.push(n.to_string()),
        U::Lit(s, _) => out.push(s.clone()),
        U::List(es) => {
            out.push("[".into());
            for (i, e) in es.iter().enumerate() {
                if i > 0 {
                    out.push(",".into())
                }
                emit(e, out)
            }
            out.push("]".into())
        }
        U::Paren(e) => {
            out.push("(".into());
            emit(e, out);
            out.push(")".into())
        }
        U::Not(n, e) => {
            for _ in 0..*n {
                out.push("!".into())
            }
            emit(e, out)
        }
        U::Neg(n, e) => {
            for _ in 0..*n {
                out.push("-".into())
            }
            emit(e, out)
        }
        U::Bin(op, l, r) => {
            emit(l, out);
            out.push(op.text().into());
            emit(r, out)
        }
        U::Tern(c, t, f) => {
            emit(c, out);
            out.push("?".into());
            emit(t, out);
            out.push(":".into());
            emit(f, out)
        }
        U::Post(base, chain) => {
            emit(base, out);
            for o in chain {
                match o {
                    PostOp::Access(n) => {
                        out.push(".".into());
                        out.push(n.clone())
                    }
                    PostOp::Index(e) => {
                        out.push("[".into());
                        emit(e, out);
                        out.push("]".into())
                    }
                    PostOp::Call(args) => {
                        out.push("(".into());
                        for (i, a) in args.iter().enumerate() {
                            if i > 0 {
                                out.push(",".into())
                            }
                            emit(a, out)
                        }
                        out.push(")".into())
                    }
                }
            }
        }
    }
}

fn wordy(c: char) -> bool {
    c.is_alphanumeric() || c == '_' || c == '\'' || c == '"'
}

/// Two tokens that would fuse (or lex differently) when written without a separator.
fn must_separate(a: &str, bb: &str) -> bool {
    let x = a.chars().last().unwrap_or(' ');
    let y = bb.chars().next().unwrap_or(' ');
    wordy(x) && wordy(y)
}

enum Ws<'a> {
    Tight,
    Single,
    Random(&'a mut Rng),
}

fn join(toks: &[String], ws: &mut Ws) -> String {
    let mut s = String::new();
    let blanks = [' ', '\t', '\n'];
    if let Ws::Random(r) = ws {
        for _ in 0..r.below(3) {
            s.push(*r.pick(&blanks))
        }
    }
    for (i, t) in toks.iter().enumerate() {
        if i > 0 {
            let need = must_separate(&toks[i - 1], t);
            match ws {
                Ws::Tight => {
                    if need {
                        s.push(' ')
                    }
                }
                Ws::Single => s.push(' '),
                Ws::Random(r) => {
                    let n = match r.below(6) {
                        0 | 1 => 0,
                        2 | 3 => 1,
                        4 => 2,
                        _ => 3,
                    };
                    let n = if need { n.max(1) } else { n };
                    for _ in 0..n {
                        s.push(*r.pick(&blanks))
                    }
                }
            }
        }
        s.push_str(t);
    }
    if let Ws::Random(r) = ws {
        for _ in 0..r.below(3) {
            s.push(*r.pick(&blanks))
        }
    }
    s
}

fn text_of(u: &U, ws: &mut Ws) -> String {
    let mut toks = Vec::new();
    emit(u, &mut toks);
    join(&toks, ws)
}

// ---------------------------------------------------------------------------------------------
// the real AST -> shape

fn count_run(v: &Value) -> u32 {
    let mut n = 0;
    let mut cur = v;
    loop {
        let node = &cur["node"];
        match node.get("List") {
            Some(l) => {
                n += 1;
                cur = &l["tail"];
            }
            None => return n,
        }
    }
}

fn rel_of(name: &str, lv: u8) -> Option<Op> {
    Some(match (lv, name) {
        (3, "Lt") => Op::Lt,
        (3, "Le") => Op::Le,
        (3, "Gt") => Op::Gt,
        (3, "Ge") => Op::Ge,
        (3, "Eq") => Op::Eq,
        (3, "Ne") => Op::Ne,
        (3, "In") => Op::In,
        (4, "Add") => Op::Add,
        (4, "Sub") => Op::Sub,
        (5, "Mult") => Op::Mul,
        (5, "Div") => Op::Div,
        (5, "Mod") => Op::Mod,
        _ => return None,
    })
}

/// `v` is an `AstNode` of the grammar type of level `lv` (0 Expr, 1 ConditionalOr, … 6 Unary, 7 Member).
fn ast_shape(v: &Value, lv: u8) -> S {
    let n = &v["node"];
    match lv {
        0 => {
            if let Some(t) = n.get("Ternary") {
                S::Tern(b(ast_shape(&t["condition"], 1)), b(ast_shape(&t["true_clause"], 1)), b(ast_shape(&t["false_clause"], 0)))
            } else if let Some(u) = n.get("Unary") {
                ast_shape(u, 1)
            } else {
                S::Other(n.to_string())
            }
        }
        1..=5 => {
            if let Some(bn) = n.get("Binary") {
                let op = match lv {
                    1 => Some(Op::Or),
                    2 => Some(Op::And),
                    _ => bn.get("op").and_then(|o| o.as_str()).and_then(|o| rel_of(o, lv)),
                };
                match op {
                    Some(op) => S::Bin(op, b(ast_shape(&bn["lhs"], lv)), b(ast_shape(&bn["rhs"], lv + 1))),
                    None => S::Other(n.to_string()),
                }
            } else if let Some(u) = n.get("Unary") {
                ast_shape(u, lv + 1)
            } else {
                S::Other(n.to_string())
            }
        }
        6 => {
            if let Some(m) = n.get("Member") {
                ast_shape(m, 7)
            } else if let Some(x) = n.get("NotMember") {
                S::Not(count_run(&x["nots"]), b(ast_shape(&x["member"], 7)))
            } else if let Some(x) = n.get("NegMember") {
                S::Neg(count_run(&x["negs"]), b(ast_shape(&x["member"], 7)))
            } else {
                S::Other(n.to_string())
            }
        }
        _ => {
            let p = &n["primary"]["node"];
            let prim = if let Some(name) = p.get("Ident").and_then(|x| x.as_str()) {
                S::Id(name.to_string())
            } else if let Some(e) = p.get("Parens") {
                ast_shape(e, 0)
            } else if let Some(l) = p.get("Literal") {
                S::Lit(l.clone())
            } else if let Some(l) = p.get("ListConstruction") {
                match l["node"]["exprs"].as_array() {
                    Some(es) => S::List(es.iter().map(|e| ast_shape(e, 0)).collect()),
                    None => S::Other(p.to_string()),
                }
            } else {
                S::Other(p.to_string())
            };
            let chain = n["member"].as_array().cloned().unwrap_or_default();
            if chain.is_empty() {
                return prim;
            }
            let ops = chain
                .iter()
                .map(|m| {
                    let mn = &m["node"];
                    if let Some(a) = mn.get("MemberAccess") {
                        SPost::Access(a["ident"]["node"].as_str().unwrap_or("?").to_string())
                    } else if let Some(a) = mn.get("ArrayAccess") {
                        SPost::Index(ast_shape(&a["access"], 0))
                    } else if let Some(c) = mn.get("Call") {
                        // the arguments are stored last to first
                        let args = c["call"]["node"]["exprs"].as_array().cloned().unwrap_or_default();
                        SPost::Call(args.iter().rev().map(|e| ast_shape(e, 0)).collect())
                    } else {
                        SPost::Access(format!("?{}", mn))
                    }
                })
                .collect();
            S::Post(b(prim), ops)
        }
    }
}

// ---------------------------------------------------------------------------------------------
// reference evaluation (ints, bools, int lists; everything else: unknown, not checked)

#[derive(Clone, Debug, PartialEq)]
enum V {
    I(i64),
    B(bool),
    L(Vec<i64>),
    Fail,
    Unk,
}

fn env_value(name: &str) -> V {
    match name {
        "a" => V::I(7),
        "b" => V::I(3),
        "c" => V::I(2),
        "d" => V::I(3),
        "e" => V::I(0),
        "p" => V::B(true),
        "q" => V::B(false),
        "l" => V::L(vec![1, 2, 3]),
        _ => V::Unk,
    }
}

fn bindings() -> Vec<(String, CelValue)> {
    let mut inner = std::collections::HashMap::new();
    inner.insert("k".to_string(), CelValue::Int(4));
    vec![
        ("a".into(), CelValue::Int(7)),
        ("b".into(), CelValue::Int(3)),
        ("c".into(), CelValue::Int(2)),
        ("d".into(), CelValue::Int(3)),
        ("e".into(), CelValue::Int(0)),
        ("p".into(), CelValue::Bool(true)),
        ("q".into(), CelValue::Bool(false)),
        ("l".into(), CelValue::List(vec![CelValue::Int(1), CelValue::Int(2), CelValue::Int(3)])),
        ("m".into(), CelValue::Map(inner)),
    ]
}

fn truthy(v: &V) -> Option<bool> {
    match v {
        V::I(i) => Some(*i != 0),
        V::B(x) => Some(*x),
        V::L(l) => Some(!l.is_empty()),
        _ => None,
    }
}

fn eval(s: &S) -> V {
    match s {
        S::Id(n) => env_value(n),
        S::Lit(v) => {
            if let Some(i) = v.get("IntegerLit").and_then(|x| x.as_i64()) {
                V::I(i)
            } else if let Some(x) = v.get("BooleanLit").and_then(|x| x.as_bool()) {
                V::B(x)
            } else {
                V::Unk
            }
        }
        S::List(es) => {
            let mut out = Vec::new();
            for e in es {
                match eval(e) {
                    V::I(i) => out.push(i),
                    _ => return V::Unk,
                }
            }
            V::L(out)
        }
        S::Not(n, e) => match eval(e) {
            V::Fail => V::Fail,
            v => match truthy(&v) {
                Some(t) => V::B(if n % 2 == 1 { !t } else { t }),
                None => V::Unk,
            },
        },
        S::Neg(n, e) => match eval(e) {
            V::Fail => V::Fail,
            V::I(mut i) => {
                for _ in 0..*n {
                    match i.checked_neg() {
                        Some(x) => i = x,
                        None => return V::Fail,
                    }
                }
                V::I(i)
            }
            _ => V::Unk,
        },
        // `a || b`: true when either side is truthy (even if the other fails), otherwise a failing side fails
        S::Bin(Op::Or, l, r) => {
            let (a, c) = (eval(l), eval(r));
            let (ta, tc) = (truthy(&a), truthy(&c));
            if ta == Some(true) {
                V::B(true) // b is not evaluated
            } else if a == V::Unk {
                V::Unk // might be an error that ends the program rather than a failed operand
            } else if tc == Some(true) {
                V::B(true)
            } else if c == V::Unk {
                V::Unk
            } else if a == V::Fail || c == V::Fail {
                V::Fail
            } else {
                V::B(false)
            }
        }
        // `a && b`: b is not evaluated when a is falsy or fails; a failing operand that is evaluated fails
        S::Bin(Op::And, l, r) => {
            let a = eval(l);
            match truthy(&a) {
                None => a, // Fail or Unk
                Some(false) => V::B(false),
                Some(true) => {
                    let c = eval(r);
                    match truthy(&c) {
                        None => c,
                        Some(t) => V::B(t),
                    }
                }
            }
        }
        S::Bin(op, l, r) => {
            let (a, c) = (eval(l), eval(r));
            if a == V::Unk || c == V::Unk {
                return V::Unk;
            }
            if a == V::Fail || c == V::Fail {
                return V::Fail;
            }
            match (op, &a, &c) {
                (Op::Add, V::I(x), V::I(y)) => x.checked_add(*y).map(V::I).unwrap_or(V::Fail),
                (Op::Sub, V::I(x), V::I(y)) => x.checked_sub(*y).map(V::I).unwrap_or(V::Fail),
                (Op::Mul, V::I(x), V::I(y)) => x.checked_mul(*y).map(V::I).unwrap_or(V::Fail),
                (Op::Div, V::I(x), V::I(y)) => x.checked_div(*y).map(V::I).unwrap_or(V::Fail),
                (Op::Mod, V::I(x), V::I(y)) => x.checked_rem(*y).map(V::I).unwrap_or(V::Fail),
                (Op::Lt, V::I(x), V::I(y)) => V::B(x < y),
                (Op::Le, V::I(x), V::I(y)) => V::B(x <= y),
                (Op::Gt, V::I(x), V::I(y)) => V::B(x > y),
                (Op::Ge, V::I(x), V::I(y)) => V::B(x >= y),
                (Op::Eq, V::I(x), V::I(y)) => V::B(x == y),
                (Op::Ne, V::I(x), V::I(y)) => V::B(x != y),
                (Op::Eq, V::B(x), V::B(y)) => V::B(x == y),
                (Op::Ne, V::B(x), V::B(y)) => V::B(x != y),
                (Op::In, V::I(x), V::L(y)) => V::B(y.contains(x)),
                _ => V::Unk,
            }
        }
        S::Tern(c, t, f) => match eval(c) {
            V::Fail => V::Fail,
            v => match truthy(&v) {
                Some(true) => eval(t),
                Some(false) => eval(f),
                None => V::Unk,
            },
        },
        S::Post(..) | S::Other(_) => V::Unk,
    }
}

fn show_v(v: &V) -> Option<String> {
    match v {
        V::I(i) => Some(format!("i:{}", i)),
        V::B(x) => Some(if *x { "b:1".into() } else { "b:0".into() }),
        V::L(l) => Some(format!("l:{}{}", l.len(), l.iter().map(|i| format!(" i:{}", i)).collect::<String>())),
        V::Fail => Some("E".into()),
        V::Unk => None,
    }
}

// ---------------------------------------------------------------------------------------------
// tree <-> wire for the model's `c02spec` command (operator skeleton only)

fn spec_wire(u: &U, out: &mut Vec<String>) -> bool {
    match u {
        U::Id(n) => {
            out.push(format!("I{}", hex(n.as_bytes())));
            true
        }
        U::Int(n) => {
            out.push(format!("N{}", n));
            true
        }
        U::Paren(e) => {
            out.push("P".into());
            spec_wire(e, out)
        }
        U::Not(n, e) => {
            out.push(format!("!{}", n));
            spec_wire(e, out)
        }
        U::Neg(n, e) => {
            out.push(format!("-{}", n));
            spec_wire(e, out)
        }
        U::Bin(op, l, r) => {
            out.push(format!("B{}", op.wire()));
            spec_wire(l, out) && spec_wire(r, out)
        }
        U::Tern(c, t, f) => {
            out.push("?".into());
            spec_wire(c, out) && spec_wire(t, out) && spec_wire(f, out)
        }
        U::Post(base, chain) => {
            // prefix form: the last operation of the chain is the outermost node
            let mut ok = true;
            for o in chain.iter().rev() {
                match o {
                    PostOp::Access(n) => out.push(format!("A{}", hex(n.as_bytes()))),
                    PostOp::Index(_) => out.push("X".into()),
                    PostOp::Call(args) if args.len() <= 2 => out.push(format!("C{}", args.len())),
                    PostOp::Call(_) => {
                        out.push("C9".into());
                        ok = false
                    }
                }
            }
            ok = spec_wire(base, out) && ok;
            for o in chain.iter() {
                match o {
                    PostOp::Access(_) => {}
                    PostOp::Index(e) => ok = spec_wire(e, out) && ok,
                    PostOp::Call(args) => {
                        for a in args {
                            ok = spec_wire(a, out) && ok
                        }
                    }
                }
            }
            ok
        }
        U::Lit(..) | U::List(_) => false,
    }
}

// ---------------------------------------------------------------------------------------------
// work items

#[derive(Clone)]
enum Item {
    /// operands `a b c d` with a unary prefix each, separated by operators / one `?:`
    Flat { ops: Vec<Sep>, pre: Vec<u8>, literal: bool },
    Tree { u: U, seed: u64, typed: bool },
    Raw(String),
}

#[derive(Clone, Copy, PartialEq, Debug)]
enum Sep {
    Op(Op),
    Quest,
    Colon,
}

const PREFIXES: [&str; 5] = ["", "!", "!!", "-", "--"];
const NAMES: [&str; 4] = ["a", "b", "c", "d"];
// b = d on purpose: `<=`/`>=`/`==` differ from `<`/`>`/`!=` only on equal operands
const LITS: [u64; 4] = [7, 3, 2, 3];

fn prefixed(i: usize, pre: u8, literal: bool) -> U {
    let atom = if literal { U::Int(LITS[i]) } else { U::Id(NAMES[i].to_string()) };
    match pre {
        1 => U::Not(1, b(atom)),
        2 => U::Not(2, b(atom)),
        3 => U::Neg(1, b(atom)),
        4 => U::Neg(2, b(atom)),
        _ => atom,
    }
}

/// The tree the CEL grammar assigns to `x0 op1 x1 … opn xn`: split at the last operator of the loosest
/// level (equal levels group to the left), recursively.
fn build_binary(xs: &[U], ops: &[Op]) -> U {
    if ops.is_empty() {
        return xs[0].clone();
    }
    let lo = ops.iter().map(|o| o.level()).min().unwrap();
    let k = ops.iter().rposition(|o| o.level() == lo).unwrap();
    U::Bin(ops[k], b(build_binary(&xs[..=k], &ops[..k])), b(build_binary(&xs[k + 1..], &ops[k + 1..])))
}

fn only_ops(seps: &[Sep]) -> Vec<Op> {
    seps.iter().filter_map(|s| if let Sep::Op(o) = s { Some(*o) } else { None }).collect()
}

/// With one `?:`: everything before `?` is the condition, between `?` and `:` the true branch,
/// after `:` the else branch (`?:` binds loosest).
fn build_flat(xs: &[U], seps: &[Sep]) -> U {
    match seps.iter().position(|s| *s == Sep::Quest) {
        None => build_binary(xs, &only_ops(seps)),
        Some(q) => {
            let c = seps.iter().position(|s| *s == Sep::Colon).unwrap();
            U::Tern(
                b(build_binary(&xs[..=q], &only_ops(&seps[..q]))),
                b(build_binary(&xs[q + 1..=c], &only_ops(&seps[q + 1..c]))),
                b(build_binary(&xs[c + 1..], &only_ops(&seps[c + 1..]))),
            )
        }
    }
}

fn flat_text(ops: &[Sep], pre: &[u8], literal: bool) -> String {
    let mut s = String::new();
    for i in 0..pre.len() {
        if i > 0 {
            s.push(' ');
            s.push_str(match ops[i - 1] {
                Sep::Op(o) => o.text(),
                Sep::Quest => "?",
                Sep::Colon => ":",
            });
            s.push(' ');
        }
        // the text is written token by token, never from the tree
        let p = PREFIXES[pre[i] as usize];
        for (j, ch) in p.chars().enumerate() {
            if j > 0 {
                s.push(' ');
            }
            s.push(ch);
        }
        if !p.is_empty() {
            s.push(' ');
        }
        if literal {
            s.push_str(&LITS[i].to_string())
        } else {
            s.push_str(NAMES[i])
        }
    }
    s
}

// ---------------------------------------------------------------------------------------------
// random trees

struct TreeGen<'a> {
    r: &'a mut Rng,
}

impl<'a> TreeGen<'a> {
    fn atom(&mut self) -> U {
        match self.r.below(16) {
            0..=8 => U::Id(self.r.pick(&["a", "b", "c", "d", "e", "p", "q", "l"]).to_string()),
            9..=11 => U::Int(self.r.below(10) as u64),
            12 => U::Lit("true".into(), json!({"BooleanLit": true})),
            13 => U::Lit("2u".into(), json!({"UnsignedLit": 2})),
            14 => U::Lit("'s'".into(), json!({"StringLit": "s"})),
            _ => match self.r.below(3) {
                0 => U::Lit("null".into(), json!("NullLit")),
                1 => U::Lit("1.5".into(), json!({"FloatingLit": format!("{:016x}", 1.5f64.to_bits())})),
                _ => U::Int(i64::MAX as u64),
            },
        }
    }

    /// any operator anywhere
    fn any(&mut self, depth: u32) -> U {
        if depth == 0 || self.r.below(7) == 0 {
            return self.atom();
        }
        match self.r.below(20) {
            0..=10 => {
                let op = *self.r.pick(&OPS);
                // lean left or right on purpose: chains are where associativity shows
                let (dl, dr) = match self.r.below(3) {
                    0 => (depth - 1, self.r.below(depth as usize) as u32),
                    1 => (self.r.below(depth as usize) as u32, depth - 1),
                    _ => (depth - 1, depth - 1),
                };
                U::Bin(op, b(self.any(dl)), b(self.any(dr)))
            }
            11 | 12 => U::Tern(b(self.any(depth - 1)), b(self.any(depth / 2)), b(self.any(depth - 1))),
            13 | 14 => U::Not(1 + self.r.below(3) as u32, b(self.any(depth - 1))),
            15 | 16 => U::Neg(1 + self.r.below(3) as u32, b(self.any(depth - 1))),
            17 => {
                let n = self.r.below(3);
                U::List((0..n).map(|_| self.any(depth / 2)).collect())
            }
            _ => self.post(depth),
        }
    }

    fn post(&mut self, depth: u32) -> U {
        let base = match self.r.below(4) {
            0 => U::Id("m".into()),
            1 => U::Id("l".into()),
            2 => U::Id(self.r.pick(&["size", "max", "min", "f"]).to_string()),
            _ => {
                let x = self.any(depth / 2);
                // a chain directly on a chain is one chain; numbers keep their distance from `.`
                match x {
                    U::Post(..) | U::Int(_) | U::Lit(..) => U::Id("m".into()),
                    x => x,
                }
            }
        };
        let n = 1 + self.r.below(3);
        let mut chain = Vec::new();
        for _ in 0..n {
            chain.push(match self.r.below(3) {
                0 => PostOp::Access(self.r.pick(&["k", "size", "f", "a"]).to_string()),
                1 => PostOp::Index(self.any(depth / 2)),
                _ => {
                    let k = self.r.below(4);
                    PostOp::Call((0..k).map(|_| self.any(depth / 2)).collect())
                }
            });
        }
        U::Post(b(base), chain)
    }

    /// well-typed over ints and bools so that grouping decides the value
    fn int(&mut self, depth: u32) -> U {
        if depth == 0 || self.r.below(6) == 0 {
            return match self.r.below(4) {
                0 => U::Int(self.r.below(10) as u64),
                _ => U::Id(self.r.pick(&["a", "b", "c", "d", "e"]).to_string()),
            };
        }
        match self.r.below(12) {
            0..=8 => {
                let op = *self.r.pick(&[Op::Add, Op::Sub, Op::Sub, Op::Mul, Op::Div, Op::Div, Op::Mod]);
                let (dl, dr) = if self.r.below(2) == 0 { (depth - 1, depth / 2) } else { (depth / 2, depth - 1) };
                U::Bin(op, b(self.int(dl)), b(self.int(dr)))
            }
            9 => U::Neg(1 + self.r.below(2) as u32, b(self.int(depth - 1))),
            _ => U::Tern(b(self.boolean(depth / 2)), b(self.int(depth - 1)), b(self.int(depth - 1))),
        }
    }

    fn boolean(&mut self, depth: u32) -> U {
        if depth == 0 || self.r.below(8) == 0 {
            return U::Id(self.r.pick(&["p", "q"]).to_string());
        }
        match self.r.below(12) {
            0..=3 => {
                let op = *self.r.pick(&[Op::Lt, Op::Le, Op::Gt, Op::Ge, Op::Eq, Op::Ne]);
                U::Bin(op, b(self.int(depth - 1)), b(self.int(depth - 1)))
            }
            4 => U::Bin(*self.r.pick(&[Op::Eq, Op::Ne]), b(self.boolean(depth - 1)), b(self.boolean(depth / 2))),
            5 => U::Bin(Op::In, b(self.int(depth - 1)), b(U::Id("l".into()))),
            6 | 7 => U::Bin(Op::Or, b(self.boolean(depth - 1)), b(self.boolean(depth - 1))),
            8 | 9 => U::Bin(Op::And, b(self.boolean(depth - 1)), b(self.boolean(depth - 1))),
            10 => U::Not(1 + self.r.below(2) as u32, b(self.boolean(depth - 1))),
            _ => U::Tern(b(self.boolean(depth / 2)), b(self.boolean(depth - 1)), b(self.boolean(depth - 1))),
        }
    }
}

/// Replace the bound identifiers by literals of the same value (the compile-time folder then sees constants).
fn literalise(u: &U) -> U {
    let f = |x: &U| b(literalise(x));
    match u {
        U::Id(n) => match env_value(n) {
            V::I(i) => U::Int(i as u64),
            V::B(x) => U::Lit(x.to_string(), json!({ "BooleanLit": x })),
            V::L(l) => U::List(l.iter().map(|i| U::Int(*i as u64)).collect()),
            _ => u.clone(),
        },
        U::Int(_) | U::Lit(..) => u.clone(),
        U::List(es) => U::List(es.iter().map(literalise).collect()),
        U::Paren(e) => U::Paren(f(e)),
        U::Not(n, e) => U::Not(*n, f(e)),
        U::Neg(n, e) => U::Neg(*n, f(e)),
        U::Bin(op, l, r) => U::Bin(*op, f(l), f(r)),
        U::Tern(c, t, e) => U::Tern(f(c), f(t), f(e)),
        U::Post(..) => u.clone(),
    }
}

// ---------------------------------------------------------------------------------------------
// checking one source text

struct Checked {
    exec: Option<String>,
}

/// Shape oracle + model requests for one text whose expected shape is `want`.
fn check_text(rep: &mut Report, pending: &mut Vec<Pending>, src: &str, want: &S, with_exec: bool, to_model: (bool, bool), kind: &str) -> Checked {
    let (with_parse, also_list) = to_model;
    let (obs, val) = ast_obs_value(src);
    rep.count(Some(src));
    rep.bump(&format!("text:{}", kind));
    if obs == "P" {
        rep.oracle_fail(src, "P", &format!("{:?}", want), "the parser panicked");
    } else {
        match val {
            None => rep.oracle_fail(src, &obs, &format!("{:?}", want), "a rendering of an operator tree was rejected (or has no syntax tree)"),
            Some(v) => {
                let got = ast_shape(&v, 0);
                if &got != want {
                    rep.oracle_fail(
                        src,
                        &format!("{:?}", got),
                        &format!("{:?}", want),
                        "the syntax tree (spans, wrapper nodes and Parens dropped) is not the tree the CEL precedence/associativity rules assign",
                    );
                }
            }
        }
    }
    if with_parse {
        pending.push(Pending { request: format!("parse {}", hex(src.as_bytes())), implementation: obs.clone(), level: 5, input: format!("AST of: {}", src) });
    }
    if also_list {
        pending.push(Pending {
            request: format!("parselist {}", hex(src.as_bytes())),
            implementation: obs.clone(),
            level: 5,
            input: format!("AST (token-list parser of the theorems) of: {}", src),
        });
    }
    let exec = if with_exec {
        let binds = bindings();
        let out = exec_src(src, &binds);
        if out == "P" {
            rep.oracle_fail(src, "P", "value or error", "compile/evaluate panicked");
        }
        Some(out)
    } else {
        None
    };
    Checked { exec }
}

fn check_value(rep: &mut Report, src: &str, got: &str, want: &S) {
    let v = eval(want);
    match show_v(&v) {
        Some(w) => {
            rep.bump(if w == "E" { "value:fails" } else { "value:known" });
            if l1(got) != w {
                rep.oracle_fail(src, got, &w, "the result is not the value of the tree the grammar assigns (operands grouped or ordered differently)");
            }
        }
        None => rep.bump("value:not-predicted"),
    }
}

fn queue_exec(pending: &mut Vec<Pending>, src: &str, got: &str) {
    let binds = bindings();
    pending.push(Pending {
        request: format!("exec {} {}", crate::api::env_wire(&[], &binds, &[]), hex(src.as_bytes())),
        implementation: format!("{} L:0", got),
        level: 3,
        input: src.to_string(),
    });
}

fn queue_spec(rep: &mut Report, pending: &mut Vec<Pending>, u: &U, min_text_single: &str, min_nest: u32) {
    let mut w = Vec::new();
    if spec_wire(u, &mut w) {
        rep.bump(if w.iter().any(|t| t.starts_with('A') || t.starts_with('X') || t.starts_with('C')) { "spec:with-postfix" } else { "spec:operators-only" });
        pending.push(Pending {
            request: format!("c02spec {}", w.join(" ")),
            implementation: format!("W{} D{} {}", if wf(u) { 1 } else { 0 }, min_nest, hex(min_text_single.as_bytes())),
            level: 9,
            input: format!("spec functions (derivability, nesting, minimal rendering) of the tree {:?}", u),
        });
    }
}

fn do_item(rep: &mut Report, pending: &mut Vec<Pending>, item: &Item, idx: usize, thorough: bool) {
    match item {
        Item::Flat { ops, pre, literal } => {
            let xs: Vec<U> = (0..pre.len()).map(|i| prefixed(i, pre[i], *literal)).collect();
            let want_u = build_flat(&xs, ops);
            let want = shape(&want_u);
            let src = flat_text(ops, pre, *literal);
            let n_ops = ops.len();
            let tern = ops.contains(&Sep::Quest);
            rep.bump(&format!("flat:{}{}", n_ops, if tern { "+?:" } else { "" }));
            for s in ops {
                if let Sep::Op(o) = s {
                    rep.bump(&format!("op:{}", o.text()))
                }
            }
            let with_model_exec = idx % 16 == 0;
            // the oracle runs on every sequence; in the thorough tier the model is asked about every second triple
            let sparse = thorough && n_ops >= 3 && !tern;
            let c = check_text(rep, pending, &src, &want, true, (!sparse || idx % 2 == 0, idx % (if sparse { 8 } else { 4 }) == 0), "flat");
            if let Some(got) = &c.exec {
                check_value(rep, &src, got, &want);
                if with_model_exec {
                    queue_exec(pending, &src, got);
                }
            }
            // the flat text has no parentheses: it must be the minimal rendering of its tree
            if idx % (if sparse { 8 } else { 4 }) == 1 {
                queue_spec(rep, pending, &want_u, &src, nest(&want_u));
            }
            rep.sample(json!({"src": src, "expected_shape": format!("{:?}", want), "result": c.exec}));
        }
        Item::Tree { u, seed, typed } => {
            let mut rng = Rng::new(*seed);
            let u2 = if rng.below(4) == 0 { literalise(u) } else { u.clone() };
            let want = shape(&u2);
            let m = parenthesise(&u2, &mut NoExtra);
            let f = parenthesise(&u2, &mut Full);
            let r = {
                let mut x = Rand(&mut rng);
                parenthesise(&u2, &mut x)
            };
            rep.bump(if *typed { "tree:typed" } else { "tree:any-operator" });
            if !wf(&m) || !wf(&f) || !wf(&r) {
                rep.notes.push(format!("harness: a parenthesisation is not a derivation: {:?}", u2));
            }
            let t_min = text_of(&m, &mut Ws::Tight);
            let t_min_single = text_of(&m, &mut Ws::Single);
            let t_full = text_of(&f, &mut Ws::Single);
            let t_rand = text_of(&r, &mut Ws::Random(&mut rng));
            let mut results: Vec<(String, String)> = Vec::new();
            for (kind, text, tree) in [("min", &t_min, &m), ("full", &t_full, &f), ("random", &t_rand, &r)] {
                if nest(tree) + 1 > 32 {
                    // beyond the parser's nesting limit: a bound of the implementation, not of the property
                    rep.bump("over-nesting-limit");
                    pending.push(Pending {
                        request: format!("parse {}", hex(text.as_bytes())),
                        implementation: ast_obs(text),
                        level: 5,
                        input: format!("AST of: {}", text),
                    });
                    continue;
                }
                let c = check_text(rep, pending, text, &want, true, (true, kind == "random"), kind);
                if let Some(got) = c.exec {
                    check_value(rep, text, &got, &want);
                    results.push((text.clone(), got));
                }
            }
            for w in results.windows(2) {
                if l1(&w[0].1) != l1(&w[1].1) {
                    rep.oracle_fail(
                        &format!("{}   vs   {}", w[0].0, w[1].0),
                        &format!("{} vs {}", w[0].1, w[1].1),
                        "equal results",
                        "two parenthesisations/whitespace layouts of one operator tree evaluate differently",
                    );
                }
            }
            if let Some((t, got)) = results.first() {
                if idx % 4 == 0 {
                    queue_exec(pending, t, got);
                }
            }
            queue_spec(rep, pending, &u2, &t_min_single, nest(&m));
            // the tree as it stands, without adding parentheses: when it is a derivation the parser must
            // return it, too (right-leaning trees are not: their text belongs to another tree)
            if wf(&u2) {
                rep.bump("tree:derivation-as-is")
            } else {
                rep.bump("tree:needs-parentheses")
            }
            rep.sample(json!({"tree": format!("{:?}", want), "min": t_min, "full": t_full, "random": t_rand, "results": results}));
        }
        Item::Raw(src) => {
            let obs = ast_obs(src);
            rep.count(Some(src));
            rep.bump(if obs == "E" { "malformed:rejected" } else { "malformed:accepted" });
            if obs == "P" {
                rep.oracle_fail(src, "P", "syntax tree or syntax error", "the parser panicked");
            }
            pending.push(Pending { request: format!("parse {}", hex(src.as_bytes())), implementation: obs.clone(), level: 5, input: format!("AST of: {}", src) });
            pending.push(Pending { request: format!("parselist {}", hex(src.as_bytes())), implementation: obs, level: 5, input: format!("AST (token-list parser) of: {}", src) });
        }
    }
}

// ---------------------------------------------------------------------------------------------
// parallel driver: each worker takes chunks, asks its own model process, diffs, drops the answers

fn run_items(opts: &Opts, items: &[Item], rep: &mut Report) {
    let chunk = 2000usize;
    let n_chunks = (items.len() + chunk - 1) / chunk;
    let next = AtomicUsize::new(0);
    let threads = std::thread::available_parallelism().map(|n| n.get()).unwrap_or(4).min(16).max(1);
    let parts: Vec<Report> = std::thread::scope(|sc| {
        let handles: Vec<_> = (0..threads)
            .map(|_| {
                sc.spawn(|| {
                    let mut local = Report::new("C02", "");
                    loop {
                        let c = next.fetch_add(1, Ordering::SeqCst);
                        if c >= n_chunks {
                            break;
                        }
                        let lo = c * chunk;
                        let hi = (lo + chunk).min(items.len());
                        let mut pending = Vec::new();
                        for i in lo..hi {
                            do_item(&mut local, &mut pending, &items[i], i, opts.thorough);
                        }
                        let reqs: Vec<String> = pending.iter().map(|p| p.request.clone()).collect();
                        local.model_requests += reqs.len() as u64;
                        match run_model(&opts.driver, &reqs) {
                            Ok(ans) => local.compare_answers(&pending, &ans),
                            Err(e) => local.model_error = Some(e),
                        }
                    }
                    local
                })
            })
            .collect();
        handles.into_iter().map(|h| h.join().expect("worker panicked")).collect()
    });
    for p in parts {
        rep.merge(p);
    }
}

fn flat_items(n: usize, thorough: bool, rng: &mut Rng, items: &mut Vec<Item>) {
    // binary operators only
    let total_ops = 14usize.pow(n as u32);
    let total_pre = 5usize.pow(n as u32 + 1);
    let exhaustive = n <= 2 || thorough;
    let mut push = |oi: usize, pi: usize, literal: bool, items: &mut Vec<Item>| {
        let mut ops = Vec::new();
        let mut x = oi;
        for _ in 0..n {
            ops.push(Sep::Op(OPS[x % 14]));
            x /= 14;
        }
        let mut pre = Vec::new();
        let mut y = pi;
        for _ in 0..=n {
            pre.push((y % 5) as u8);
            y /= 5;
        }
        items.push(Item::Flat { ops, pre, literal });
    };
    if exhaustive {
        for oi in 0..total_ops {
            for pi in 0..total_pre {
                push(oi, pi, false, items);
            }
        }
        // literal operands (constant folder): every operator sequence, prefixes sampled
        for oi in 0..total_ops {
            for _ in 0..(if n <= 1 { 25 } else { 3 }) {
                push(oi, rng.below(total_pre), true, items);
            }
        }
    } else {
        // every operator triple at least once, then random ones
        for oi in 0..total_ops {
            push(oi, rng.below(total_pre), false, items);
            push(oi, 0, false, items);
        }
        for _ in 0..14_000 {
            push(rng.below(total_ops), rng.below(total_pre), rng.below(5) == 0, items);
        }
    }
}

fn tern_items(thorough: bool, rng: &mut Rng, items: &mut Vec<Item>) {
    // every placement of one ?: among up to 3 separators
    let placements: Vec<(usize, Vec<(usize, usize)>)> = vec![(2, vec![(0, 1)]), (3, vec![(0, 1), (0, 2), (1, 2)])];
    for (n, ps) in placements {
        for (q, c) in ps {
            let free = n - 2;
            let total_ops = 14usize.pow(free as u32);
            let total_pre = 5usize.pow(n as u32 + 1);
            for oi in 0..total_ops {
                let pres: Vec<usize> = if thorough || n == 2 {
                    (0..total_pre).collect()
                } else {
                    let mut v: Vec<usize> = (0..40).map(|_| rng.below(total_pre)).collect();
                    v.push(0);
                    v
                };
                for pi in pres {
                    let mut ops = Vec::new();
                    let mut x = oi;
                    for i in 0..n {
                        if i == q {
                            ops.push(Sep::Quest)
                        } else if i == c {
                            ops.push(Sep::Colon)
                        } else {
                            ops.push(Sep::Op(OPS[x % 14]));
                            x /= 14;
                        }
                    }
                    let mut pre = Vec::new();
                    let mut y = pi;
                    for _ in 0..=n {
                        pre.push((y % 5) as u8);
                        y /= 5;
                    }
                    items.push(Item::Flat { ops, pre, literal: false });
                }
            }
        }
    }
}

fn malformed(rng: &mut Rng, n: usize, items: &mut Vec<Item>) {
    let fixed = [
        "", " ", "!-a", "-!a", "!", "-", "a ?", "a ? b", "a ? b :", "a ? b : ", "a b", "a +", "+ a", "a + * b", "a || || b", "(a", "a)", "((a)", "a ? b ? c : d : e",
        "a ? b : c : d", "a < ", "a in", "in a", "a ! b", "a !! b", "a - - - b", "a ? : b", "()", "(a)(b)", "a.(b)", "a..b", "a.1", "a[", "a[]", "a[1", "a(,)", "a(b,)",
        "a(,b)", "-9223372036854775808", "- 9223372036854775808", "-(9223372036854775808)", "9223372036854775808", "--9223372036854775808", "a ?? b", "a ?: b", "a = b",
        "a & b", "a | b", "a <> b", "a =< b", "a === b", "a ! = b", "a < = b", "a & & b", "! ! a", "a\t+\nb", "a+b;", "a in b in c", "1 2", "a ? b : c ? d",
    ];
    for s in fixed.iter() {
        items.push(Item::Raw(s.to_string()));
    }
    let alphabet = [
        "a", "b", "1", "(", ")", "!", "-", "+", "*", "/", "%", "<", "<=", "==", "!=", ">", ">=", "in", "&&", "||", "?", ":", ".", "[", "]", ",", " ",
    ];
    for _ in 0..n {
        let mut g = TreeGen { r: rng };
        let u = g.any(4);
        let m = parenthesise(&u, &mut NoExtra);
        let mut toks = Vec::new();
        emit(&m, &mut toks);
        match rng.below(4) {
            0 if !toks.is_empty() => {
                let k = rng.below(toks.len());
                toks.remove(k);
            }
            1 => {
                let k = rng.below(toks.len() + 1);
                toks.insert(k, rng.pick(&alphabet).to_string());
            }
            2 if toks.len() >= 2 => {
                let k = rng.below(toks.len() - 1);
                toks.swap(k, k + 1);
            }
            _ => {
                let k = rng.below(toks.len().max(1));
                if k < toks.len() {
                    toks[k] = rng.pick(&alphabet).to_string();
                }
            }
        }
        items.push(Item::Raw(join(&toks, &mut Ws::Single)));
    }
}

pub fn run(opts: &Opts) -> Report {
    let mut rep = Report::new(
        "C02",
        "flat sequences `x0 op x1 …` over the 14 binary operators with a unary prefix ('', !, !!, -, --) on every operand: all with 1 and 2 operators, all (thorough) / every operator triple + a sample (quick) with 3, every placement of one ?: among them; the expected tree is computed from the level table of the property text. Random operator trees (any operator anywhere incl. postfix chains, list literals, other literals; and well-typed int/bool trees) to depth 10 rendered with minimal, full and random parentheses and random blanks/tabs/newlines: real Program::ast() with spans/wrappers/Parens dropped must be the tree, results of all renderings equal and equal to a reference evaluation; malformed token streams (no panic, same accept/reject as the model). Model: AST with spans (lazy parser on every text, in the thorough tier on every second 3-operator sequence; token-list parser on a fixed fraction), exec result, and the spec functions of the theorems (derivability, nesting, minimal rendering) against the harness's own. Non-trivial = distinct source text",
    );
    let mut rng = Rng::new(opts.seed ^ 0xC02);
    let mut items: Vec<Item> = Vec::new();
    flat_items(1, opts.thorough, &mut rng, &mut items);
    flat_items(2, opts.thorough, &mut rng, &mut items);
    flat_items(3, opts.thorough, &mut rng, &mut items);
    tern_items(opts.thorough, &mut rng, &mut items);
    let n_flat = items.len();
    let n_trees = if opts.thorough { 120_000 } else { 6_000 };
    for i in 0..n_trees {
        let seed = rng.next_u64();
        let mut r2 = Rng::new(seed ^ 0x7ee);
        let depth = 1 + (i % 10) as u32;
        let typed = i % 3 == 0;
        let mut g = TreeGen { r: &mut r2 };
        let u = if typed {
            if i % 2 == 0 {
                g.int(depth.min(8))
            } else {
                g.boolean(depth.min(8))
            }
        } else {
            g.any(depth)
        };
        items.push(Item::Tree { u, seed, typed });
    }
    // boundary: operand chains and runs right at the nesting limit, long left/right chains
    for n in [1usize, 2, 30, 31, 32, 33] {
        let mut u = U::Id("a".into());
        for _ in 0..n {
            u = U::Paren(b(u));
        }
        items.push(Item::Raw(text_of(&u, &mut Ws::Tight)));
        items.push(Item::Raw(format!("{}a", "!".repeat(n))));
        items.push(Item::Raw(format!("{}a", "-".repeat(n))));
        items.push(Item::Raw(format!("{}a", "p ? q : ".repeat(n))));
    }
    for op in OPS.iter() {
        // 200 operators of one level in a row: a loop, not recursion
        let xs: Vec<U> = (0..201).map(|i| U::Id(NAMES[i % 4].to_string())).collect();
        let ops: Vec<Op> = (0..200).map(|_| *op).collect();
        let u = build_binary(&xs, &ops);
        items.push(Item::Tree { u, seed: 5, typed: false });
    }
    malformed(&mut rng, if opts.thorough { 40_000 } else { 3_000 }, &mut items);
    rep.bump(&format!("items:flat:{}", n_flat));
    rep.bump(&format!("items:total:{}", items.len()));
    rep.exhaustive = true;
    run_items(opts, &items, &mut rep);
    // `a != b` is the negation of `a == b` with the operands in the written order, also for values the caller wrapped
    {
        use crate::facets::dynwrap as dw;
        let vals = dw::scalars();
        dw::complement_with_one_sided(&mut rep);
        dw::transparency(&mut rep, "operand order", &["a != b", "!(a == b)", "b != a", "a != b == false", "a == b != true"], &vals, &vals);
    }
    equivalence_groups(opts, &mut rep);
    rep
}

/// Spellings that differ only in whitespace or in parentheses agreeing with the grammar must evaluate alike — also at
/// the places where the compiler treats a token sequence specially (the smallest int literal behind a unary minus,
/// runs of unary operators) and for operands on which the operator fails (model-free: real code against real code).
fn equivalence_groups(opts: &Opts, rep: &mut Report) {
    let binds: Vec<(String, CelValue)> = vec![
        ("lo".into(), CelValue::Int(i64::MIN)),
        ("u".into(), CelValue::UInt(5)),
        ("s".into(), CelValue::String("abc".into())),
        ("t".into(), CelValue::Bool(true)),
        ("l".into(), CelValue::List(vec![CelValue::Int(1)])),
        ("i".into(), CelValue::Int(19)),
        ("d".into(), CelValue::Float(2.5)),
        ("z".into(), CelValue::Int(0)),
        ("h".into(), CelValue::Float(0.1)),
        ("m1".into(), CelValue::Int(-1)),
    ];
    let mut groups: Vec<Vec<String>> = vec![
        vec!["-9223372036854775808".into(), "- 9223372036854775808".into(), "-\n9223372036854775808".into(), "-\t 9223372036854775808".into(), "(-9223372036854775808)".into(), "( - 9223372036854775808 )".into()],
        vec!["1 + -9223372036854775808".into(), "1 + - 9223372036854775808".into(), "1+-9223372036854775808".into(), "1 + (-9223372036854775808)".into()],
        vec!["[-9223372036854775808][0]".into(), "[ - 9223372036854775808 ][ 0 ]".into()],
        vec!["-9223372036854775808 == lo".into(), "- 9223372036854775808 == lo".into(), "(-9223372036854775808) == lo".into()],
        vec!["-0x8000000000000000".into(), "- 0x8000000000000000".into()],
    ];
    for x in ["lo", "u", "s", "t", "l", "i", "d", "z", "5u", "'abc'", "true", "[1]", "19", "2.5", "(-9223372036854775807 - 1)"] {
        groups.push(vec![format!("--{}", x), format!("-(-{})", x), format!("- -{}", x), format!("-( - {} )", x)]);
        groups.push(vec![format!("---{}", x), format!("-(-(-{}))", x), format!("- - -{}", x)]);
        groups.push(vec![format!("!!{}", x), format!("!(!{})", x), format!("! !{}", x)]);
        groups.push(vec![format!("!!!{}", x), format!("!(!(!{}))", x)]);
        groups.push(vec![format!("1 - --{}", x), format!("1 - (-(-{}))", x), format!("1 - -(-{})", x)]);
    }
    // left-associative chains whose later operands are constants: the flat spelling groups to the left, also where
    // regrouping the constants would change the result (doubles, the edge of the int range, integer division)
    for (a, o1, c1, o2, c2) in [
        ("h", "+", "0.2", "+", "0.3"),
        ("h", "+", "1e16", "+", "1.0"),
        ("h", "+", "1e16", "-", "1e16"),
        ("d", "*", "1e308", "*", "1e-308"),
        ("d", "/", "3.0", "*", "3.0"),
        ("m1", "+", "9223372036854775807", "+", "1"),
        ("i", "+", "9223372036854775807", "-", "9223372036854775807"),
        ("lo", "-", "1", "+", "1"),
        ("i", "-", "1", "-", "2"),
        ("i", "*", "3", "/", "2"),
        ("i", "/", "2", "*", "3"),
        ("i", "%", "7", "%", "3"),
        ("i", "/", "4", "/", "2"),
        ("i", "*", "4611686018427387904", "/", "4611686018427387904"),
        ("u", "-", "3u", "+", "9u"),
        ("u", "-", "7u", "+", "9u"),
        ("u", "+", "18446744073709551615u", "-", "18446744073709551615u"),
        ("s", "+", "'x'", "+", "'y'"),
        ("l", "+", "[2]", "+", "[3]"),
    ] {
        groups.push(vec![format!("{} {} {} {} {}", a, o1, c1, o2, c2), format!("({} {} {}) {} {}", a, o1, c1, o2, c2), format!("{}{}{}{}{}", a, o1, c1, o2, c2)]);
        groups.push(vec![format!("{} {} {} {} {}", c1, o1, c2, o2, a), format!("({} {} {}) {} {}", c1, o1, c2, o2, a)]);
        groups.push(vec![format!("{} {} {} {} {} {} {}", a, o1, c1, o2, c2, o1, c1), format!("(({} {} {}) {} {}) {} {}", a, o1, c1, o2, c2, o1, c1)]);
        groups.push(vec![format!("[{} {} {} {} {}][0]", a, o1, c1, o2, c2), format!("[({} {} {}) {} {}][0]", a, o1, c1, o2, c2)]);
    }
    let mut pending: Vec<Pending> = Vec::new();
    for g in groups.iter() {
        let results: Vec<String> = g.iter().map(|src| crate::api::exec_src(src, &binds)).collect();
        for (src, r) in g.iter().zip(results.iter()) {
            rep.count(Some(src));
            rep.bump("equivalent-spellings");
            if r == "P" {
                rep.oracle_fail(src, "P", "a value or an error", "compile/evaluate panicked");
            }
            if crate::wire::l1(r) != crate::wire::l1(&results[0]) {
                rep.oracle_fail(&format!("{}   vs   {}", g[0].replace('\n', "\\n"), src.replace('\n', "\\n")), r, &results[0], "spellings that differ only in whitespace / agreeing parentheses evaluate differently");
            }
            pending.push(Pending {
                request: format!("exec {} {}", crate::api::env_wire(&[], &binds, &[]), crate::wire::hex(src.as_bytes())),
                implementation: format!("{} L:0", r),
                level: 3,
                input: src.clone(),
            });
        }
    }
    rep.compare_with_model(&opts.driver, &pending);
}
