//! C01 — compile + evaluate are total: a value or an error, never a panic, an abort (stack exhaustion
//! included) or a hang.  Everything is evaluated in isolated child processes (this same binary with the hidden
//! sub-command `__c01child`), so a crash or a hang of the real code is an observation (`A:<signal>` / `T`) and
//! not the end of the check; a panic is caught in the child (`P`).  The oracle is the property itself.
use crate::api::{env_wire, UserFn};
use crate::facets::vmrun::generate;
use crate::gen::std_bindings;
use crate::pool;
use crate::report::{guarded, Pending, Report};
use crate::rng::Rng;
use crate::wire::{hex, show_result};
use crate::Opts;
use rscel::{BindContext, CelContext, CelValue};
use serde_json::json;
use std::io::{BufRead, BufReader, Write};
use std::process::{Command, Stdio};
use std::sync::mpsc;
use std::time::{Duration, Instant};

/// One unit of work for a child: programs (name, source), the program to run, and bindings.
#[derive(Clone)]
pub struct Job {
    pub tag: String,
    pub progs: Vec<(String, String)>,
    pub binds: Vec<(String, usize)>, // variable name -> index into pool::all_values(); usize::MAX-k = std_bindings(k)
}

fn job_line(j: &Job) -> String {
    let progs: Vec<String> = j.progs.iter().map(|(n, s)| format!("{}={}", hex(n.as_bytes()), hex(s.as_bytes()))).collect();
    let binds: Vec<String> = j.binds.iter().map(|(n, i)| format!("{}={}", n, i)).collect();
    format!("{}\t{}\t{}", j.tag, progs.join(","), binds.join(","))
}

fn unhex(h: &str) -> String {
    if h == "_" {
        return String::new();
    }
    let bytes: Vec<u8> = (0..h.len() / 2).filter_map(|i| u8::from_str_radix(&h[2 * i..2 * i + 2], 16).ok()).collect();
    String::from_utf8_lossy(&bytes).to_string()
}

fn bindings_of(spec: &str) -> Vec<(String, CelValue)> {
    let all = pool::all_values();
    let mut out = Vec::new();
    for item in spec.split(',').filter(|s| !s.is_empty()) {
        if let Some((n, i)) = item.split_once('=') {
            let i: usize = i.parse().unwrap_or(0);
            if n == "*" {
                out.extend(std_bindings(i as u64));
            } else {
                out.push((n.to_string(), all[i % all.len()].clone()));
            }
        }
    }
    out
}

/// Child side: evaluate every line, print `<index> <outcome>` and flush after each.
pub fn child_main(path: &str) {
    let file = std::fs::File::open(path).expect("job file");
    let out = std::io::stdout();
    for (i, line) in BufReader::new(file).lines().enumerate() {
        let line = line.unwrap_or_default();
        let mut parts = line.split('\t');
        let _tag = parts.next().unwrap_or("");
        let progs: Vec<(String, String)> = parts
            .next()
            .unwrap_or("")
            .split(',')
            .filter(|s| !s.is_empty())
            .filter_map(|p| p.split_once('=').map(|(n, s)| (unhex(n), unhex(s))))
            .collect();
        let binds = bindings_of(parts.next().unwrap_or(""));
        // announce before evaluating so that the parent can attribute a crash / hang
        {
            let mut o = out.lock();
            let _ = writeln!(o, "{} start", i);
            let _ = o.flush();
        }
        let obs = guarded(move || {
            let mut ctx = CelContext::new();
            let mut first_err: Option<String> = None;
            for (n, s) in progs.iter() {
                if let Err(e) = ctx.add_program_str(n, s) {
                    if first_err.is_none() {
                        first_err = Some(format!("e:{}", crate::wire::err_kind(&e)));
                    }
                }
            }
            if let Some(e) = first_err {
                return e;
            }
            let tick = |_this: CelValue, args: Vec<CelValue>| args.get(0).cloned().unwrap_or(CelValue::Null);
            let mut b = BindContext::new();
            for (k, v) in binds.iter() {
                b.bind_param(k, v.clone());
            }
            b.bind_func("tick", &tick);
            let main = progs.last().map(|p| p.0.clone()).unwrap_or_default();
            let r = ctx.exec(&main, &b);
            let s = show_result(&r);
            if s.starts_with("e:") { s } else { "ok".to_string() }
        });
        let mut o = out.lock();
        let _ = writeln!(o, "{} {}", i, obs);
        let _ = o.flush();
    }
}

/// Parent side: run the jobs in child processes, `par` at a time; returns one outcome per job
/// (`ok`, `e:<kind>`, `P`, `A:<status>`, `T`).
pub fn run_jobs(jobs: &[Job], chunk: usize, par: usize, per_job_timeout: Duration) -> Vec<String> {
    let exe = std::env::current_exe().expect("current exe");
    let dir = std::env::temp_dir().join(format!("verif-c01-{}", std::process::id()));
    let _ = std::fs::create_dir_all(&dir);
    let mut results: Vec<String> = vec![String::new(); jobs.len()];
    let chunks: Vec<(usize, usize)> = (0..jobs.len()).step_by(chunk.max(1)).map(|s| (s, (s + chunk).min(jobs.len()))).collect();
    let (tx, rx) = mpsc::channel::<(usize, Vec<String>)>();
    let queue = std::sync::Arc::new(std::sync::Mutex::new(chunks));
    let mut handles = Vec::new();
    for w in 0..par.max(1) {
        let queue = queue.clone();
        let tx = tx.clone();
        let exe = exe.clone();
        let dir = dir.clone();
        let jobs: Vec<Job> = jobs.to_vec();
        handles.push(std::thread::spawn(move || loop {
            let next = { queue.lock().unwrap().pop() };
            let (s, e) = match next {
                Some(c) => c,
                None => break,
            };
            let mut outs: Vec<String> = Vec::new();
            let mut at = s;
            while at < e {
                // (re)start a child on jobs[at..e]
                let path = dir.join(format!("jobs-{}-{}.txt", w, at));
                let body: String = jobs[at..e].iter().map(|j| job_line(j) + "\n").collect();
                let _ = std::fs::write(&path, body);
                let mut child = match Command::new(&exe).arg("__c01child").arg(&path).stdin(Stdio::null()).stdout(Stdio::piped()).stderr(Stdio::null()).spawn() {
                    Ok(c) => c,
                    Err(_) => {
                        for _ in at..e {
                            outs.push("spawn-failed".into())
                        }
                        break;
                    }
                };
                let stdout = child.stdout.take().unwrap();
                let (ltx, lrx) = mpsc::channel::<String>();
                let reader = std::thread::spawn(move || {
                    for l in BufReader::new(stdout).lines().flatten() {
                        if ltx.send(l).is_err() {
                            break;
                        }
                    }
                });
                let mut done_in_child = 0usize; // results received
                let mut started: Option<usize> = None;
                let mut last = Instant::now();
                let total = e - at;
                let mut timed_out = false;
                loop {
                    match lrx.recv_timeout(Duration::from_millis(200)) {
                        Ok(l) => {
                            last = Instant::now();
                            if let Some((idx, rest)) = l.split_once(' ') {
                                let idx: usize = idx.parse().unwrap_or(usize::MAX);
                                if rest == "start" {
                                    started = Some(idx);
                                } else if idx == done_in_child {
                                    outs.push(rest.to_string());
                                    done_in_child += 1;
                                    started = None;
                                }
                            }
                            if done_in_child == total {
                                break;
                            }
                        }
                        Err(mpsc::RecvTimeoutError::Timeout) => {
                            if last.elapsed() > per_job_timeout {
                                timed_out = true;
                                let _ = child.kill();
                                break;
                            }
                        }
                        Err(mpsc::RecvTimeoutError::Disconnected) => break,
                    }
                }
                let status = child.wait().ok();
                let _ = reader.join();
                let _ = std::fs::remove_file(&path);
                if done_in_child == total {
                    break;
                }
                // the job after the last completed one is the culprit
                let _ = started;
                let what = if timed_out {
                    "T".to_string()
                } else {
                    use std::os::unix::process::ExitStatusExt;
                    match status {
                        Some(st) => match st.signal() {
                            Some(sig) => format!("A:signal{}", sig),
                            None => format!("A:exit{}", st.code().unwrap_or(-1)),
                        },
                        None => "A:unknown".to_string(),
                    }
                };
                outs.push(what);
                at += done_in_child + 1;
            }
            let _ = tx.send((s, outs));
        }));
    }
    drop(tx);
    for (s, outs) in rx.iter() {
        for (k, o) in outs.into_iter().enumerate() {
            if s + k < results.len() {
                results[s + k] = o;
            }
        }
    }
    for h in handles {
        let _ = h.join();
    }
    let _ = std::fs::remove_dir_all(&dir);
    results
}

fn single(tag: &str, src: String, binds: Vec<(String, usize)>) -> Job {
    Job { tag: tag.to_string(), progs: vec![("main".to_string(), src)], binds }
}

/// Names of the built-in functions, read from the source table of the repository under test.
pub fn builtin_names() -> (Vec<String>, bool) {
    let repo = std::env::var("VERIF_REPO").unwrap_or_else(|_| "/repo".to_string());
    let mut names: Vec<String> = Vec::new();
    for f in ["rscel/src/context/default_funcs.rs", "rscel/src/context/default_macros.rs"] {
        if let Ok(text) = std::fs::read_to_string(format!("{}/{}", repo, f)) {
            let mut rest = text.as_str();
            while let Some(p) = rest.find("(\"") {
                let after = &rest[p + 2..];
                if let Some(q) = after.find('"') {
                    let name = &after[..q];
                    let tail = after[q + 1..].trim_start();
                    if tail.starts_with(',') && !name.is_empty() && name.chars().all(|c| c.is_ascii_alphanumeric() || c == '_') {
                        names.push(name.to_string());
                    }
                    rest = &after[q + 1..];
                } else {
                    break;
                }
            }
        }
    }
    names.sort();
    names.dedup();
    let from_source = names.len() >= 30;
    if !from_source {
        names = [
            "contains", "containsI", "size", "startsWith", "endsWith", "startsWithI", "endsWithI", "matches", "matchCaptures", "matchReplace", "matchReplaceOnce", "remove", "replace", "rsplit",
            "split", "splitAt", "trim", "trimStart", "trimEnd", "trimStartMatches", "trimEndMatches", "splitWhiteSpace", "toLower", "toUpper", "abs", "sqrt", "pow", "log", "lg", "ceil", "floor", "round",
            "min", "max", "getDate", "getDayOfMonth", "getDayOfWeek", "getDayOfYear", "getFullYear", "getHours", "getMilliseconds", "getMinutes", "getMonth", "getSeconds", "now", "zip", "sort",
            "uomConvert", "has", "all", "exists", "exists_one", "filter", "map", "reduce", "coalesce",
        ]
        .iter()
        .map(|s| s.to_string())
        .collect();
    }
    for t in ["int", "uint", "double", "float", "string", "bytes", "bool", "timestamp", "duration", "dyn", "type", "null_type"] {
        names.push(t.to_string());
    }
    (names, from_source)
}

fn ladder(shape: usize, d: usize) -> (String, String) {
    let rep = |s: &str, n: usize| s.repeat(n);
    match shape {
        0 => ("parens".into(), format!("{}1{}", rep("(", d), rep(")", d))),
        1 => ("not-run".into(), format!("{}true", rep("!", d))),
        2 => ("neg-run".into(), format!("{}1", rep("-", d))),
        3 => ("list-nest".into(), format!("{}1{}", rep("[", d), rep("]", d))),
        4 => ("map-nest".into(), format!("{}1{}", rep("{'a':", d), rep("}", d))),
        5 => ("call-nest".into(), format!("{}[1]{}", rep("size(", d), rep(")", d))),
        6 => ("ternary-chain".into(), format!("{}1", rep("true ? 1 : ", d))),
        7 => ("ternary-cond-nest".into(), format!("{}true{}", rep("(", d), rep(" ? true : false)", d))),
        8 => ("member-chain".into(), format!("m{}", rep(".a", d))),
        9 => ("index-chain".into(), format!("l{}", rep("[0]", d))),
        10 => ("add-chain".into(), format!("1{}", rep(" + 1", d))),
        11 => ("or-chain".into(), format!("false{}", rep(" || false", d))),
        12 => ("and-chain".into(), format!("true{}", rep(" && true", d))),
        13 => ("macro-nest".into(), format!("{}1{}", rep("[1].map(v, ", d), rep(")[0]", d))),
        14 => ("match-nest".into(), format!("{}1{}", rep("match 1 { case _: ", d), rep(" }", d))),
        15 => ("unclosed-parens".into(), rep("(", d)),
        16 => ("unclosed-brackets".into(), rep("[", d)),
        17 => ("string-concat".into(), format!("'a'{}", rep(" + 'a'", d))),
        18 => ("method-chain".into(), format!("'a'{}", rep(".trim()", d))),
        19 => ("has-nest".into(), format!("{}m.a{}", rep("has(", d), rep(")", d))),
        20 => ("paren-not".into(), format!("{}true{}", rep("!(", d), rep(")", d))),
        21 => ("list-wide".into(), format!("[{}1]", rep("1, ", d))),
        22 => ("call-wide".into(), format!("max({}1)", rep("1, ", d))),
        _ => ("fstring-nest".into(), {
            // f'{f"{f'{1}'}"}' alternating quotes
            let mut s = "1".to_string();
            for i in 0..d {
                let q = if i % 2 == 0 { '\'' } else { '"' };
                s = format!("f{}{{{}}}{}", q, s, q);
            }
            s
        }),
    }
}
const N_SHAPES: usize = 24;

pub fn run(opts: &Opts) -> Report {
    let mut rep = Report::new(
        "C01",
        "every input is compiled and evaluated through the public API in an isolated child process; streams: grammar-derived expressions x binding variants, token-mutated and random-text sources, \
         every built-in / constructor / macro name (read from the repository's tables) x receiver/argument tuples from the boundary pool in all call forms (exhaustive to arity 2 over the pool of the tier), \
         all binary operators x pool pairs, nesting ladders of 24 shapes up to the tier's depth, cyclic program references; any panic (P), abort/signal (A:..) or timeout (T) is a violation; \
         non-trivial = distinct job",
    );
    let mut rng = Rng::new(opts.seed ^ 0xC01);
    let mut jobs: Vec<Job> = Vec::new();
    let all = pool::all_values();
    // (a) grammar-derived
    let n_gen = if opts.thorough { 200_000 } else { 12_000 };
    let cases = generate(opts, n_gen, |g| {
        g.doubles = true;
        g.noise = 120;
    });
    let mut model_sample: Vec<(usize, String, u64)> = Vec::new();
    for (i, c) in cases.iter().enumerate() {
        if i % 8 == 0 && model_sample.len() < 4000 {
            model_sample.push((jobs.len(), c.src.clone(), c.binds_variant));
        }
        jobs.push(single("gen", c.src.clone(), vec![("*".into(), c.binds_variant as usize)]));
    }
    // (b) token-mutated
    let soup = ["(", ")", "[", "]", "{", "}", ",", ".", ":", "?", "+", "-", "*", "/", "%", "!", "<", "<=", "==", "!=", "&&", "||", "in", "match", "case", "_", "'", "\"", "f'", "b'", "r'", "\\", "0x", "1e", "1u", "9223372036854775808", ".5", "5.", "x", "null", "true", "int", "has", "map", "\n", "\t", " "];
    let n_mut = if opts.thorough { 150_000 } else { 10_000 };
    for i in 0..n_mut {
        let base = &cases[rng.below(cases.len())].src;
        let chars: Vec<char> = base.chars().collect();
        let mut s: Vec<char> = chars.clone();
        for _ in 0..1 + rng.below(3) {
            if s.is_empty() {
                break;
            }
            let p = rng.below(s.len());
            match rng.below(5) {
                0 => {
                    let q = (p + 1 + rng.below(4)).min(s.len());
                    s.drain(p..q);
                }
                1 => {
                    let q = (p + 1 + rng.below(6)).min(s.len());
                    let seg: Vec<char> = s[p..q].to_vec();
                    for (k, ch) in seg.into_iter().enumerate() {
                        s.insert(q + k, ch);
                    }
                }
                2 => {
                    let t: Vec<char> = rng.pick(&soup).chars().collect();
                    for (k, ch) in t.into_iter().enumerate() {
                        s.insert(p + k, ch);
                    }
                }
                3 => {
                    s.truncate(p);
                }
                _ => {
                    let c = [ '\u{0}', 'é', '𝄞', '\u{202e}', '\'', '"', '\\', '{', '}', '\u{7f}', 'İ' ][rng.below(11)];
                    s[p] = c;
                }
            }
        }
        let src: String = s.into_iter().collect();
        jobs.push(single("mutated", src, vec![("*".into(), (i % 6) as usize)]));
    }
    // (c) random text
    let n_rand = if opts.thorough { 100_000 } else { 6_000 };
    let alphabet: Vec<char> = "()[]{}.,:?+-*/%!<>=&|'\"\\ \n\tabfrux_0123456789eE".chars().chain(['é', '𝄞', '\u{0}', '\u{a0}', '\u{feff}', '\u{10ffff}']).collect();
    for i in 0..n_rand {
        let n = rng.below(24);
        let s: String = (0..n).map(|_| if rng.chance(1, 30) { char::from_u32(rng.next_u64() as u32 % 0x11_0000).unwrap_or('x') } else { *rng.pick(&alphabet) }).collect();
        jobs.push(single("random-text", s, vec![("*".into(), (i % 6) as usize)]));
    }
    // (d) every built-in x tuples from the pool
    let (names, from_source) = builtin_names();
    rep.notes.push(format!("built-in name table: {} names, {}", names.len(), if from_source { "read from the repository's default_funcs.rs / default_macros.rs" } else { "translator_tie: unavailable (fallback list)" }));
    let idx: Vec<usize> = if opts.thorough { (0..all.len()).collect() } else { pool::quick_indices() };
    rep.notes.push(format!("boundary pool: {} values, {} used for built-in tuples in this tier", all.len(), idx.len()));
    // arity 3: every triple over a mini pool (a number of each kind, strings that mean something to a built-in, null, a list)
    let mini: Vec<usize> = {
        let want = |v: &CelValue| match v {
            CelValue::Int(0) | CelValue::Null => true,
            CelValue::Float(f) => *f == 1.5,
            CelValue::String(s) => ["°C", "kg", "a", "US/Pacific"].contains(&s.as_str()),
            CelValue::List(l) => l.len() == 1,
            _ => false,
        };
        let mut seen: Vec<String> = Vec::new();
        (0..all.len()).filter(|i| want(&all[*i]) && { let k = crate::wire::show_val(&all[*i]); if seen.contains(&k) { false } else { seen.push(k); true } }).collect()
    };
    for name in names.iter() {
        for &a in mini.iter() {
            for &b in mini.iter() {
                for &c in mini.iter() {
                    jobs.push(single("builtin-arity3", format!("{}(x, y, z)", name), vec![("x".into(), a), ("y".into(), b), ("z".into(), c)]));
                    jobs.push(single("builtin-arity3", format!("x.{}(y, z)", name), vec![("x".into(), a), ("y".into(), b), ("z".into(), c)]));
                }
            }
        }
    }
    for name in names.iter() {
        jobs.push(single("builtin-arity0", format!("{}()", name), vec![]));
        for &a in idx.iter() {
            jobs.push(single("builtin-arity1", format!("{}(x)", name), vec![("x".into(), a)]));
            jobs.push(single("builtin-arity1", format!("x.{}()", name), vec![("x".into(), a)]));
            for &b in idx.iter() {
                jobs.push(single("builtin-arity2", format!("{}(x, y)", name), vec![("x".into(), a), ("y".into(), b)]));
                jobs.push(single("builtin-arity2", format!("x.{}(y)", name), vec![("x".into(), a), ("y".into(), b)]));
            }
            // arity 3 and 4: sampled
            for _ in 0..(if opts.thorough { 12 } else { 3 }) {
                let (b, c, d) = (rng.below(all.len()), rng.below(all.len()), rng.below(all.len()));
                jobs.push(single("builtin-arity3", format!("x.{}(y, z)", name), vec![("x".into(), a), ("y".into(), b), ("z".into(), c)]));
                jobs.push(single("builtin-arity4", format!("{}(x, y, z, w)", name), vec![("x".into(), a), ("y".into(), b), ("z".into(), c), ("w".into(), d)]));
            }
            // macro shapes with the value as range and as body operand
            jobs.push(single("builtin-macro-form", format!("x.{}(v, v)", name), vec![("x".into(), a)]));
            jobs.push(single("builtin-macro-form", format!("[x].{}(v, v)", name), vec![("x".into(), a)]));
        }
    }
    // (f) operators x pool pairs
    let ops = ["+", "-", "*", "/", "%", "<", "<=", ">", ">=", "==", "!=", "in", "||", "&&"];
    for &a in idx.iter() {
        for &b in idx.iter() {
            for op in ops.iter() {
                jobs.push(single("operator", format!("x {} y", op), vec![("x".into(), a), ("y".into(), b)]));
            }
            jobs.push(single("operator", "x ? y : x".into(), vec![("x".into(), a), ("y".into(), b)]));
            jobs.push(single("operator", "x[y]".into(), vec![("x".into(), a), ("y".into(), b)]));
            jobs.push(single("operator", "f'{x}{y}'".into(), vec![("x".into(), a), ("y".into(), b)]));
            jobs.push(single("operator", "match x { case y: 1, case > y: 2, case int: 3 }".into(), vec![("x".into(), a), ("y".into(), b)]));
        }
        jobs.push(single("operator", "-x".into(), vec![("x".into(), a)]));
        jobs.push(single("operator", "!x".into(), vec![("x".into(), a)]));
    }
    let n_plain = jobs.len();
    // (e) nesting ladders
    let max_d = if opts.thorough { 8192 } else { 2048 };
    let mut depths: Vec<usize> = vec![1, 2, 3, 8, 15, 16, 17, 30, 31, 32, 33, 34, 48, 63, 64, 65, 100, 128, 200, 256, 400, 512, 1000, 1024, 2048, 4096, 8192];
    depths.retain(|d| *d <= max_d);
    let mut ladders: Vec<Job> = Vec::new();
    for shape in 0..N_SHAPES {
        for &d in depths.iter() {
            let (tag, src) = ladder(shape, d);
            ladders.push(single(&format!("ladder:{}:{}", tag, d), src, vec![("*".into(), 0)]));
        }
    }
    // (g) cyclic / deep program references
    let refs: Vec<(&str, Vec<(&str, &str)>)> = vec![
        ("self", vec![("a", "a")]),
        ("self-op", vec![("a", "a + 1")]),
        ("mutual", vec![("b", "a"), ("a", "b + 1")]),
        ("macro-body", vec![("a", "[1].map(x, a)")]),
        ("macro-range", vec![("a", "a.map(x, x)")]),
        ("call-arg", vec![("a", "size([a])")]),
        ("has", vec![("a", "has(a)")]),
        ("coalesce", vec![("a", "coalesce(a, 1)")]),
        ("fstring", vec![("a", "f'{a}'")]),
        ("ternary", vec![("a", "true ? a : 1")]),
        ("or", vec![("a", "false || a")]),
        ("match", vec![("a", "match 1 { case _: a }")]),
        ("index", vec![("a", "[1][a]")]),
        ("three", vec![("c", "a"), ("b", "c"), ("a", "[b].map(x, x)[0]")]),
        ("reduce", vec![("a", "[1,2].reduce(acc, x, acc + a, 0)")]),
        ("filter-all", vec![("a", "[1].filter(x, [2].all(y, a))")]),
        ("map-over-map-body", vec![("a", "{'k': 1}.map(x, a)")]),
        ("map3-over-map-body", vec![("a", "{'k': 1}.map(x, true, a)")]),
        ("filter-over-map-body", vec![("a", "{'k': 1}.filter(x, a)")]),
        ("exists-one-body", vec![("a", "[1].exists_one(x, a)")]),
        ("reduce-seed", vec![("a", "[1].reduce(acc, x, acc, a)")]),
    ];
    for (tag, progs) in refs.iter() {
        ladders.push(Job { tag: format!("refs:{}", tag), progs: progs.iter().map(|(n, s)| (n.to_string(), s.to_string())).collect(), binds: vec![] });
    }
    for k in [1usize, 2, 8, 16, 20, 30, 31, 32, 33, 40, 64] {
        let mut progs: Vec<(String, String)> = Vec::new();
        progs.push((format!("p{}", k), "0".to_string()));
        for i in (0..k).rev() {
            progs.push((format!("p{}", i), format!("p{} + 1", i + 1)));
        }
        ladders.push(Job { tag: format!("chain:{}", k), progs, binds: vec![] });
    }
    let par = std::thread::available_parallelism().map(|n| n.get()).unwrap_or(8).min(16);
    let t0 = Instant::now();
    let mut outcomes = run_jobs(&jobs, 4000, par, Duration::from_secs(30));
    let ladder_out = run_jobs(&ladders, 8, par, Duration::from_secs(30));
    rep.notes.push(format!("{} jobs + {} ladder/reference jobs in child processes, {:.1}s", jobs.len(), ladders.len(), t0.elapsed().as_secs_f64()));
    let all_jobs: Vec<&Job> = jobs.iter().chain(ladders.iter()).collect();
    outcomes.extend(ladder_out);
    let _ = n_plain;
    for (j, o) in all_jobs.iter().zip(outcomes.iter()) {
        let line = job_line(j);
        rep.count(Some(&line));
        let tag = j.tag.split(':').next().unwrap_or("");
        let class = if o == "ok" { "value" } else if o.starts_with("e:") { o.as_str() } else if o == "P" { "PANIC" } else if o.starts_with("A:") { "ABORT" } else if o == "T" { "TIMEOUT" } else { "harness-problem" };
        rep.bump(&format!("{}:{}", tag, class));
        if j.tag.starts_with("ladder:") {
            rep.bump(&format!("{}:{}", j.tag.rsplitn(2, ':').nth(1).unwrap_or(""), if o == "ok" { "value" } else if o.starts_with("e:") { "error" } else { "CRASH" }));
        }
        let bad = o == "P" || o.starts_with("A:") || o == "T" || o.is_empty() || o == "spawn-failed";
        if bad {
            let shown: String = j.progs.iter().map(|(n, s)| format!("{} := {}", n, if s.chars().count() > 300 { format!("{}… ({} chars)", s.chars().take(120).collect::<String>(), s.chars().count()) } else { s.clone() })).collect::<Vec<_>>().join(" ; ");
            let bshown: String = j.binds.iter().map(|(n, i)| if n == "*" { format!("std_bindings({})", i) } else { format!("{}={}", n, crate::wire::show_val(&all[*i % all.len()])) }).collect::<Vec<_>>().join(", ");
            rep.oracle_fail(
                &format!("[{}] {}   with {}", j.tag, shown, bshown),
                o,
                "a value or an error",
                match class {
                    "PANIC" => "compile/evaluate panicked",
                    "ABORT" => "compile/evaluate aborted the process (stack exhaustion or abort)",
                    "TIMEOUT" => "compile/evaluate did not return within 30 s",
                    _ => "the child process could not be run",
                },
            );
        }
        if rep.samples.len() < 6 && (j.tag.starts_with("ladder") || j.tag.starts_with("builtin-arity2")) && rng.chance(1, 50) {
            rep.sample(json!({"job": j.tag, "src": j.progs.last().map(|p| p.1.chars().take(80).collect::<String>()), "outcome": o}));
        }
    }
    // chains up to 16 must evaluate to their length (C12 decides the rest)
    for (j, o) in ladders.iter().zip(outcomes[jobs.len()..].iter()) {
        if let Some(k) = j.tag.strip_prefix("chain:") {
            let k: usize = k.parse().unwrap_or(0);
            if k <= 16 && o != "ok" {
                rep.oracle_fail(&format!("reference chain of length {}", k), o, "ok", "a reference chain this short must evaluate");
            }
        }
    }
    // ---- model correspondence on the outcome class (L0) for a sample of the grammar-derived stream
    let mut pending: Vec<Pending> = Vec::new();
    let users = vec![("tick".to_string(), UserFn::Arg0)];
    for (ji, src, variant) in model_sample.iter() {
        let o = &outcomes[*ji];
        if !(o == "ok" || o.starts_with("e:")) {
            continue;
        }
        let binds = std_bindings(*variant);
        pending.push(Pending {
            request: format!("exec {} {}", env_wire(&[], &binds, &users), hex(src.as_bytes())),
            implementation: if o == "ok" { "ok".to_string() } else { "E".to_string() },
            level: 8,
            input: format!("{} [bindings variant {}]", src, variant),
        });
    }
    rep.compare_with_model(&opts.driver, &pending);
    rep
}
