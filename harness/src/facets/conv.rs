//! Shared by C14 / C15: a cached runner for the real implementation and the table of library answers
//! (`X:<n> …`) the Lean model's `xexec` / `xcall` commands take their parameters from.
use crate::report::guarded;
use crate::wire::{hex, show_result, show_val};
use chrono::{DateTime, Utc};
use rscel::{BindContext, CelContext, CelValue};
use std::collections::{HashMap, HashSet};

/// Compiles every distinct source once; runs it with bindings under catch_unwind.
pub struct Runner {
    cache: HashMap<String, Option<CelContext>>,
}

impl Runner {
    pub fn new() -> Runner {
        Runner { cache: HashMap::new() }
    }

    /// Observation in wire form: a value, `e:<kind>` (compile errors are `e:syntax`), or `P` for a panic.
    pub fn run(&mut self, src: &str, binds: &[(String, CelValue)]) -> String {
        if !self.cache.contains_key(src) {
            let s = src.to_string();
            let mut made: Option<CelContext> = None;
            let r = {
                let made = &mut made;
                guarded(move || {
                    let mut ctx = CelContext::new();
                    match ctx.add_program_str("main", &s) {
                        Ok(_) => {
                            *made = Some(ctx);
                            "ok".to_string()
                        }
                        Err(_) => "e".to_string(),
                    }
                })
            };
            if r == "P" {
                return "P".to_string();
            }
            if self.cache.len() > 50_000 {
                self.cache.clear();
            }
            self.cache.insert(src.to_string(), made);
        }
        match self.cache.get_mut(src).unwrap() {
            None => "e:syntax".to_string(),
            Some(ctx) => guarded(|| {
                let mut b = BindContext::new();
                for (k, v) in binds.iter() {
                    b.bind_param(k, v.clone());
                }
                show_result(&ctx.exec("main", &b))
            }),
        }
    }
}

impl Runner {
    /// Like `run`, but the value itself (`Err` carries the observation: `e:<kind>` or `P`).
    pub fn run_val(&mut self, src: &str, binds: &[(String, CelValue)]) -> Result<CelValue, String> {
        let o = self.run(src, binds);
        if o.starts_with("e:") || o == "P" {
            return Err(o);
        }
        // evaluate again for the value (programs are pure; `run` only keeps the wire form)
        let ctx = match self.cache.get_mut(src) {
            Some(Some(c)) => c,
            _ => return Err("e:syntax".to_string()),
        };
        let mut b = BindContext::new();
        for (k, v) in binds.iter() {
            b.bind_param(k, v.clone());
        }
        match ctx.exec("main", &b) {
            Ok(v) => Ok(v),
            Err(e) => Err(format!("e:{}", crate::wire::err_kind(&e))),
        }
    }
}

/// The library answers sent along with a model request.
pub struct Ext {
    entries: Vec<String>,
    seen: HashSet<String>,
}

pub fn ts_nanos(t: &DateTime<Utc>) -> i128 {
    t.timestamp() as i128 * 1_000_000_000 + t.timestamp_subsec_nanos() as i128
}

pub fn dur_nanos(d: &chrono::TimeDelta) -> i128 {
    d.num_seconds() as i128 * 1_000_000_000 + d.subsec_nanos() as i128
}

/// chrono's three timestamp text forms, in the order the constructor tries them.
pub fn ts_parse(s: &str) -> Option<DateTime<Utc>> {
    if let Ok(v) = s.parse::<DateTime<Utc>>() {
        return Some(v);
    }
    if let Ok(v) = DateTime::parse_from_rfc2822(s) {
        return Some(v.to_utc());
    }
    if let Ok(v) = DateTime::parse_from_rfc3339(s) {
        return Some(v.to_utc());
    }
    None
}

/// `string(duration)` as documented: seconds as a double, suffix `s`.
pub fn dur_text(d: &chrono::TimeDelta) -> String {
    let secs = match d.num_nanoseconds() {
        Some(n) => n as f64 / 1_000_000_000.0,
        None => d.num_seconds() as f64 + d.subsec_nanos() as f64 / 1_000_000_000.0,
    };
    format!("{}s", secs)
}

pub fn float_key(d: f64) -> String {
    let bits = if d.is_nan() { 0x7ff8000000000000u64 } else { d.to_bits() };
    format!("{:x}", bits)
}

impl Ext {
    pub fn new() -> Ext {
        Ext { entries: Vec::new(), seen: HashSet::new() }
    }

    pub fn add(&mut self, kind: &str, ins: &[&str], out: Option<String>) {
        let mut e = format!("{} {}", kind, ins.len());
        for i in ins {
            e.push(' ');
            // an empty hex token would vanish when the line is split on spaces
            let h = hex(i.as_bytes());
            e.push_str(if h.is_empty() { "-" } else { &h });
        }
        e.push(' ');
        e.push_str(&out.unwrap_or_else(|| "none".to_string()));
        if self.seen.insert(e.clone()) {
            self.entries.push(e);
        }
    }

    pub fn wire(&self) -> String {
        let mut s = format!("X:{}", self.entries.len());
        for e in &self.entries {
            s.push(' ');
            s.push_str(e);
        }
        s
    }

    /// double → text (Rust `Display`, shortest round trip) and back.
    pub fn float_text(&mut self, d: f64) -> String {
        let s = d.to_string();
        self.add("sd", &[&float_key(d)], Some(format!("s:{}", hex(s.as_bytes()))));
        self.text_parses(&s, None);
        s
    }

    /// text → double / timestamp / duration.  The duration grammar is `duration_str`'s (not linked by the
    /// harness): its answer is taken from the implementation itself through `dur_of`.
    pub fn text_parses(&mut self, s: &str, runner: Option<&mut Runner>) {
        let d = s.parse::<f64>().ok().map(|v| show_val(&CelValue::Float(v)));
        self.add("ds", &[s], d);
        let t = ts_parse(s).map(|v| format!("ts:{}", ts_nanos(&v)));
        self.add("ts", &[s], t);
        if let Some(r) = runner {
            let o = r.run("duration(x)", &[("x".to_string(), CelValue::String(s.to_string()))]);
            self.add("du", &[s], if o.starts_with("d:") { Some(o) } else { None });
        }
    }

    /// Unicode case mappings of a string (Rust std).
    pub fn case_maps(&mut self, s: &str) {
        self.add("lo", &[s], Some(format!("s:{}", hex(s.to_lowercase().as_bytes()))));
        self.add("up", &[s], Some(format!("s:{}", hex(s.to_uppercase().as_bytes()))));
    }

    /// The regex engine's answers for (haystack, pattern, replacement).
    pub fn regex(&mut self, hay: &str, pat: &str, rep: &str) {
        match regex::Regex::new(pat) {
            Err(_) => {
                self.add("rm", &[hay, pat], None);
                self.add("rc", &[hay, pat], None);
                self.add("rr1", &[hay, pat, rep], None);
                self.add("rra", &[hay, pat, rep], None);
            }
            Ok(re) => {
                self.add("rm", &[hay, pat], Some(format!("b:{}", if re.is_match(hay) { 1 } else { 0 })));
                let caps = match re.captures(hay) {
                    None => "n".to_string(),
                    Some(c) => {
                        let items: Vec<String> = c.iter().map(|g| match g {
                            Some(m) => format!("s:{}", hex(m.as_str().as_bytes())),
                            None => "n".to_string(),
                        }).collect();
                        format!("l:{}{}{}", items.len(), if items.is_empty() { "" } else { " " }, items.join(" "))
                    }
                };
                self.add("rc", &[hay, pat], Some(caps));
                self.add("rr1", &[hay, pat, rep], Some(format!("s:{}", hex(re.replace(hay, rep).as_bytes()))));
                self.add("rra", &[hay, pat, rep], Some(format!("s:{}", hex(re.replace_all(hay, rep).as_bytes()))));
            }
        }
    }

    /// Everything any constructor may ask about this value.
    pub fn for_value(&mut self, v: &CelValue, runner: &mut Runner) {
        match v {
            CelValue::Float(d) => {
                self.float_text(*d);
            }
            CelValue::String(s) => self.text_parses(s, Some(runner)),
            CelValue::TimeStamp(t) => {
                let s = t.to_rfc3339();
                self.add("st", &[&ts_nanos(t).to_string()], Some(format!("s:{}", hex(s.as_bytes()))));
            }
            CelValue::Duration(d) => {
                let s = dur_text(d);
                self.add("sdu", &[&dur_nanos(d).to_string()], Some(format!("s:{}", hex(s.as_bytes()))));
            }
            _ => {}
        }
    }
}
