//! C16 — time arithmetic, calendar accessors, zones, unit conversion.
//!
//! Oracles (independent of the Lean model): cancellation laws and chronological order on exact i128
//! nanoseconds with chrono's own range constants; calendar fields from `chrono`/`chrono-tz` called directly
//! on the same instant AND from a separate year-counting civil algorithm; zone validity from
//! `chrono_tz::TZ_VARIANTS`; unit conversion against the exact definitions written out below.
use crate::model::run_model;
use crate::report::{guarded, Failure, Pending, Report};
use crate::rng::Rng;
use crate::wire::{hex, l1, show_result, show_val};
use crate::Opts;
use chrono::{DateTime, Datelike, Offset, TimeDelta, TimeZone, Timelike, Utc};
use chrono_tz::{Tz, TZ_VARIANTS};
use rscel::{BindContext, CelContext, CelValue};
use serde_json::json;
use std::collections::{HashMap, HashSet};
use std::str::FromStr;

/// Stable signature of the known finding (DESIGN.md §8 item 21); matched by known_findings.json.
pub const KNOWN_DOW_WHY: &str = "getDayOfWeek with a zone argument returns the documented value + 1";

/// One context with every program compiled once.
struct Runner {
    ctx: CelContext,
    names: HashMap<String, String>,
}

impl Runner {
    fn new() -> Runner {
        Runner { ctx: CelContext::new(), names: HashMap::new() }
    }
    fn eval(&mut self, src: &str, binds: &[(&str, CelValue)]) -> String {
        let name = match self.names.get(src) {
            Some(n) => n.clone(),
            None => {
                let n = format!("p{}", self.names.len());
                let ok = {
                    let ctx = &mut self.ctx;
                    let (n2, s2) = (n.clone(), src.to_string());
                    guarded(move || match ctx.add_program_str(&n2, &s2) {
                        Ok(_) => "ok".to_string(),
                        Err(e) => format!("e:{}", crate::wire::err_kind(&e)),
                    })
                };
                if ok != "ok" {
                    return ok;
                }
                self.names.insert(src.to_string(), n.clone());
                n
            }
        };
        let ctx = &mut self.ctx;
        guarded(move || {
            let mut b = BindContext::new();
            for (k, v) in binds.iter() {
                b.bind_param(k, v.clone());
            }
            show_result(&ctx.exec(&name, &b))
        })
    }
}

// ---------------------------------------------------------------------------------------------
// instants and durations as exact nanoseconds

const NS: i128 = 1_000_000_000;

fn ts_nanos(t: &DateTime<Utc>) -> i128 {
    t.timestamp() as i128 * NS + t.timestamp_subsec_nanos() as i128
}
fn dur_nanos(d: &TimeDelta) -> i128 {
    d.num_seconds() as i128 * NS + d.subsec_nanos() as i128
}
fn ts_of(n: i128) -> Option<DateTime<Utc>> {
    let s = n.div_euclid(NS);
    let f = n.rem_euclid(NS) as u32;
    i64::try_from(s).ok().and_then(|s| DateTime::<Utc>::from_timestamp(s, f))
}
fn dur_of(n: i128) -> Option<TimeDelta> {
    let s = n.div_euclid(NS);
    let f = n.rem_euclid(NS) as u32;
    i64::try_from(s).ok().and_then(|s| TimeDelta::new(s, f))
}
fn ts_min() -> i128 {
    ts_nanos(&DateTime::<Utc>::MIN_UTC)
}
fn ts_max() -> i128 {
    ts_nanos(&DateTime::<Utc>::MAX_UTC)
}
fn dur_max() -> i128 {
    dur_nanos(&TimeDelta::MAX)
}
fn dur_min() -> i128 {
    dur_nanos(&TimeDelta::MIN)
}
fn tsv(n: i128) -> CelValue {
    CelValue::TimeStamp(ts_of(n).expect("instant in range"))
}
fn durv(n: i128) -> CelValue {
    CelValue::Duration(dur_of(n).expect("duration in range"))
}

// ---------------------------------------------------------------------------------------------
// civil time by counting years (deliberately not the days-from-civil formula of the model)

fn leap(y: i64) -> bool {
    y % 4 == 0 && (y % 100 != 0 || y % 400 == 0)
}
const MLEN: [i64; 12] = [31, 28, 31, 30, 31, 30, 31, 31, 30, 31, 30, 31];

/// (year, month 1..12, day 1..31, day of year 0-based, day of week Sunday=0) of `days` since 1970-01-01
fn civil_slow(days: i64) -> (i64, i64, i64, i64, i64) {
    let d = days - 10957; // 2000-01-01, a Saturday
    let n400 = d.div_euclid(146097);
    let mut r = d.rem_euclid(146097);
    let mut year = 2000 + 400 * n400;
    loop {
        let ylen = if leap(year) { 366 } else { 365 };
        if r < ylen {
            break;
        }
        r -= ylen;
        year += 1;
    }
    let doy = r;
    let mut m = 0usize;
    loop {
        let len = MLEN[m] + if m == 1 && leap(year) { 1 } else { 0 };
        if r < len {
            break;
        }
        r -= len;
        m += 1;
    }
    (year, m as i64 + 1, r + 1, doy, (6 + d).rem_euclid(7))
}

/// days since 1970-01-01 of a civil date, by the same counting
fn days_slow(y: i64, m: i64, d: i64) -> i64 {
    let n400 = (y - 2000).div_euclid(400);
    let mut days = 10957 + n400 * 146097;
    let mut yy = 2000 + 400 * n400;
    while yy < y {
        days += if leap(yy) { 366 } else { 365 };
        yy += 1;
    }
    for i in 0..(m - 1) as usize {
        days += MLEN[i] + if i == 1 && leap(y) { 1 } else { 0 };
    }
    days + d - 1
}

pub const FIELDS: [&str; 10] = [
    "getFullYear", "getMonth", "getDate", "getDayOfMonth", "getDayOfYear", "getDayOfWeek", "getHours", "getMinutes", "getSeconds", "getMilliseconds",
];

/// The documented value of every accessor for an instant and an offset, from the counting algorithm.
fn fields_slow(n: i128, off: i64) -> [i64; 10] {
    let secs = n.div_euclid(NS) as i64;
    let sub = n.rem_euclid(NS) as i64;
    let ls = secs + off;
    let days = ls.div_euclid(86400);
    let sod = ls.rem_euclid(86400);
    let (y, m, d, doy, dow) = civil_slow(days);
    [y, m - 1, d, d - 1, doy, dow, sod / 3600, sod % 3600 / 60, sod % 60, sub / 1_000_000]
}

/// The same from chrono / chrono-tz called directly.
fn fields_chrono(t: &DateTime<Utc>, tz: Option<Tz>) -> [i64; 10] {
    fn of<Z: TimeZone>(d: &DateTime<Z>) -> [i64; 10] {
        [
            d.year() as i64,
            d.month0() as i64,
            d.day() as i64,
            d.day() as i64 - 1,
            d.ordinal0() as i64,
            d.weekday().num_days_from_sunday() as i64,
            d.hour() as i64,
            d.minute() as i64,
            d.second() as i64,
            d.timestamp_subsec_millis() as i64,
        ]
    }
    match tz {
        None => of(t),
        Some(z) => of(&t.with_timezone(&z)),
    }
}

fn offset_of(tz: Tz, t: &DateTime<Utc>) -> i64 {
    tz.offset_from_utc_datetime(&t.naive_utc()).fix().local_minus_utc() as i64
}

struct St<'a> {
    rep: &'a mut Report,
    pending: Vec<Pending>,
    run: Runner,
    zone_names: HashSet<&'static str>,
    known_dow: u64,
}

impl<'a> St<'a> {
    /// all ten accessors of instant `n`, zone-less (`zone = None`) or with a zone name
    fn check_accessors(&mut self, n: i128, zone: Option<&str>, tag: &str) {
        let t = ts_of(n).expect("in range");
        let valid: Option<Tz> = match zone {
            None => None,
            Some(z) => {
                if self.zone_names.contains(z) {
                    Tz::from_str(z).ok()
                } else {
                    None
                }
            }
        };
        let off: Option<i64> = match zone {
            None => Some(0),
            Some(_) => valid.map(|tz| offset_of(tz, &t)),
        };
        let want_slow = off.map(|o| fields_slow(n, o));
        let want_chrono = off.map(|_| fields_chrono(&t, valid));
        let tv = CelValue::TimeStamp(t);
        for (i, f) in FIELDS.iter().enumerate() {
            let (src, input, got) = match zone {
                None => {
                    let src = format!("t.{}()", f);
                    let got = self.run.eval(&src, &[("t", tv.clone())]);
                    (src, format!("ts:{}.{}()", n, f), got)
                }
                Some(z) => {
                    let src = format!("t.{}(z)", f);
                    let got = self.run.eval(&src, &[("t", tv.clone()), ("z", CelValue::String(z.to_string()))]);
                    (src, format!("ts:{}.{}('{}')", n, f, z), got)
                }
            };
            let _ = src;
            self.rep.count(Some(&input));
            self.rep.bump(&format!("acc:{}:{}", f, match (zone, off) { (None, _) => "utc", (Some(_), Some(_)) => "zone", _ => "unknown-zone" }));
            self.rep.bump(&format!("instants:{}", tag));
            match (want_slow, want_chrono) {
                (Some(ws), Some(wc)) => {
                    let want = format!("i:{}", ws[i]);
                    if ws[i] != wc[i] {
                        self.rep.oracle_fail(&input, &format!("chrono {} counting {}", wc[i], ws[i]), "equal", "the two reference calendars disagree (harness problem)");
                    }
                    if got != want {
                        if *f == "getDayOfWeek" && zone.is_some() && got == format!("i:{}", ws[i] + 1) {
                            // the known finding: record a few, count all
                            self.known_dow += 1;
                            self.rep.bump("known:getDayOfWeek(zone)=documented+1");
                            if self.known_dow <= 3 {
                                self.rep.oracle_fail(&input, &got, &want, KNOWN_DOW_WHY);
                            }
                        } else {
                            self.rep.oracle_fail(&input, &got, &want, &format!("{} differs from the civil field of the instant{} (documented base)", f, if zone.is_some() { " in that zone" } else { " in UTC" }));
                        }
                    }
                }
                _ => {
                    if !got.starts_with("e:") {
                        self.rep.oracle_fail(&input, &got, "E", "an unknown time zone name must fail");
                    }
                }
            }
            let args = match zone {
                None => "l:0".to_string(),
                Some(z) => format!("l:1 s:{}", hex(z.as_bytes())),
            };
            let offw = match (zone, off) {
                (Some(_), Some(o)) => o.to_string(),
                _ => "none".to_string(),
            };
            self.pending.push(Pending { request: format!("acc {} {} ts:{} {}", f, offw, n, args), implementation: got, level: 1, input });
        }
    }

    /// zone-less form == form with "UTC", literally on the implementation's outputs
    fn check_zoneless_eq_utc(&mut self, n: i128) {
        let tv = tsv(n);
        for f in FIELDS.iter() {
            let a = self.run.eval(&format!("t.{}()", f), &[("t", tv.clone())]);
            let b = self.run.eval(&format!("t.{}(z)", f), &[("t", tv.clone()), ("z", CelValue::String("UTC".into()))]);
            let input = format!("ts:{}.{}('UTC')", n, f);
            self.rep.count(Some(&format!("equtc {}", input)));
            self.rep.bump("law:zoneless==UTC");
            if a != b {
                let plus1 = match a.strip_prefix("i:").and_then(|x| x.parse::<i64>().ok()) {
                    Some(v) => b == format!("i:{}", v + 1),
                    None => false,
                };
                if *f == "getDayOfWeek" && plus1 {
                    self.known_dow += 1;
                    self.rep.bump("known:getDayOfWeek(zone)=documented+1");
                    if self.known_dow <= 3 {
                        self.rep.oracle_fail(&input, &b, &a, KNOWN_DOW_WHY);
                    }
                } else {
                    self.rep.oracle_fail(&input, &b, &a, &format!("{}('UTC') differs from the zone-less form", f));
                }
            }
        }
    }

    fn expect_ts(&mut self, input: &str, got: &str, exact: i128, why: &str) {
        let in_range = exact >= ts_min() && exact <= ts_max();
        if in_range {
            let want = format!("ts:{}", exact);
            if got != want {
                self.rep.oracle_fail(input, got, &want, why);
            }
        } else if !got.starts_with("e:") {
            self.rep.oracle_fail(input, got, "E", "a timestamp result outside the representable range must be an error");
        }
    }
    fn expect_dur(&mut self, input: &str, got: &str, exact: i128, why: &str) {
        let in_range = exact >= dur_min() && exact <= dur_max();
        if in_range {
            let want = format!("d:{}", exact);
            if got != want {
                self.rep.oracle_fail(input, got, &want, why);
            }
        } else if !got.starts_with("e:") {
            self.rep.oracle_fail(input, got, "E", "a duration result outside the representable range must be an error");
        }
    }
    fn model_arith(&mut self, op: &str, a: &str, b: &str, got: &str, input: &str) {
        self.pending.push(Pending { request: format!("arith {} {} {}", op, a, b), implementation: got.to_string(), level: 1, input: input.to_string() });
    }

    /// t ± d and the cancellation laws
    fn check_ts_dur(&mut self, t: i128, d: i128) {
        let (tv, dv) = (tsv(t), durv(d));
        let (tw, dw) = (format!("ts:{}", t), format!("d:{}", d));
        let b = [("t", tv), ("d", dv)];
        let input = format!("t={} d={}", tw, dw);
        self.rep.count(Some(&format!("tsdur {}", input)));
        let sum_in = t + d >= ts_min() && t + d <= ts_max();
        let dif_in = t - d >= ts_min() && t - d <= ts_max();
        self.rep.bump(&format!("arith:ts+dur:{}", if sum_in { "in-range" } else { "out-of-range" }));
        self.rep.bump(&format!("arith:ts-dur:{}", if dif_in { "in-range" } else { "out-of-range" }));
        let add = self.run.eval("t + d", &b);
        self.expect_ts(&format!("t + d, {}", input), &add, t + d, "t + d is not the exact sum");
        self.model_arith("add", &tw, &dw, &add, &format!("t + d, {}", input));
        let add2 = self.run.eval("d + t", &b);
        self.expect_ts(&format!("d + t, {}", input), &add2, t + d, "d + t is not the exact sum");
        self.model_arith("add", &dw, &tw, &add2, &format!("d + t, {}", input));
        let sub = self.run.eval("t - d", &b);
        self.expect_ts(&format!("t - d, {}", input), &sub, t - d, "t - d is not the exact difference");
        self.model_arith("sub", &tw, &dw, &sub, &format!("t - d, {}", input));
        // (t + d) - d == t
        let back = self.run.eval("(t + d) - d", &b);
        let law = self.run.eval("(t + d) - d == t", &b);
        if sum_in {
            if back != tw || law != "b:1" {
                self.rep.oracle_fail(&format!("(t + d) - d == t, {}", input), &format!("{} / {}", back, law), &format!("{} / b:1", tw), "(t + d) - d == t fails although t + d is representable");
            }
        } else if !back.starts_with("e:") || !law.starts_with("e:") {
            self.rep.oracle_fail(&format!("(t + d) - d, {}", input), &format!("{} / {}", back, law), "E", "t + d is out of range, so (t + d) - d must be an error");
        }
        self.model_arith("sub", &add, &dw, &back, &format!("(t + d) - d, {}", input));
        // (t - d) + d == t
        let back2 = self.run.eval("(t - d) + d", &b);
        if dif_in {
            if back2 != tw {
                self.rep.oracle_fail(&format!("(t - d) + d, {}", input), &back2, &tw, "(t - d) + d == t fails although t - d is representable");
            }
        } else if !back2.starts_with("e:") {
            self.rep.oracle_fail(&format!("(t - d) + d, {}", input), &back2, "E", "t - d is out of range, so (t - d) + d must be an error");
        }
        self.model_arith("add", &sub, &dw, &back2, &format!("(t - d) + d, {}", input));
        for o in [&add, &add2, &sub, &back, &law, &back2] {
            if o.as_str() == "P" {
                self.rep.oracle_fail(&input, "P", "value or error", "time arithmetic panicked");
            }
        }
    }

    /// t1 - t2, (t1 - t2) + t2 == t1, and the six comparisons
    fn check_ts_pair(&mut self, t1: i128, t2: i128) {
        let b = [("a", tsv(t1)), ("b", tsv(t2))];
        let (aw, bw) = (format!("ts:{}", t1), format!("ts:{}", t2));
        let input = format!("a={} b={}", aw, bw);
        self.rep.count(Some(&format!("tspair {}", input)));
        self.rep.bump("arith:ts-ts");
        let dif = self.run.eval("a - b", &b);
        self.expect_dur(&format!("a - b, {}", input), &dif, t1 - t2, "t1 - t2 is not the exact difference");
        self.model_arith("sub", &aw, &bw, &dif, &format!("a - b, {}", input));
        let back = self.run.eval("(a - b) + b", &b);
        let law = self.run.eval("(a - b) + b == a", &b);
        if back != aw || law != "b:1" {
            self.rep.oracle_fail(&format!("(a - b) + b == a, {}", input), &format!("{} / {}", back, law), &format!("{} / b:1", aw), "(t1 - t2) + t2 == t1 fails");
        }
        self.model_arith("add", &dif, &bw, &back, &format!("(a - b) + b, {}", input));
        self.check_order(&b, &aw, &bw, t1, t2, &input);
    }

    fn check_order(&mut self, b: &[(&str, CelValue); 2], aw: &str, bw: &str, x: i128, y: i128, input: &str) {
        let bs = |v: bool| if v { "b:1" } else { "b:0" };
        for (op, name, want) in [("<", "lt", x < y), ("<=", "le", x <= y), (">", "gt", x > y), (">=", "ge", x >= y), ("==", "eq", x == y), ("!=", "ne", x != y)] {
            let got = self.run.eval(&format!("a {} b", op), b);
            self.rep.bump(&format!("order:{}", op));
            if got != bs(want) {
                self.rep.oracle_fail(&format!("a {} b, {}", op, input), &got, bs(want), "ordering / equality is not chronological");
            }
            let req = if name == "eq" || name == "ne" { format!("{} {} {}", name, aw, bw) } else { format!("rel {} {} {}", name, aw, bw) };
            self.pending.push(Pending { request: req, implementation: got, level: 1, input: format!("a {} b, {}", op, input) });
        }
    }

    /// d1 ± d2, d1 + d2 - d2 == d1, order
    fn check_dur_pair(&mut self, d1: i128, d2: i128) {
        let b = [("a", durv(d1)), ("b", durv(d2))];
        let (aw, bw) = (format!("d:{}", d1), format!("d:{}", d2));
        let input = format!("a={} b={}", aw, bw);
        self.rep.count(Some(&format!("durpair {}", input)));
        let sum_in = d1 + d2 >= dur_min() && d1 + d2 <= dur_max();
        self.rep.bump(&format!("arith:dur+dur:{}", if sum_in { "in-range" } else { "out-of-range" }));
        let add = self.run.eval("a + b", &b);
        self.expect_dur(&format!("a + b, {}", input), &add, d1 + d2, "d1 + d2 is not the exact sum");
        self.model_arith("add", &aw, &bw, &add, &format!("a + b, {}", input));
        let sub = self.run.eval("a - b", &b);
        self.expect_dur(&format!("a - b, {}", input), &sub, d1 - d2, "d1 - d2 is not the exact difference");
        self.model_arith("sub", &aw, &bw, &sub, &format!("a - b, {}", input));
        let back = self.run.eval("a + b - b", &b);
        let law = self.run.eval("a + b - b == a", &b);
        if sum_in {
            if back != aw || law != "b:1" {
                self.rep.oracle_fail(&format!("a + b - b == a, {}", input), &format!("{} / {}", back, law), &format!("{} / b:1", aw), "d1 + d2 - d2 == d1 fails although d1 + d2 is representable");
            }
        } else if !back.starts_with("e:") || !law.starts_with("e:") {
            self.rep.oracle_fail(&format!("a + b - b, {}", input), &format!("{} / {}", back, law), "E", "d1 + d2 is out of range, so d1 + d2 - d2 must be an error");
        }
        self.model_arith("sub", &add, &bw, &back, &format!("a + b - b, {}", input));
        self.check_order(&b, &aw, &bw, d1, d2, &input);
    }

    /// total whole hours / minutes / seconds and the sub-second millisecond part
    fn check_dur_accessors(&mut self, d: i128) {
        let dv = durv(d);
        let secs = d / NS; // truncation toward zero
        let sub = d % NS;
        let want = [("getHours", secs / 3600), ("getMinutes", secs / 60), ("getSeconds", secs), ("getMilliseconds", sub / 1_000_000)];
        let mut got_vals = Vec::new();
        for (f, w) in want.iter() {
            let got = self.run.eval(&format!("d.{}()", f), &[("d", dv.clone())]);
            let input = format!("d:{}.{}()", d, f);
            self.rep.count(Some(&input));
            self.rep.bump(&format!("duracc:{}:{}", f, if d < 0 { "neg" } else { "nonneg" }));
            if got != format!("i:{}", w) {
                self.rep.oracle_fail(&input, &got, &format!("i:{}", w), "duration accessor is not the total of whole units (truncated toward zero) / the sub-second millisecond part");
            }
            got_vals.push(got.strip_prefix("i:").and_then(|x| x.parse::<i128>().ok()));
            self.pending.push(Pending { request: format!("acc {} none d:{} l:0", f, d), implementation: got, level: 1, input });
        }
        // identities on the implementation's own outputs: seconds*1000 + millis = whole milliseconds of d
        if let (Some(s), Some(ms)) = (got_vals[2], got_vals[3]) {
            if s * 1000 + ms != d / 1_000_000 {
                self.rep.oracle_fail(&format!("d:{}", d), &format!("seconds {} millis {}", s, ms), &format!("{}", d / 1_000_000), "getSeconds()*1000 + getMilliseconds() is not the whole-millisecond total");
            }
        }
        // calendar accessors and zone arguments do not apply to durations
        for f in ["getFullYear", "getMonth", "getDate", "getDayOfMonth", "getDayOfYear", "getDayOfWeek"] {
            let got = self.run.eval(&format!("d.{}()", f), &[("d", dv.clone())]);
            let input = format!("d:{}.{}()", d, f);
            self.rep.count(None);
            self.rep.bump("malformed:calendar-accessor-on-duration");
            self.pending.push(Pending { request: format!("acc {} none d:{} l:0", f, d), implementation: got, level: 1, input });
        }
    }

    /// accessor calls of the wrong shape: compared with the model's dispatch, must not panic
    fn check_malformed_call(&mut self, f: &str, src: &str, this: &CelValue, args: &[CelValue], binds: &[(&str, CelValue)]) {
        let got = self.run.eval(src, binds);
        let input = format!("{} with this={} args={}", src, show_val(this), show_val(&CelValue::List(args.to_vec())));
        self.rep.count(None);
        self.rep.bump("malformed:call-shape");
        if got == "P" {
            self.rep.oracle_fail(&input, &got, "value or error", "accessor call panicked");
        }
        // zone "UTC" where a zone string is passed
        let offw = if args.len() == 1 && matches!(&args[0], CelValue::String(s) if s == "UTC") { "0" } else { "none" };
        self.pending.push(Pending { request: format!("acc {} {} {} {}", f, offw, show_val(this), show_val(&CelValue::List(args.to_vec()))), implementation: got, level: 1, input });
    }
}

// ---------------------------------------------------------------------------------------------
// instant pools

fn day_start(y: i64, m: i64, d: i64) -> i128 {
    days_slow(y, m, d) as i128 * 86400 * NS
}

fn boundary_instants() -> Vec<(i128, &'static str)> {
    let mut v: Vec<(i128, &'static str)> = Vec::new();
    let (lo, hi) = (ts_min(), ts_max());
    for n in [lo, lo + 1, lo + NS - 1, lo + NS, lo + 86400 * NS - 1, lo + 86400 * NS, hi, hi - 1, hi - NS + 1, hi - NS, hi - 86400 * NS, hi - 86400 * NS + 1] {
        v.push((n, "range-edge"));
    }
    for n in [0, 1, -1, NS, -NS, NS - 1, -NS + 1, 999_999, 1_000_000, -999_999, -1_000_000, -1_000_001, 86400 * NS, -86400 * NS, 86400 * NS - 1, -86400 * NS - 1] {
        v.push((n, "epoch"));
    }
    // year boundaries
    for y in [
        -262142i64, -262000, -100000, -10000, -4713, -401, -400, -399, -101, -100, -99, -5, -4, -3, -1, 0, 1, 2, 4, 5, 99, 100, 101, 399, 400, 401, 1000, 1582, 1583, 1600, 1601, 1699, 1700, 1701, 1752, 1799, 1800, 1801, 1899,
        1900, 1901, 1903, 1904, 1969, 1970, 1971, 1972, 1999, 2000, 2001, 2004, 2023, 2024, 2025, 2037, 2038, 2039, 2099, 2100, 2101, 2399, 2400, 2401, 9999, 10000, 100000, 262000, 262141, 262142,
    ] {
        let s = day_start(y, 1, 1);
        for n in [s - 1, s, s + 86399 * NS + 999_999_999, s - 86400 * NS] {
            if n >= lo && n <= hi {
                v.push((n, "year-boundary"));
            }
        }
        // month boundaries of that year
        for m in 2..=12 {
            let s = day_start(y, m, 1);
            for n in [s - 1_000_000, s] {
                if n >= lo && n <= hi {
                    v.push((n, "month-boundary"));
                }
            }
        }
    }
    // every Feb 28 / Feb 29 (or Mar 1) / Mar 1 of 1896..2104, and of the same years shifted by +-400k years... within range
    for base in [0i64, -260000, 260000] {
        for y in 1896..=2104 {
            let y = y + base;
            let s = day_start(y, 2, 28);
            for n in [s, s + 86400 * NS - 1, s + 86400 * NS, s + 2 * 86400 * NS - 1, s + 2 * 86400 * NS, day_start(y, 12, 31) + 43200 * NS] {
                v.push((n, if base == 0 { "leap-day-1896-2104" } else { "leap-day-far" }));
            }
        }
    }
    v
}

fn random_instant(rng: &mut Rng) -> i128 {
    let (lo, hi) = (ts_min(), ts_max());
    match rng.below(5) {
        0 | 1 => {
            // modern era, 1800..2200
            let s = rng.range(-5_364_662_400, 7_258_118_400);
            s as i128 * NS + rng.range(0, 999_999_999) as i128
        }
        2 => {
            // whole representable range
            let span = (hi - lo) as u128;
            let r = ((rng.next_u64() as u128) << 64 | rng.next_u64() as u128) % (span + 1);
            lo + r as i128
        }
        3 => {
            // around a day boundary
            let day = rng.range(-3_000_000, 3_000_000) as i128;
            day * 86400 * NS + rng.range(-2, 2) as i128 * [1i128, 1_000_000, NS][rng.below(3)]
        }
        _ => {
            // i32-era seconds with millisecond-boundary nanos
            let s = rng.range(-2_147_483_648, 4_294_967_296);
            s as i128 * NS + [0i128, 1, 999_999, 1_000_000, 999_000_000, 999_999_999, 500_000_000][rng.below(7)]
        }
    }
}

fn duration_pool() -> Vec<i128> {
    let mut v = vec![0i128];
    for m in [1i128, 999_999, 1_000_000, 1_000_001, 1_500_000, 999_999_999, NS, NS + 1, 59 * NS, 60 * NS - 1, 60 * NS, 3599 * NS + 999_999_999, 3600 * NS, 3600 * NS + 1, 86400 * NS, 90061 * NS + 123_456_789, 31_556_952 * NS, 16_544_868_105_599 * NS + 999_999_999] {
        v.push(m);
        v.push(-m);
    }
    let (lo, hi) = (dur_min(), dur_max());
    v.extend([hi, hi - 1, hi - 1_000_000, lo, lo + 1, lo + 1_000_000, hi / 2, lo / 2, hi / 2 + 1]);
    v
}

fn random_duration(rng: &mut Rng) -> i128 {
    match rng.below(4) {
        0 => rng.range(-10_000_000_000, 10_000_000_000) as i128,
        1 => rng.range(-200_000_000, 200_000_000) as i128 * NS + rng.range(-999_999_999, 999_999_999) as i128,
        2 => {
            let span = (dur_max() - dur_min()) as u128;
            let r = ((rng.next_u64() as u128) << 64 | rng.next_u64() as u128) % (span + 1);
            dur_min() + r as i128
        }
        _ => rng.range(-100_000, 100_000) as i128 * [1_000_000i128, NS, 60 * NS, 3600 * NS][rng.below(4)] + rng.range(-1, 1) as i128,
    }
}

const DST_ZONES: [&str; 42] = [
    "America/New_York", "America/Chicago", "America/Denver", "America/Los_Angeles", "US/Pacific", "America/Anchorage", "Pacific/Honolulu", "America/St_Johns", "America/Sao_Paulo", "America/Caracas",
    "America/Argentina/Buenos_Aires", "America/Havana", "America/Santiago", "Europe/London", "Europe/Dublin", "Europe/Berlin", "Europe/Paris", "Europe/Moscow", "Europe/Lisbon", "Europe/Istanbul",
    "Africa/Casablanca", "Africa/Cairo", "Africa/Johannesburg", "Africa/Monrovia", "Asia/Tehran", "Asia/Kolkata", "Asia/Kathmandu", "Asia/Tokyo", "Asia/Pyongyang", "Asia/Jerusalem", "Asia/Gaza", "Asia/Dhaka",
    "Australia/Sydney", "Australia/Lord_Howe", "Australia/Adelaide", "Pacific/Auckland", "Pacific/Chatham", "Pacific/Apia", "Pacific/Kiritimati", "Pacific/Marquesas", "Antarctica/Troll", "Atlantic/Azores",
];

/// Instants (first second with the new offset) at which the zone's UTC offset changes, 1880..2045.
fn transitions(tz: Tz) -> Vec<i64> {
    let at = |s: i64| offset_of(tz, &DateTime::<Utc>::from_timestamp(s, 0).unwrap());
    let (from, to, step) = (-2_840_140_800i64, 2_366_841_600i64, 43_200i64);
    let mut out = Vec::new();
    let mut s = from;
    let mut o = at(s);
    while s < to {
        let n = s + step;
        let on = at(n);
        if on != o {
            // binary search the first second with an offset different from o
            let (mut lo, mut hi) = (s, n);
            while hi - lo > 1 {
                let mid = lo + (hi - lo) / 2;
                if at(mid) == o {
                    lo = mid
                } else {
                    hi = mid
                }
            }
            out.push(hi);
        }
        s = n;
        o = on;
    }
    out
}

// ---------------------------------------------------------------------------------------------
// units

struct UnitSpec {
    canon: &'static str,
    cat: u8,
    scale: f64,
    shift: f64,
    aliases: &'static [&'static str],
}

const LB: f64 = 0.45359237; // kg, exact (1959)
const IN3: f64 = 0.0254 * 0.0254 * 0.0254; // m^3
const GAL: f64 = 231.0 * IN3; // US gallon
const BUSHEL: f64 = 2150.42 * IN3; // US bushel

fn units() -> Vec<UnitSpec> {
    vec![
        UnitSpec { canon: "kg", cat: 0, scale: 1.0, shift: 0.0, aliases: &["kg", "kilogram", "kilograms"] },
        UnitSpec { canon: "g", cat: 0, scale: 1e-3, shift: 0.0, aliases: &["g", "gram", "grams"] },
        UnitSpec { canon: "mg", cat: 0, scale: 1e-6, shift: 0.0, aliases: &["mg", "milligram", "milligrams"] },
        UnitSpec { canon: "lb", cat: 0, scale: LB, shift: 0.0, aliases: &["lb", "lbs", "pound", "pounds"] },
        UnitSpec { canon: "oz", cat: 0, scale: LB / 16.0, shift: 0.0, aliases: &["oz", "ounce", "ounces"] },
        UnitSpec { canon: "stone", cat: 0, scale: LB * 14.0, shift: 0.0, aliases: &["stone", "st", "stones"] },
        UnitSpec { canon: "slug", cat: 0, scale: LB * 9.80665 / 0.3048, shift: 0.0, aliases: &["slug", "slugs"] },
        UnitSpec { canon: "ton", cat: 0, scale: 1000.0, shift: 0.0, aliases: &["ton", "tonne", "metric_ton", "metric ton"] },
        UnitSpec { canon: "l", cat: 1, scale: 1e-3, shift: 0.0, aliases: &["l", "liter", "liters", "litre", "litres"] },
        UnitSpec { canon: "ml", cat: 1, scale: 1e-6, shift: 0.0, aliases: &["ml", "milliliter", "milliliters", "millilitre", "millilitres"] },
        UnitSpec { canon: "gal", cat: 1, scale: GAL, shift: 0.0, aliases: &["gal", "gallon", "gallons"] },
        UnitSpec { canon: "quart", cat: 1, scale: GAL / 4.0, shift: 0.0, aliases: &["quart", "quarts", "qt", "qts", "liquid quart", "liquid_quart"] },
        UnitSpec { canon: "dry quart", cat: 1, scale: BUSHEL / 32.0, shift: 0.0, aliases: &["dry quart", "dry_quart"] },
        UnitSpec { canon: "pint", cat: 1, scale: GAL / 8.0, shift: 0.0, aliases: &["pint", "pints", "pt", "pts", "liquid pint", "liquid_pint"] },
        UnitSpec { canon: "dry pint", cat: 1, scale: BUSHEL / 64.0, shift: 0.0, aliases: &["dry pint", "dry_pint"] },
        UnitSpec { canon: "cup", cat: 1, scale: GAL / 16.0, shift: 0.0, aliases: &["cup", "cups"] },
        UnitSpec { canon: "fl oz", cat: 1, scale: GAL / 128.0, shift: 0.0, aliases: &["fl oz", "floz", "fluid ounce", "fluid_ounce", "fluid-ounce"] },
        UnitSpec { canon: "tbsp", cat: 1, scale: GAL / 256.0, shift: 0.0, aliases: &["tbsp", "tablespoon", "tablespoons"] },
        UnitSpec { canon: "tsp", cat: 1, scale: GAL / 768.0, shift: 0.0, aliases: &["tsp", "teaspoon", "teaspoons"] },
        UnitSpec { canon: "m3", cat: 1, scale: 1.0, shift: 0.0, aliases: &["cubic meter", "cubic_meter", "m3"] },
        UnitSpec { canon: "ft3", cat: 1, scale: 0.3048 * 0.3048 * 0.3048, shift: 0.0, aliases: &["cubic foot", "cubic_foot", "ft3", "cu ft"] },
        UnitSpec { canon: "yd3", cat: 1, scale: 0.9144 * 0.9144 * 0.9144, shift: 0.0, aliases: &["cubic yard", "cubic_yard", "yd3", "cu yd"] },
        UnitSpec { canon: "m/s", cat: 2, scale: 1.0, shift: 0.0, aliases: &["m/s", "meter per second", "meters per second", "meter_per_second"] },
        UnitSpec { canon: "km/h", cat: 2, scale: 1000.0 / 3600.0, shift: 0.0, aliases: &["km/h", "kph", "kilometer per hour", "kilometers per hour", "kilometer_per_hour"] },
        UnitSpec { canon: "mph", cat: 2, scale: 1609.344 / 3600.0, shift: 0.0, aliases: &["mph", "mile per hour", "miles per hour", "mile_per_hour"] },
        UnitSpec { canon: "kn", cat: 2, scale: 1852.0 / 3600.0, shift: 0.0, aliases: &["kn", "knot", "knots"] },
        UnitSpec { canon: "ft/s", cat: 2, scale: 0.3048, shift: 0.0, aliases: &["ft/s", "fps", "foot per second", "feet per second", "foot_per_second"] },
        UnitSpec { canon: "k", cat: 3, scale: 1.0, shift: 0.0, aliases: &["k", "kelvin"] },
        UnitSpec { canon: "c", cat: 3, scale: 1.0, shift: 273.15, aliases: &["c", "celsius"] },
        UnitSpec { canon: "f", cat: 3, scale: 5.0 / 9.0, shift: 459.67, aliases: &["f", "fahrenheit"] },
    ]
}

fn exact_conv(x: f64, a: &UnitSpec, b: &UnitSpec) -> f64 {
    (x + a.shift) * a.scale / b.scale - b.shift
}
/// absolute tolerance of a conversion result: relative 1e-9 of the magnitudes involved
fn tol(x: f64, a: &UnitSpec, b: &UnitSpec) -> f64 {
    1e-9 * (exact_conv(x, a, b).abs() + (x.abs() + a.shift) * a.scale / b.scale + b.shift)
}
fn as_f64(obs: &str) -> Option<f64> {
    if obs == "f:nan" {
        return Some(f64::NAN);
    }
    obs.strip_prefix("f:").and_then(|h| u64::from_str_radix(h, 16).ok()).map(f64::from_bits)
}

struct UomCase {
    input: String,
    request: String,
    got: String,
    x: f64,
    tol: f64,
}

fn uom_eval(run: &mut Runner, x: &CelValue, from: &str, to: &str) -> String {
    run.eval("uomConvert(x, a, b)", &[("x", x.clone()), ("a", CelValue::String(from.to_string())), ("b", CelValue::String(to.to_string()))])
}

fn num_f64(v: &CelValue) -> f64 {
    match v {
        CelValue::Int(i) => *i as f64,
        CelValue::UInt(u) => *u as f64,
        CelValue::Float(f) => *f,
        _ => f64::NAN,
    }
}

fn uom_section(rep: &mut Report, run: &mut Runner, opts: &Opts, rng: &mut Rng) {
    let us = units();
    let mut cases: Vec<UomCase> = Vec::new();
    let mags: Vec<f64> = if opts.thorough {
        vec![0.0, 1e-9, -1e-9, 1e-3, 0.5, -0.5, 1.0, -1.0, 2.5, 37.0, -40.0, 100.0, 273.15, -273.15, 1e6, -1e6, 1e12, -1e12]
    } else {
        vec![0.0, 1e-9, 1.0, -1.0, 2.5, -40.0, 1e6, -1e12]
    };
    let mut push_case = |rep: &mut Report, cases: &mut Vec<UomCase>, run: &mut Runner, xv: &CelValue, from: &str, to: &str, t: f64| -> String {
        let got = uom_eval(run, xv, from, to);
        let input = format!("uomConvert({}, '{}', '{}')", show_val(xv), from, to);
        rep.count(Some(&input));
        if got == "P" {
            rep.oracle_fail(&input, &got, "value or error", "uomConvert panicked");
        }
        cases.push(UomCase { request: format!("uom {} s:{} s:{}", show_val(xv), hex(from.as_bytes()), hex(to.as_bytes())), input, got: got.clone(), x: num_f64(xv), tol: t });
        got
    };
    // every ordered pair of units x magnitudes
    for a in us.iter() {
        for b in us.iter() {
            let mut xs: Vec<CelValue> = mags
                .iter()
                .enumerate()
                .map(|(k, m)| match k % 5 {
                    3 if m.fract() == 0.0 && m.abs() < 9e18 => CelValue::Int(*m as i64),
                    4 if m.fract() == 0.0 && *m >= 0.0 && m.abs() < 1.8e19 => CelValue::UInt(*m as u64),
                    _ => CelValue::Float(*m),
                })
                .collect();
            // integer magnitudes at the edges of their types (a uint above the int range is still its own magnitude)
            xs.extend([CelValue::UInt(u64::MAX), CelValue::UInt(13_835_058_055_282_163_712), CelValue::UInt(1 << 63), CelValue::Int(i64::MAX), CelValue::Int(i64::MIN)]);
            for xv in xs.into_iter() {
                let x = num_f64(&xv);
                let t = if a.cat == b.cat { tol(x, a, b) } else { 0.0 };
                let got = push_case(rep, &mut cases, run, &xv, a.canon, b.canon, t);
                let input = format!("uomConvert({}, '{}', '{}')", show_val(&xv), a.canon, b.canon);
                if a.cat == b.cat {
                    rep.bump(&format!("uom:same-category:{}", ["mass", "volume", "speed", "temperature"][a.cat as usize]));
                    let want = exact_conv(x, a, b);
                    match as_f64(&got) {
                        Some(g) if (g - want).abs() <= t => {}
                        _ => rep.oracle_fail(&input, &got, &format!("{:e} (exact definitions) within {:e}", want, t), "uomConvert disagrees with the exact unit definitions"),
                    }
                    if a.canon == b.canon {
                        match as_f64(&got) {
                            Some(g) if (g - x).abs() <= t => {}
                            _ => rep.oracle_fail(&input, &got, &format!("{:e}", x), "uomConvert is not the identity for equal units"),
                        }
                    }
                } else {
                    rep.bump("uom:cross-category");
                    if !got.starts_with("e:") {
                        rep.oracle_fail(&input, &got, "E", "converting between incompatible units must fail");
                    }
                }
            }
        }
    }
    // aliases under the documented normalisation (case-insensitive, trimmed, leading/trailing degree sign)
    for u in us.iter() {
        for al in u.aliases.iter() {
            let variants: Vec<String> = vec![
                al.to_string(),
                al.to_uppercase(),
                format!("  {}\t", al),
                format!("\u{a0}{}\u{2003}\n", al),
                format!("°{}", al),
                format!("{}°", al.to_uppercase()),
                format!(" °°{}° ", al),
                {
                    let mut c = al.chars();
                    match c.next() {
                        Some(f) => f.to_uppercase().collect::<String>() + c.as_str(),
                        None => String::new(),
                    }
                },
                al.replace('k', "\u{212a}"),
            ];
            for v in variants {
                let x = 12.5;
                let t = tol(x, u, u);
                let got = push_case(rep, &mut cases, run, &CelValue::Float(x), &v, u.canon, t);
                rep.bump("uom:alias-variant");
                match as_f64(&got) {
                    Some(g) if (g - x).abs() <= t => {}
                    _ => rep.oracle_fail(&format!("uomConvert(12.5, {:?}, '{}')", v, u.canon), &got, "12.5", "a documented unit alias (case-insensitive, trimmed, degree sign stripped) is not the unit itself"),
                }
            }
            // not-quite aliases
            for v in [format!("{}x", al), format!("x{}", al), format!("{} °x", al), format!("° {}", al), format!("{}\u{0}", al)] {
                let known = us.iter().any(|w| w.aliases.iter().any(|a| *a == v.trim().to_lowercase().trim_matches('°')));
                let got = push_case(rep, &mut cases, run, &CelValue::Float(1.0), &v, u.canon, 0.0);
                rep.bump("uom:unknown-unit");
                if !known && !got.starts_with("e:") {
                    rep.oracle_fail(&format!("uomConvert(1.0, {:?}, '{}')", v, u.canon), &got, "E", "an unknown unit name must fail");
                }
                let got = push_case(rep, &mut cases, run, &CelValue::Float(1.0), u.canon, &v, 0.0);
                if !known && !got.starts_with("e:") {
                    rep.oracle_fail(&format!("uomConvert(1.0, '{}', {:?})", u.canon, v), &got, "E", "an unknown unit name must fail");
                }
            }
        }
    }
    for bad in ["", " ", "°", "lightyear", "kgs", "kilo gram", "m / s", "K°C", "ºc", "meters", "L/s", "kg\u{301}", "ǅ", "İ", "ß", "\u{212a}g", "celsius fahrenheit"] {
        for other in ["kg", "l", "m/s", "c", bad] {
            let got = push_case(rep, &mut cases, run, &CelValue::Int(1), bad, other, 0.0);
            rep.bump("uom:unknown-unit");
            let known = us.iter().any(|w| w.aliases.iter().any(|a| *a == bad.trim().to_lowercase().trim_matches('°')));
            if !known && !got.starts_with("e:") {
                rep.oracle_fail(&format!("uomConvert(1, {:?}, {:?})", bad, other), &got, "E", "an unknown unit name must fail");
            }
            let _ = push_case(rep, &mut cases, run, &CelValue::Int(1), other, bad, 0.0);
        }
    }
    // non-numeric values, non-finite doubles
    for v in [CelValue::String("1".into()), CelValue::Null, CelValue::Bool(true), CelValue::List(vec![]), tsv(0), durv(0)] {
        let got = run.eval("uomConvert(x, a, b)", &[("x", v.clone()), ("a", CelValue::String("kg".into())), ("b", CelValue::String("g".into()))]);
        rep.count(None);
        rep.bump("malformed:uom-value-type");
        if !got.starts_with("e:") {
            rep.oracle_fail(&format!("uomConvert({}, 'kg', 'g')", show_val(&v)), &got, "E", "uomConvert of a non-number must fail");
        }
        cases.push(UomCase { request: format!("uom {} s:{} s:{}", show_val(&v), hex(b"kg"), hex(b"g")), input: format!("uomConvert({}, 'kg', 'g')", show_val(&v)), got, x: f64::NAN, tol: 0.0 });
    }
    for v in [f64::INFINITY, f64::NEG_INFINITY, f64::NAN] {
        for (a, b) in [("kg", "lb"), ("c", "f"), ("kg", "l")] {
            let _ = push_case(rep, &mut cases, run, &CelValue::Float(v), a, b, 0.0);
            rep.bump("uom:non-finite-value");
        }
    }
    // laws on the implementation's own outputs: inverse and transitivity over random magnitudes
    let n = if opts.thorough { 150_000 } else { 6_000 };
    for _ in 0..n {
        let a = &us[rng.below(us.len())];
        let same: Vec<&UnitSpec> = us.iter().filter(|u| u.cat == a.cat).collect();
        let b = same[rng.below(same.len())];
        let c = same[rng.below(same.len())];
        let x = match rng.below(4) {
            0 => rng.range(-1_000_000, 1_000_000) as f64 / 1000.0,
            1 => (rng.range(-1_000_000_000, 1_000_000_000) as f64) * 10f64.powi(rng.range(-12, 6) as i32),
            2 => rng.range(-500, 500) as f64,
            _ => f64::from_bits(rng.next_u64() % (0x4530_0000_0000_0000 - 0x3A00_0000_0000_0000) + 0x3A00_0000_0000_0000) * if rng.chance(1, 2) { -1.0 } else { 1.0 },
        };
        let xv = CelValue::Float(x);
        let t_ab = tol(x, a, b);
        let y = push_case(rep, &mut cases, run, &xv, a.canon, b.canon, t_ab);
        rep.bump("uom:law-inverse/transitive");
        let input = format!("x={:e} {} -> {} -> {}", x, a.canon, b.canon, c.canon);
        let yv = match as_f64(&y) {
            Some(v) => v,
            None => {
                rep.oracle_fail(&input, &y, "a double", "uomConvert within one category failed");
                continue;
            }
        };
        if (yv - exact_conv(x, a, b)).abs() > t_ab {
            rep.oracle_fail(&input, &y, &format!("{:e}", exact_conv(x, a, b)), "uomConvert disagrees with the exact unit definitions");
        }
        // inverse
        let back = uom_eval(run, &CelValue::Float(yv), b.canon, a.canon);
        rep.count(None);
        let t_back = 1e-9 * (x.abs() + a.shift + (yv.abs() + b.shift) * b.scale / a.scale);
        match as_f64(&back) {
            Some(g) if (g - x).abs() <= t_back => {}
            _ => rep.oracle_fail(&input, &back, &format!("{:e}", x), "uomConvert is not invertible: converting back does not return the value"),
        }
        // transitivity
        let via = uom_eval(run, &CelValue::Float(yv), b.canon, c.canon);
        let direct = uom_eval(run, &xv, a.canon, c.canon);
        rep.count(None);
        rep.count(None);
        let t_ac = 2.0 * tol(x, a, c) + 1e-9 * (yv.abs() + b.shift) * b.scale / c.scale;
        match (as_f64(&via), as_f64(&direct)) {
            (Some(p), Some(q)) if (p - q).abs() <= t_ac => {}
            _ => rep.oracle_fail(&input, &format!("via {} direct {}", via, direct), "equal within tolerance", "uomConvert is not transitive"),
        }
    }
    // model: exact rational result vs the double
    let reqs: Vec<String> = cases.iter().map(|c| c.request.clone()).collect();
    rep.model_requests += reqs.len() as u64;
    match run_model(&opts.driver, &reqs) {
        Err(e) => rep.model_error = Some(e),
        Ok(ans) => {
            for (c, a) in cases.iter().zip(ans.iter()) {
                let agree = if let Some(q) = a.strip_prefix("q:") {
                    match (q.parse::<f64>().ok(), as_f64(&c.got)) {
                        (Some(m), Some(g)) => (g - m).abs() <= c.tol.max(1e-9 * m.abs()),
                        _ => false,
                    }
                } else if a == "nonfinite" {
                    matches!(as_f64(&c.got), Some(g) if !g.is_finite()) && !c.x.is_finite()
                } else {
                    l1(a) == "E" && l1(&c.got) == "E"
                };
                if !agree && rep.disagreements.len() < 200 {
                    rep.disagreements.push(Failure { input: c.input.clone(), implementation: c.got.clone(), expected: a.clone(), why: format!("model request: {}", c.request) });
                }
            }
        }
    }
}

pub fn run(opts: &Opts) -> Report {
    let mut rep = Report::new(
        "C16",
        "instants at chrono's range edges, year/month boundaries, every Feb 28/29/Mar 1 of 1896-2104 (and +-260000 years), DST transition instants +-1 s of 42 zones, random (secs, nanos); \
         x all ten accessors, zone-less / every IANA name of chrono_tz::TZ_VARIANTS / invalid names; ts/duration arithmetic laws over pool x pool and random pairs incl. out-of-range; duration accessors; \
         uomConvert over every ordered unit pair x magnitudes, every alias x normalisation variants, unknown names, inverse/transitivity on random magnitudes; \
         non-trivial = distinct (expression, operands); oracles: exact i128 nanoseconds, chrono/chrono-tz called directly + a year-counting calendar, exact unit definitions; model compared on every evaluation",
    );
    let mut rng = Rng::new(opts.seed ^ 0xC16);
    let zone_names: HashSet<&'static str> = TZ_VARIANTS.iter().map(|z| z.name()).collect();
    let mut st = St { rep: &mut rep, pending: Vec::new(), run: Runner::new(), zone_names, known_dow: 0 };
    let th = opts.thorough;

    // self-test of the reference calendar against chrono on the boundary pool (a harness problem otherwise)
    let bounds = boundary_instants();
    for (n, _) in bounds.iter() {
        let t = ts_of(*n).unwrap();
        if fields_slow(*n, 0) != fields_chrono(&t, None) {
            st.rep.oracle_fail(&format!("ts:{}", n), &format!("{:?}", fields_chrono(&t, None)), &format!("{:?}", fields_slow(*n, 0)), "the two reference calendars disagree (harness problem)");
        }
    }

    // 0. the instant and zone of the existing test (2024-01-10T08:57:45.123Z, 'US/Pacific'): first recorded example of the known finding
    st.check_accessors(1_704_877_065_123_000_000, None, "suite-instant");
    st.check_accessors(1_704_877_065_123_000_000, Some("US/Pacific"), "suite-instant");
    st.check_accessors(1_704_877_065_123_000_000, Some("UTC"), "suite-instant");
    st.check_zoneless_eq_utc(1_704_877_065_123_000_000);

    // 1. accessors on boundary instants: zone-less, UTC, and a rotating selection of zones
    let all_zones: Vec<&'static str> = TZ_VARIANTS.iter().map(|z| z.name()).collect();
    for (i, (n, tag)) in bounds.iter().enumerate() {
        let stride = if th { 1 } else { 5 };
        if *tag != "range-edge" && *tag != "epoch" && i % stride != 0 {
            continue;
        }
        st.check_accessors(*n, None, tag);
        st.check_accessors(*n, Some("UTC"), tag);
        st.check_zoneless_eq_utc(*n);
        let z = all_zones[rng.below(all_zones.len())];
        st.check_accessors(*n, Some(z), tag);
        if *tag == "range-edge" {
            for z in ["Pacific/Kiritimati", "Etc/GMT+12", "US/Pacific", "Asia/Kathmandu", "Pacific/Apia"] {
                st.check_accessors(*n, Some(z), tag);
            }
        }
    }
    // 2. DST transitions +-1 s
    for zn in DST_ZONES.iter() {
        let tz = match Tz::from_str(zn) {
            Ok(t) => t,
            Err(_) => {
                st.rep.notes.push(format!("zone {} is not in this tz database", zn));
                continue;
            }
        };
        let trs = transitions(tz);
        st.rep.bump(&format!("dst-transitions-found:{}", if trs.is_empty() { "none" } else { "some" }));
        let pick: Vec<i64> = if th || trs.len() <= 6 {
            trs.clone()
        } else {
            let mut p = vec![trs[0], trs[trs.len() - 1]];
            for _ in 0..4 {
                p.push(trs[rng.below(trs.len())]);
            }
            p
        };
        for tr in pick {
            for n in [(tr - 1) as i128 * NS + 999_999_999, tr as i128 * NS, (tr + 1) as i128 * NS + 1_000_000] {
                st.check_accessors(n, Some(zn), "dst-transition");
                if th {
                    st.check_accessors(n, None, "dst-transition");
                }
            }
        }
    }
    // 3. every IANA name x instants
    let per_zone = if th { 40 } else { 2 };
    for z in all_zones.iter() {
        for k in 0..per_zone {
            let n = if k == 0 { 1_704_877_065_123_000_000i128 } else { random_instant(&mut rng) };
            st.check_accessors(n, Some(z), "all-zones");
        }
    }
    // 4. random instants x (zone-less, UTC, random zone)
    let n_rand = if th { 200_000 } else { 2_500 };
    for _ in 0..n_rand {
        let n = random_instant(&mut rng);
        st.check_accessors(n, None, "random");
        match rng.below(4) {
            0 => st.check_zoneless_eq_utc(n),
            1 => st.check_accessors(n, Some("UTC"), "random"),
            _ => {
                let z = all_zones[rng.below(all_zones.len())];
                st.check_accessors(n, Some(z), "random")
            }
        }
    }
    // 4b. the same instant handed over as a chrono value with a fixed offset is the same timestamp (the conversion
    // converts the instant, it does not relabel the local fields), also through the accessors
    {
        let mut insts: Vec<i128> = bounds.iter().filter(|(_, t)| *t == "epoch" || *t == "year-boundary").map(|(n, _)| *n).take(12).collect();
        insts.extend([1_704_877_065_123_000_000i128, day_start(2024, 3, 10) + 9 * 3600 * NS + 1800 * NS, day_start(2023, 12, 31) + 23 * 3600 * NS]);
        for _ in 0..(if th { 2000 } else { 60 }) {
            insts.push(random_instant(&mut rng));
        }
        for n in insts {
            let t = match ts_of(n) {
                Some(t) => t,
                None => continue,
            };
            for off in [0i32, -8 * 3600, 5 * 3600 + 45 * 60, 14 * 3600, -12 * 3600, 1, -86_399] {
                let fo = match chrono::FixedOffset::east_opt(off) {
                    Some(f) => f,
                    None => continue,
                };
                let local = t.with_timezone(&fo);
                // (instants within a day of chrono's range edges have no local form at every offset)
                if n.abs() > 8_000_000_000_000_000_000_000i128 {
                    continue;
                }
                let v = guarded(move || show_val(&CelValue::from(local)));
                st.rep.count(Some(&format!("from-fixed-offset|{}|{}", n, off)));
                st.rep.bump("conversion:DateTime<FixedOffset>");
                if v != show_val(&tsv(n)) {
                    st.rep.oracle_fail(&format!("CelValue::from(ts:{} at offset {} s)", n, off), &v, &show_val(&tsv(n)), "a chrono value with a fixed offset converts to the same instant");
                }
                let got = st.run.eval("[t == u, t.getHours() == u.getHours(), t.getDayOfYear('UTC') == u.getDayOfYear('UTC'), t - u == duration('0s')]", &[("t", CelValue::from(local)), ("u", tsv(n))]);
                if got != "l:4 b:1 b:1 b:1 b:1" {
                    st.rep.oracle_fail(&format!("t = CelValue::from(ts:{} at offset {} s), u = the same instant in UTC: [t == u, t.getHours() == u.getHours(), ...]", n, off), &got, "l:4 b:1 b:1 b:1 b:1", "a chrono value with a fixed offset converts to the same instant");
                }
            }
        }
    }
    // 5. invalid zone names
    let mut bad: Vec<String> = ["", " ", "utc", "Utc", "UTC ", " UTC", "UTC+1", "+01:00", "Z", "GMT+25", "Nowhere/City", "Europe", "Europe/", "/Europe/Paris", "europe/paris", "EUROPE/PARIS", "Europe/Paris\0", "Europe\\Paris", "US/pacific", "America/New York", "PST8PDT8", "local", "Local", "1", "null", "Etc/GMT+15", "\u{212a}", "Europe/Zürich", "Asia/Calcutta2"]
        .iter()
        .map(|s| s.to_string())
        .collect();
    for _ in 0..(if th { 600 } else { 60 }) {
        let z = all_zones[rng.below(all_zones.len())];
        let mut cs: Vec<char> = z.chars().collect();
        match rng.below(5) {
            0 => {
                let i = rng.below(cs.len());
                cs[i] = if cs[i].is_ascii_uppercase() { cs[i].to_ascii_lowercase() } else { cs[i].to_ascii_uppercase() };
            }
            1 => {
                cs.pop();
            }
            2 => cs.push(*rng.pick(&['x', ' ', '/', '0'])),
            3 => {
                let i = rng.below(cs.len());
                cs.remove(i);
            }
            _ => {
                let i = rng.below(cs.len() + 1);
                cs.insert(i, *rng.pick(&[' ', '_', '-', 'é']));
            }
        }
        bad.push(cs.into_iter().collect());
    }
    for z in bad.iter() {
        for n in [0i128, 1_704_877_065_123_000_000] {
            st.check_accessors(n, Some(z), "invalid-zone");
        }
    }
    // 6. malformed call shapes
    {
        let t = tsv(1_704_877_065_123_000_000);
        let utc = CelValue::String("UTC".into());
        let others = [CelValue::Int(0), CelValue::UInt(0), CelValue::Float(0.0), CelValue::String("2024-01-10T08:57:45Z".into()), CelValue::Null, CelValue::Bool(true), CelValue::List(vec![]), CelValue::from_bytes(vec![1])];
        for f in FIELDS.iter() {
            for o in others.iter() {
                st.check_malformed_call(f, &format!("x.{}()", f), o, &[], &[("x", o.clone())]);
                st.check_malformed_call(f, &format!("x.{}(z)", f), o, &[utc.clone()], &[("x", o.clone()), ("z", utc.clone())]);
                st.check_malformed_call(f, &format!("t.{}(x)", f), &t, &[o.clone()], &[("t", t.clone()), ("x", o.clone())]);
            }
            st.check_malformed_call(f, &format!("t.{}(z, z)", f), &t, &[utc.clone(), utc.clone()], &[("t", t.clone()), ("z", utc.clone())]);
            st.check_malformed_call(f, &format!("{}(t)", f), &CelValue::Null, &[t.clone()], &[("t", t.clone())]);
            st.check_malformed_call(f, &format!("{}(t, z)", f), &CelValue::Null, &[t.clone(), utc.clone()], &[("t", t.clone()), ("z", utc.clone())]);
            st.check_malformed_call(f, &format!("{}()", f), &CelValue::Null, &[], &[]);
            st.check_malformed_call(f, &format!("d.{}(z)", f), &durv(NS), &[utc.clone()], &[("d", durv(NS)), ("z", utc.clone())]);
        }
    }
    // 7. arithmetic laws: pool x pool, then random
    let inst_pool: Vec<i128> = {
        let mut v: Vec<i128> = bounds.iter().filter(|(_, t)| *t == "range-edge" || *t == "epoch").map(|(n, _)| *n).collect();
        v.extend([day_start(2000, 2, 29), day_start(2024, 1, 10) + 32_265_123_000_000, day_start(1, 1, 1), day_start(1969, 12, 31) + 86_399_999_999_999]);
        v
    };
    let dpool = duration_pool();
    for t in inst_pool.iter() {
        for d in dpool.iter() {
            st.check_ts_dur(*t, *d);
        }
    }
    for (i, a) in inst_pool.iter().enumerate() {
        for (j, b) in inst_pool.iter().enumerate() {
            if th || (i + j) % 3 == 0 || i == j {
                st.check_ts_pair(*a, *b);
            }
        }
    }
    for a in dpool.iter() {
        for b in dpool.iter() {
            st.check_dur_pair(*a, *b);
        }
    }
    let n_ar = if th { 120_000 } else { 2_500 };
    for _ in 0..n_ar {
        let (t, t2) = (random_instant(&mut rng), random_instant(&mut rng));
        let (d, d2) = (random_duration(&mut rng), random_duration(&mut rng));
        st.check_ts_dur(t, d);
        st.check_ts_pair(t, t2);
        st.check_dur_pair(d, d2);
        // a duration that lands exactly on / just beyond a range edge
        if rng.chance(1, 4) {
            let edge = if rng.chance(1, 2) { ts_max() } else { ts_min() };
            let dd = edge - t + rng.range(-1, 1) as i128;
            if dd >= dur_min() && dd <= dur_max() {
                st.check_ts_dur(t, dd);
            }
        }
    }
    // 8. duration accessors
    for d in dpool.iter() {
        st.check_dur_accessors(*d);
    }
    for _ in 0..(if th { 150_000 } else { 3_000 }) {
        let d = random_duration(&mut rng);
        st.check_dur_accessors(d);
    }

    let St { pending, mut run, known_dow, .. } = st;
    rep.sample(json!({"known_finding_occurrences": known_dow, "signature": KNOWN_DOW_WHY}));
    rep.sample(json!({"expr": "t.getDayOfWeek('US/Pacific')", "t": "2024-01-10T08:57:45.123Z", "impl": run.eval("t.getDayOfWeek(z)", &[("t", tsv(1_704_877_065_123_000_000)), ("z", CelValue::String("US/Pacific".into()))])}));
    rep.sample(json!({"expr": "uomConvert(1, 'lb', 'kg')", "impl": as_f64(&uom_eval(&mut run, &CelValue::Int(1), "lb", "kg"))}));
    rep.compare_with_model(&opts.driver, &pending);
    // 9. units
    uom_section(&mut rep, &mut run, opts, &mut rng);
    rep.notes.push(format!("tz database: {} names (chrono-tz {}); zone offsets are supplied to the model per request by the harness from chrono-tz", TZ_VARIANTS.len(), "0.10"));
    rep.notes.push(format!("getDayOfWeek(zone) = documented + 1 observed {} times (recorded 3 times at most, signature: {})", known_dow, KNOWN_DOW_WHY));
    rep
}
