//! C11 — evaluation is a pure, deterministic function of program text and bindings.
//!
//! Histories of API calls {add program (from text / prebuilt), replace, bind, rebind, bind function, clone context,
//! clone bindings, exec, inspect, get_param} on 2 contexts x 2 bind sets (clones are appended) are applied to the real
//! `CelContext` / `BindContext` and to the model's `World.step` (`hist` driver command); every output is compared.
//!
//! Oracle (model-free), after every history, for every (context, program, bind set):
//!   * the execution is repeated 3x — equal results;
//!   * `get_program(..).source()/params()` of every context and `get_param` of every bind set are the same before
//!     and after the executions;
//!   * clones taken before and after give the same result;
//!   * a *fresh* `CelContext` / `BindContext` built only from the latest definition per name (tracked by the harness,
//!     inserted in a different order, values rebuilt from scratch so that every `HashMap` is a new instance) gives the
//!     same result — this is history independence, independence of clones and absence of hidden state in one check;
//!   * thorough tier: 16 threads x 200 repetitions of a set of histories, each thread with its own contexts, all
//!     observations equal.
use crate::report::{Pending, Report};
use crate::rng::Rng;
use crate::wire::{hex, show_result, show_val};
use crate::Opts;
use rscel::{BindContext, CelContext, CelValue, Program};
use serde_json::json;
use std::collections::{BTreeMap, HashMap};

#[derive(Clone, Debug)]
pub enum HOp {
    AddSrc { c: usize, name: &'static str, src: &'static str },
    AddProg { c: usize, name: &'static str, src: &'static str },
    Bind { b: usize, name: &'static str, val: usize },
    BindFn { b: usize, name: &'static str, f: usize },
    CloneCtx { c: usize },
    CloneBinds { b: usize },
    Exec { c: usize, name: &'static str, b: usize },
    Inspect { c: usize, name: &'static str },
    GetParam { b: usize, name: &'static str },
}

const SOURCES: [&str; 22] = [
    "1",
    "x",
    "b + 1",
    "a",
    "m.map(k, k)",
    "m.filter(k, true)",
    "[x, 2].map(k, k + 1)",
    "f'{x}-{b}'",
    "[3, 1, 2].sort()",
    "tick(x)",
    "size(m.map(k, k + 'z'))",
    "1 +",
    "m.map(k, m[k])",
    "has(x) ? x : 0",
    "{'p': x, 'q': 1, 'r': 2, 's': 3, 't': 4, 'u': 5}.map(k, k)",
    "m.filter(k, k != 'k3').map(k, k)",
    "[1, 2, 3].reduce(acc, k, acc + k, 0) + b",
    "x.sort()",
    "coalesce(x, 5)",
    "{'p': 1, 'q': x, 'r': 3, 's': 4, 't': 5}.filter(k, k != 'q')",
    // a map comparison with one failing entry among several unequal ones: the answer must not depend on the order
    // in which a HashMap happens to be walked (folded at compile time / evaluated at run time)
    "{'a': [1][5], 'b': 1, 'c': 2, 'd': 3, 'e': 4, 'f': 5} == {'a': 0, 'b': 9, 'c': 9, 'd': 9, 'e': 9, 'f': 9}",
    "{'a': m.zz, 'b': x, 'c': 2, 'd': 3, 'e': 4, 'f': 5} == {'a': 0, 'b': 9, 'c': 9, 'd': 9, 'e': 9, 'f': 9}",
];
const PROG_NAMES: [&str; 3] = ["a", "b", "x"];
const PARAM_NAMES: [&str; 3] = ["x", "m", "b"];
const FN_NAMES: [&str; 2] = ["tick", "size"];
const ALL_NAMES: [&str; 6] = ["a", "b", "x", "m", "tick", "zz"];
const NVALS: usize = 10;

/// Values are rebuilt from scratch at every use: each `HashMap` is a new instance with its own hash seed.
fn mk_value(id: usize) -> CelValue {
    match id {
        0 => CelValue::Int(1),
        1 => CelValue::Int(2),
        2 => CelValue::String("s".into()),
        3 => CelValue::List(vec![CelValue::Int(3), CelValue::Int(1), CelValue::Int(2)]),
        4 => {
            let mut m = HashMap::new();
            for i in 1..=6 {
                m.insert(format!("k{}", i), CelValue::Int(i));
            }
            CelValue::Map(m)
        }
        5 => {
            let mut m = HashMap::new();
            for (i, k) in ["zeta", "alpha", "é", "k3", "Beta", "", "mid"].iter().enumerate() {
                m.insert(k.to_string(), CelValue::Int(i as i64));
            }
            CelValue::Map(m)
        }
        6 => CelValue::Null,
        7 => CelValue::UInt(7),
        8 => {
            // keys that differ only in letter case: one fixed iteration order must not rely on a case-folded key
            let mut m = HashMap::new();
            for (i, k) in ["id", "ID", "Id", "iD", "name", "Name", "NAME"].iter().enumerate() {
                m.insert(k.to_string(), CelValue::Int(i as i64));
            }
            CelValue::Map(m)
        }
        _ => CelValue::Bool(true),
    }
}

fn user_fn(id: usize, args: &[CelValue]) -> CelValue {
    match id {
        0 => args.get(0).cloned().unwrap_or(CelValue::Null),
        1 => CelValue::Int(1),
        _ => CelValue::Int(2),
    }
}

fn fn_wire(id: usize) -> &'static str {
    match id {
        0 => "arg0",
        1 => "const i:1",
        _ => "const i:2",
    }
}

fn op_wire(op: &HOp) -> String {
    match op {
        HOp::AddSrc { c, name, src } => format!("A {} {} {}", c, hex(name.as_bytes()), hex(src.as_bytes())),
        HOp::AddProg { c, name, src } => format!("G {} {} {}", c, hex(name.as_bytes()), hex(src.as_bytes())),
        HOp::Bind { b, name, val } => format!("B {} {} {}", b, hex(name.as_bytes()), show_val(&mk_value(*val))),
        HOp::BindFn { b, name, f } => format!("F {} {} {}", b, hex(name.as_bytes()), fn_wire(*f)),
        HOp::CloneCtx { c } => format!("CC {}", c),
        HOp::CloneBinds { b } => format!("CB {}", b),
        HOp::Exec { c, name, b } => format!("E {} {} {}", c, hex(name.as_bytes()), b),
        HOp::Inspect { c, name } => format!("I {} {}", c, hex(name.as_bytes())),
        HOp::GetParam { b, name } => format!("P {} {}", b, hex(name.as_bytes())),
    }
}

/// What the harness knows about one context / bind set from the calls alone: the latest definition per name.
#[derive(Clone, Default)]
struct CtxTrack {
    progs: BTreeMap<&'static str, &'static str>,
}
#[derive(Clone, Default)]
struct BindTrack {
    params: BTreeMap<&'static str, usize>,
    funcs: BTreeMap<&'static str, usize>,
}

fn snapshot(ctxs: &[CelContext], binds: &[BindContext]) -> String {
    let mut s = String::new();
    for (i, c) in ctxs.iter().enumerate() {
        for n in ALL_NAMES.iter() {
            if let Some(p) = c.get_program(n) {
                let mut ps: Vec<&str> = p.params();
                ps.sort();
                s.push_str(&format!("ctx{} {} src={:?} params={:?} details={:?};", i, n, p.source(), ps, c.program_details(n).map(|d| d.source().map(|x| x.to_string()))));
            }
        }
    }
    for (i, b) in binds.iter().enumerate() {
        for n in ALL_NAMES.iter() {
            if let Some(v) = b.get_param(n) {
                s.push_str(&format!("binds{} {}={};", i, n, show_val(v)));
            }
            s.push_str(&format!("binds{} {} bound={};", i, n, b.is_bound(n)));
        }
    }
    s
}

pub struct HistoryResult {
    pub outputs: Vec<String>,
    pub failures: Vec<(String, String, String, String)>,
    pub final_execs: u64,
}

/// Apply a history to the real API (on `nctx` fresh contexts and `nbinds` fresh bind sets), then run the final oracle.
/// `probe`: the executions appended to the history for the model comparison are generated by the caller; here the
/// oracle looks at every (context, name, bind set).
pub fn run_history(ops: &[HOp], nctx: usize, nbinds: usize, oracle: bool) -> HistoryResult {
    let f0 = |_t: CelValue, a: Vec<CelValue>| user_fn(0, &a);
    let f1 = |_t: CelValue, a: Vec<CelValue>| user_fn(1, &a);
    let f2 = |_t: CelValue, a: Vec<CelValue>| user_fn(2, &a);
    let fns: [&dyn Fn(CelValue, Vec<CelValue>) -> CelValue; 3] = [&f0, &f1, &f2];
    let mut ctxs: Vec<CelContext> = (0..nctx).map(|_| CelContext::new()).collect();
    let mut binds: Vec<BindContext> = (0..nbinds).map(|_| BindContext::new()).collect();
    let mut ctrack: Vec<CtxTrack> = vec![CtxTrack::default(); nctx];
    let mut btrack: Vec<BindTrack> = vec![BindTrack::default(); nbinds];
    let mut outputs = Vec::new();
    let mut failures = Vec::new();
    let describe = |ops: &[HOp]| -> String { ops.iter().map(|o| format!("{:?}", o)).collect::<Vec<_>>().join("; ") };
    for op in ops {
        let out = match op {
            HOp::AddSrc { c, name, src } => match ctxs[*c].add_program_str(name, src) {
                Ok(()) => {
                    ctrack[*c].progs.insert(name, src);
                    "ok".to_string()
                }
                Err(_) => "rejected".to_string(),
            },
            HOp::AddProg { c, name, src } => match Program::from_source(src) {
                Ok(p) => {
                    ctxs[*c].add_program(name, p);
                    ctrack[*c].progs.insert(name, src);
                    "ok".to_string()
                }
                Err(_) => "rejected".to_string(),
            },
            HOp::Bind { b, name, val } => {
                binds[*b].bind_param(name, mk_value(*val));
                btrack[*b].params.insert(name, *val);
                "ok".to_string()
            }
            HOp::BindFn { b, name, f } => {
                binds[*b].bind_func(name, fns[*f]);
                btrack[*b].funcs.insert(name, *f);
                "ok".to_string()
            }
            HOp::CloneCtx { c } => {
                let x = ctxs[*c].clone();
                ctxs.push(x);
                let t = ctrack[*c].clone();
                ctrack.push(t);
                "ok".to_string()
            }
            HOp::CloneBinds { b } => {
                let x = binds[*b].clone();
                binds.push(x);
                let t = btrack[*b].clone();
                btrack.push(t);
                "ok".to_string()
            }
            HOp::Exec { c, name, b } => {
                let before = if oracle { snapshot(&ctxs, &binds) } else { String::new() };
                let r = show_result(&ctxs[*c].exec(name, &binds[*b]));
                if oracle && snapshot(&ctxs, &binds) != before {
                    failures.push((describe(ops), "state changed".to_string(), "unchanged programs and bindings".to_string(), format!("exec({}, {}, {}) changed stored programs or bindings", c, name, b)));
                }
                r
            }
            HOp::Inspect { c, name } => match ctxs[*c].get_program(name) {
                None => "none".to_string(),
                Some(p) => match p.source() {
                    Some(s) => format!("src:{}", hex(s.as_bytes())),
                    None => "nosource".to_string(),
                },
            },
            HOp::GetParam { b, name } => match binds[*b].get_param(name) {
                None => "none".to_string(),
                Some(v) => show_val(v),
            },
        };
        outputs.push(out);
    }
    let mut final_execs = 0u64;
    if oracle {
        let before = snapshot(&ctxs, &binds);
        for c in 0..ctxs.len() {
            for b in 0..binds.len() {
                let mut names: Vec<&'static str> = ctrack[c].progs.keys().cloned().collect();
                names.push("zz");
                // a fresh world from the latest definitions only, inserted in reverse order
                let mut fresh_ctx = CelContext::new();
                for (n, src) in ctrack[c].progs.iter().rev() {
                    let _ = fresh_ctx.add_program_str(n, src);
                }
                let mut fresh_binds = BindContext::new();
                for (n, f) in btrack[b].funcs.iter().rev() {
                    fresh_binds.bind_func(n, fns[*f]);
                }
                for (n, v) in btrack[b].params.iter().rev() {
                    fresh_binds.bind_param(n, mk_value(*v));
                }
                let mut clone_ctx_before = ctxs[c].clone();
                let clone_binds_before = binds[b].clone();
                for name in names {
                    let what = |k: &str| format!("{} of exec(ctx {}, {}, binds {})", k, c, name, b);
                    let r1 = show_result(&ctxs[c].exec(name, &binds[b]));
                    let r2 = show_result(&ctxs[c].exec(name, &binds[b]));
                    let r3 = show_result(&ctxs[c].exec(name, &binds[b]));
                    final_execs += 3;
                    if r2 != r1 || r3 != r1 {
                        failures.push((describe(ops), format!("{} / {} / {}", r1, r2, r3), "three equal results".to_string(), what("repetition")));
                    }
                    let rf = show_result(&fresh_ctx.exec(name, &fresh_binds));
                    if rf != r1 {
                        failures.push((describe(ops), r1.clone(), rf.clone(), what("fresh context/bindings holding only the latest definitions")));
                    }
                    // a fresh context holding only the programs this one can reach by name (a name bound as a variable is
                    // the variable, not a program): programs that are not referenced must not matter
                    {
                        let bound: Vec<&str> = btrack[b].params.iter().map(|(n, _)| *n).collect();
                        let mut need: Vec<&str> = vec![name];
                        let mut i = 0;
                        while i < need.len() {
                            let cur = need[i];
                            i += 1;
                            if let Some((_, src)) = ctrack[c].progs.iter().find(|(n, _)| **n == cur) {
                                if let Ok(p) = rscel::Program::from_source(src) {
                                    for q in p.params() {
                                        if let Some((pn, _)) = ctrack[c].progs.iter().find(|(n, _)| **n == q) {
                                            if !bound.contains(pn) && !need.contains(pn) {
                                                need.push(*pn);
                                            }
                                        }
                                    }
                                }
                            }
                        }
                        let mut min_ctx = CelContext::new();
                        for (n, src) in ctrack[c].progs.iter() {
                            if need.contains(n) {
                                let _ = min_ctx.add_program_str(n, src);
                            }
                        }
                        let rmin = show_result(&min_ctx.exec(name, &fresh_binds));
                        final_execs += 1;
                        if rmin != r1 {
                            failures.push((describe(ops), r1.clone(), rmin.clone(), what("fresh context holding only the programs reachable by name from the executed one")));
                        }
                    }
                    let rb = show_result(&clone_ctx_before.exec(name, &clone_binds_before));
                    if rb != r1 {
                        failures.push((describe(ops), r1.clone(), rb.clone(), what("clones taken before")));
                    }
                    let mut ca = ctxs[c].clone();
                    let ba = binds[b].clone();
                    let ra = show_result(&ca.exec(name, &ba));
                    if ra != r1 {
                        failures.push((describe(ops), r1.clone(), ra.clone(), what("clones taken after")));
                    }
                    // mixed: original context with cloned bindings and the other way round
                    let rm = show_result(&ctxs[c].exec(name, &ba));
                    let rn = show_result(&ca.exec(name, &binds[b]));
                    final_execs += 5;
                    if rm != r1 || rn != r1 {
                        failures.push((describe(ops), r1.clone(), format!("{} / {}", rm, rn), what("original/clone mixes")));
                    }
                }
            }
        }
        if snapshot(&ctxs, &binds) != before {
            failures.push((describe(ops), "state changed".to_string(), "unchanged programs and bindings".to_string(), "the final executions changed stored programs or bindings".to_string()));
        }
        // clones evolve independently: change every clone, the originals keep their observations
        if !ctxs.is_empty() && !binds.is_empty() {
            let snap0 = snapshot(&ctxs[..1], &binds[..1]);
            let mut cc = ctxs[0].clone();
            let mut bb = binds[0].clone();
            let _ = cc.add_program_str("a", "12345");
            let _ = cc.add_program_str("zz", "1");
            bb.bind_param("x", CelValue::Int(777));
            bb.bind_param("zz", CelValue::Int(1));
            bb.bind_func("tick", fns[2]);
            if snapshot(&ctxs[..1], &binds[..1]) != snap0 {
                failures.push((describe(ops), "original changed".to_string(), "original unchanged".to_string(), "writing to a clone changed the original".to_string()));
            }
            let snapc = snapshot(std::slice::from_ref(&cc), std::slice::from_ref(&bb));
            let _ = ctxs[0].add_program_str("a", "54321");
            binds[0].bind_param("x", CelValue::Int(888));
            if snapshot(std::slice::from_ref(&cc), std::slice::from_ref(&bb)) != snapc {
                failures.push((describe(ops), "clone changed".to_string(), "clone unchanged".to_string(), "writing to the original changed an earlier clone".to_string()));
            }
        }
    }
    HistoryResult { outputs, failures, final_execs }
}

/// Symbolic alphabet for the exhaustive short sequences: targets are `0` or `last`.
#[derive(Clone, Copy)]
enum Tgt {
    Zero,
    Last,
}
#[derive(Clone, Copy)]
enum Sym {
    Add(Tgt, &'static str, &'static str),
    Prog(Tgt, &'static str, &'static str),
    Bind(Tgt, &'static str, usize),
    Fun(Tgt, &'static str, usize),
    CloneCtx(Tgt),
    CloneBinds(Tgt),
    Exec(Tgt, &'static str, Tgt),
}

const ALPHABET: [Sym; 16] = [
    Sym::Add(Tgt::Zero, "a", "x"),
    Sym::Add(Tgt::Zero, "a", "b + 1"),
    Sym::Add(Tgt::Last, "b", "m.map(k, k)"),
    Sym::Add(Tgt::Zero, "b", "1 +"),
    Sym::Prog(Tgt::Last, "a", "1"),
    Sym::Add(Tgt::Zero, "b", "[x, 2].map(k, k + 1)"),
    Sym::Bind(Tgt::Zero, "x", 0),
    Sym::Bind(Tgt::Last, "x", 1),
    Sym::Bind(Tgt::Zero, "m", 4),
    Sym::Bind(Tgt::Last, "b", 1),
    Sym::CloneCtx(Tgt::Zero),
    Sym::CloneBinds(Tgt::Zero),
    Sym::Exec(Tgt::Zero, "a", Tgt::Zero),
    Sym::Exec(Tgt::Last, "a", Tgt::Last),
    Sym::Exec(Tgt::Last, "b", Tgt::Zero),
    Sym::Fun(Tgt::Zero, "tick", 0),
];

fn concretise(seq: &[Sym], nctx: usize, nbinds: usize) -> Vec<HOp> {
    let (mut nc, mut nb) = (nctx, nbinds);
    let mut out = Vec::new();
    for s in seq {
        let ct = |t: Tgt, n: usize| match t {
            Tgt::Zero => 0,
            Tgt::Last => n - 1,
        };
        out.push(match *s {
            Sym::Add(t, name, src) => HOp::AddSrc { c: ct(t, nc), name, src },
            Sym::Prog(t, name, src) => HOp::AddProg { c: ct(t, nc), name, src },
            Sym::Bind(t, name, val) => HOp::Bind { b: ct(t, nb), name, val },
            Sym::Fun(t, name, f) => HOp::BindFn { b: ct(t, nb), name, f },
            Sym::CloneCtx(t) => {
                let c = ct(t, nc);
                nc += 1;
                HOp::CloneCtx { c }
            }
            Sym::CloneBinds(t) => {
                let b = ct(t, nb);
                nb += 1;
                HOp::CloneBinds { b }
            }
            Sym::Exec(tc, name, tb) => HOp::Exec { c: ct(tc, nc), name, b: ct(tb, nb) },
        });
    }
    out
}

fn random_history(rng: &mut Rng, len: usize, nctx: usize, nbinds: usize) -> Vec<HOp> {
    let (mut nc, mut nb) = (nctx, nbinds);
    let mut out = Vec::new();
    for _ in 0..len {
        let c = rng.below(nc);
        let b = rng.below(nb);
        out.push(match rng.below(20) {
            0..=4 => HOp::AddSrc { c, name: PROG_NAMES[rng.below(3)], src: SOURCES[rng.below(SOURCES.len())] },
            5 => HOp::AddProg { c, name: PROG_NAMES[rng.below(3)], src: SOURCES[rng.below(SOURCES.len())] },
            6..=9 => HOp::Bind { b, name: PARAM_NAMES[rng.below(3)], val: if rng.chance(1, 2) { [4, 5, 8][rng.below(3)] } else { rng.below(NVALS) } },
            10 => HOp::BindFn { b, name: FN_NAMES[rng.below(2)], f: rng.below(3) },
            11 => {
                if nc < 5 {
                    nc += 1;
                    HOp::CloneCtx { c }
                } else {
                    HOp::Inspect { c, name: PROG_NAMES[rng.below(3)] }
                }
            }
            12 => {
                if nb < 5 {
                    nb += 1;
                    HOp::CloneBinds { b }
                } else {
                    HOp::GetParam { b, name: PARAM_NAMES[rng.below(3)] }
                }
            }
            13..=16 => HOp::Exec { c, name: ALL_NAMES[rng.below(3)], b },
            17 => HOp::Inspect { c, name: ALL_NAMES[rng.below(ALL_NAMES.len())] },
            _ => HOp::GetParam { b, name: ALL_NAMES[rng.below(ALL_NAMES.len())] },
        });
    }
    out
}

/// The probes appended for the model comparison: every program of every context under every bind set, plus inspections.
fn final_probes(ops: &[HOp], nctx: usize, nbinds: usize) -> Vec<HOp> {
    let nc = nctx + ops.iter().filter(|o| matches!(o, HOp::CloneCtx { .. })).count();
    let nb = nbinds + ops.iter().filter(|o| matches!(o, HOp::CloneBinds { .. })).count();
    let mut out = Vec::new();
    for c in 0..nc {
        for n in ["a", "b", "x", "zz"] {
            for b in 0..nb {
                out.push(HOp::Exec { c, name: n, b });
            }
        }
        for n in ["a", "b"] {
            out.push(HOp::Inspect { c, name: n });
        }
    }
    for b in 0..nb {
        for n in ["x", "m", "b", "zz"] {
            out.push(HOp::GetParam { b, name: n });
        }
    }
    out
}

/// A populated starting point, so that most executions of the short histories yield values: it is part of the
/// history (the model runs it too).
fn prelude() -> Vec<HOp> {
    vec![
        HOp::AddSrc { c: 0, name: "a", src: "b + 1" },
        HOp::AddSrc { c: 0, name: "b", src: "size(m.map(k, k))" },
        HOp::AddSrc { c: 1, name: "a", src: "m.filter(k, k != 'k2')" },
        HOp::AddSrc { c: 1, name: "b", src: "f'{x}!'" },
        HOp::Bind { b: 0, name: "x", val: 1 },
        HOp::Bind { b: 0, name: "m", val: 5 },
        HOp::Bind { b: 1, name: "m", val: 4 },
        HOp::Bind { b: 1, name: "x", val: 2 },
    ]
}

fn check_history(rep: &mut Report, pending: &mut Vec<Pending>, ops: Vec<HOp>, class: &str) {
    let (nctx, nbinds) = (2usize, 2usize);
    let mut all = ops.clone();
    all.extend(final_probes(&ops, nctx, nbinds));
    let all2 = all.clone();
    let res = std::panic::catch_unwind(std::panic::AssertUnwindSafe(move || {
        let prev = crate::report::IN_GUARD.with(|g| g.replace(true));
        let r = run_history(&all2, nctx, nbinds, true);
        crate::report::IN_GUARD.with(|g| g.set(prev));
        r
    }));
    let input = ops.iter().map(|o| format!("{:?}", o)).collect::<Vec<_>>().join("; ");
    rep.count(Some(&input));
    rep.bump(class);
    match res {
        Err(_) => {
            crate::report::IN_GUARD.with(|g| g.set(false));
            rep.oracle_fail(&input, "P", "outputs", "a history panicked");
        }
        Ok(r) => {
            rep.evaluations += r.final_execs;
            for o in ops.iter() {
                rep.bump(match o {
                    HOp::AddSrc { .. } => "op:add_program_str",
                    HOp::AddProg { .. } => "op:add_program",
                    HOp::Bind { .. } => "op:bind_param",
                    HOp::BindFn { .. } => "op:bind_func",
                    HOp::CloneCtx { .. } => "op:clone_context",
                    HOp::CloneBinds { .. } => "op:clone_bindings",
                    HOp::Exec { .. } => "op:exec",
                    HOp::Inspect { .. } => "op:inspect",
                    HOp::GetParam { .. } => "op:get_param",
                });
            }
            for (o, out) in all.iter().zip(r.outputs.iter()) {
                if let HOp::Exec { .. } = o {
                    rep.bump(if out.starts_with("e:") { "exec:error" } else { "exec:value" });
                }
            }
            for (i, imp, exp, why) in r.failures.iter().take(3) {
                rep.oracle_fail(i, imp, exp, why);
            }
            if rep.samples.len() < 4 && ops.len() >= 5 {
                rep.sample(json!({"history": input, "outputs": r.outputs.iter().take(ops.len()).collect::<Vec<_>>()}));
            }
            let req = format!("hist {} {} {} {}", nctx, nbinds, all.len(), all.iter().map(op_wire).collect::<Vec<_>>().join(" "));
            pending.push(Pending { request: req, implementation: r.outputs.join(" | "), level: 6, input });
        }
    }
}

/// The observations of a fixed set of histories — what every thread and every repetition must reproduce.
fn scenario_observations(seed: u64) -> Vec<String> {
    let mut rng = Rng::new(seed);
    let mut obs = Vec::new();
    for i in 0..12 {
        let mut ops = random_history(&mut rng, 10 + 2 * i, 2, 2);
        // make sure map iteration is part of every scenario
        ops.insert(0, HOp::Bind { b: 0, name: "m", val: [4, 5, 8][i % 3] });
        ops.insert(1, HOp::AddSrc { c: 0, name: "a", src: SOURCES[[4, 5, 10, 12, 14, 15, 19, 20, 21][i % 9]] });
        ops.push(HOp::Exec { c: 0, name: "a", b: 0 });
        let probes = final_probes(&ops, 2, 2);
        ops.extend(probes);
        let r = run_history(&ops, 2, 2, false);
        obs.push(r.outputs.join(" | "));
    }
    obs
}

pub fn run(opts: &Opts) -> Report {
    let mut rep = Report::new(
        "C11",
        "API histories on 2 contexts x 2 bind sets (+ clones): all sequences of length <= 3 (quick) / 4 (thorough) over a 16-symbol alphabet \
         {add/replace (valid, failing, referencing, map-iterating), prebuilt program, bind/rebind (int, 6-key map), bind function, clone context, clone bindings, exec}, \
         random histories of length <= 40 over 22 program texts (map-iterating macros over bound and literal maps, map comparisons with a failing entry, program references, f-strings, sort, reduce, has/coalesce, user functions) x 10 values (incl. a map whose keys differ only in letter case); \
         after each history every (context, program, bind set) is executed 3x, on clones taken before/after, on original/clone mixes and in a fresh context built from the latest definitions only; \
         snapshots of programs and bindings before/after must be equal; evaluations = API executions; non-trivial = distinct history",
    );
    let mut pending: Vec<Pending> = Vec::new();
    // exhaustive short sequences
    let maxlen = if opts.thorough { 4 } else { 3 };
    let n = ALPHABET.len();
    for len in 0..=maxlen {
        let total = n.pow(len as u32);
        for idx in 0..total {
            let mut seq = Vec::new();
            let mut k = idx;
            for _ in 0..len {
                seq.push(ALPHABET[k % n]);
                k /= n;
            }
            let mut ops = prelude();
            ops.extend(concretise(&seq, 2, 2));
            check_history(&mut rep, &mut pending, ops, &format!("exhaustive:len{}", len));
            if len <= 2 {
                // the same from empty contexts
                check_history(&mut rep, &mut pending, concretise(&seq, 2, 2), &format!("exhaustive-empty:len{}", len));
            }
        }
    }
    // random longer histories
    let mut rng = Rng::new(opts.seed ^ 0xC11);
    let nrand = if opts.thorough { 6000 } else { 500 };
    for i in 0..nrand {
        let len = 1 + (i % 40);
        let mut ops = if i % 2 == 0 { prelude() } else { Vec::new() };
        ops.extend(random_history(&mut rng, len, 2, 2));
        check_history(&mut rep, &mut pending, ops, "random");
    }
    // threads: every thread builds its own contexts; all observations must agree
    let (threads, reps) = if opts.thorough { (16, 200) } else { (8, 12) };
    let seed = opts.seed ^ 0x7117;
    let reference = scenario_observations(seed);
    let results: Vec<Result<Vec<Vec<String>>, ()>> = std::thread::scope(|sc| {
        let hs: Vec<_> = (0..threads)
            .map(|_| {
                sc.spawn(move || {
                    crate::report::IN_GUARD.with(|g| g.set(true));
                    let mut all = Vec::new();
                    for _ in 0..reps {
                        all.push(scenario_observations(seed));
                    }
                    all
                })
            })
            .collect();
        hs.into_iter().map(|h| h.join().map_err(|_| ())).collect()
    });
    for (t, r) in results.iter().enumerate() {
        match r {
            Err(()) => rep.oracle_fail(&format!("thread {}", t), "P", "observations", "a thread panicked"),
            Ok(all) => {
                for (k, obs) in all.iter().enumerate() {
                    rep.count(None);
                    rep.bump("threads:repetition");
                    if *obs != reference {
                        let i = obs.iter().zip(reference.iter()).position(|(a, b)| a != b).unwrap_or(0);
                        rep.oracle_fail(
                            &format!("scenario {} of the thread test (seed {}), thread {} repetition {}", i, seed, t, k),
                            &obs.get(i).cloned().unwrap_or_default(),
                            &reference.get(i).cloned().unwrap_or_default(),
                            "the same history gives different observations on another thread / in another repetition",
                        );
                    }
                }
            }
        }
    }
    // the clock is read by now() and zero-argument timestamp() only: every other call of a built-in or a conversion,
    // whatever its arguments are (null, numbers, strings, lists, time values), gives the same answer when repeated later
    {
        let (mut names, _) = crate::facets::c01::builtin_names();
        names.retain(|n| n != "now");
        for t in ["timestamp", "duration", "int", "uint", "double", "string", "bool", "bytes", "dyn", "type"] {
            names.push(t.to_string());
        }
        let vals: Vec<CelValue> = vec![
            CelValue::Null, CelValue::Int(0), CelValue::Int(1_700_000_000), CelValue::UInt(5), CelValue::Float(1.5), CelValue::Bool(false),
            CelValue::String("".into()), CelValue::String("2024-01-10T08:57:45Z".into()), CelValue::String("1h".into()), CelValue::String("UTC".into()),
            CelValue::List(vec![]), CelValue::List(vec![CelValue::Null]), mk_value(4), CelValue::from_bytes(vec![0]),
            crate::pool::all_values().into_iter().find(|v| matches!(v, CelValue::TimeStamp(_))).unwrap_or(CelValue::Null),
            crate::pool::all_values().into_iter().find(|v| matches!(v, CelValue::Duration(_))).unwrap_or(CelValue::Null),
        ];
        let mut cases: Vec<(String, Vec<(String, CelValue)>)> = Vec::new();
        for n in names.iter() {
            {
                for v in vals.iter() {
                    cases.push((format!("{}(v)", n), vec![("v".to_string(), v.clone())]));
                    cases.push((format!("v.{}()", n), vec![("v".to_string(), v.clone())]));
                    cases.push((format!("{}(v, w)", n), vec![("v".to_string(), v.clone()), ("w".to_string(), CelValue::Null)]));
                    cases.push((format!("v.{}(w)", n), vec![("v".to_string(), v.clone()), ("w".to_string(), CelValue::Null)]));
                }
            }
        }
        let first: Vec<String> = cases.iter().map(|(src, b)| crate::api::exec_src(src, b)).collect();
        std::thread::sleep(std::time::Duration::from_millis(5));
        for ((src, b), r1) in cases.iter().zip(first.iter()) {
            let r2 = crate::api::exec_src(src, b);
            rep.count(Some(&format!("clock-only|{}|{}", src, crate::wire::show_val(&b[0].1))));
            rep.bump("clock-only:repeated call");
            if *r1 != r2 {
                rep.oracle_fail(&format!("{} with v = {}", src, crate::wire::show_val(&b[0].1)), &format!("{} then {}", r1, r2), "the same result twice", "only now() and zero-argument timestamp() may read the clock");
            }
        }
    }
    // bound dyn values: sharing an allocation between two bindings is not observable
    {
        use crate::facets::dynwrap as dw;
        let mut vals = dw::scalars();
        vals.extend(dw::containers());
        dw::sharing(&mut rep, &["a == b", "a != b", "[1, a] == [1, b]", "a == b ? 'same' : 'different'", "{'k': a} == {'k': b}", "a in [b]"], &vals);
    }
    rep.notes.push(format!("thread test: {} threads x {} repetitions x 12 histories, each thread with its own contexts", threads, reps));
    rep.exhaustive = true;
    rep.compare_with_model_par(&opts.driver, &pending, 16);
    rep
}
