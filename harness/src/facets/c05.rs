//! C05 — lazy || && ?: match, absorption rules, one truthiness.
use crate::api::{compile, exec_full, literal, UserFn};
use crate::facets::pipe::{queue_bytecode, queue_exec};
use crate::facets::vmrun::generate;
use crate::pool;
use crate::report::{Pending, Report};
use crate::rng::Rng;
use crate::wire::{l1, show_val};
use crate::Opts;
use rscel::CelValue;
use serde_json::json;

/// Outcome of the reference evaluation: a value or "fails".
#[derive(Clone, Debug)]
enum V {
    Ok(CelValue),
    Fail,
}

#[derive(Clone)]
enum T {
    Atom(usize, bool), // atom index, wrapped in tick()
    Or(Box<T>, Box<T>),
    And(Box<T>, Box<T>),
    Tern(Box<T>, Box<T>, Box<T>),
    Not(Box<T>),
    Match(Box<T>, Vec<(Pat, T)>),
}

#[derive(Clone)]
enum Pat {
    Any,
    EqInt(i64),
    TyInt,
    TyString,
}

struct Atom {
    lit: &'static str, // literal spelling
    var: &'static str, // variable name (bound to the value, or unbound / failing expression)
    val: V,
}

/// The property's truthiness table, written independently of the implementation.
fn truthy(v: &CelValue) -> bool {
    match v {
        CelValue::Int(i) => *i != 0,
        CelValue::UInt(u) => *u != 0,
        CelValue::Float(f) => *f != 0.0,
        CelValue::Bool(b) => *b,
        CelValue::String(s) => !s.is_empty(),
        CelValue::Bytes(b) => b.len() != 0,
        CelValue::List(l) => !l.is_empty(),
        CelValue::Map(m) => !m.is_empty(),
        CelValue::Null => false,
        CelValue::Type(_) | CelValue::TimeStamp(_) | CelValue::Duration(_) => true,
        _ => false,
    }
}

fn atoms() -> Vec<Atom> {
    vec![
        Atom { lit: "1", var: "a1", val: V::Ok(CelValue::Int(1)) },
        Atom { lit: "0", var: "a0", val: V::Ok(CelValue::Int(0)) },
        Atom { lit: "'a'", var: "as", val: V::Ok(CelValue::String("a".into())) },
        Atom { lit: "''", var: "ae", val: V::Ok(CelValue::String("".into())) },
        Atom { lit: "(1/0)", var: "(1/az)", val: V::Fail },
        Atom { lit: "qq", var: "qq", val: V::Fail }, // unbound
        Atom { lit: "true", var: "at", val: V::Ok(CelValue::Bool(true)) },
        Atom { lit: "null", var: "an", val: V::Ok(CelValue::Null) },
        // other programs stored in the same context, referenced by name: one evaluates to true, one fails
        // (a failing referenced program is a failed operand like any other)
        Atom { lit: "pgt", var: "pgt", val: V::Ok(CelValue::Bool(true)) },
        Atom { lit: "pgf", var: "pgf", val: V::Fail },
        // a conversion whose argument fails is a failed operand like any other
        Atom { lit: "bool(1/0)", var: "int(qq.f)", val: V::Fail },
    ]
}

/// The stored programs behind the atoms `pgt` / `pgf`: constant in the literal form, reading bindings in the bound form.
fn stored_programs(bound: bool) -> Vec<(String, rscel::Program)> {
    let srcs: [(&str, &str); 2] = if bound { [("pgt", "at"), ("pgf", "1 / az")] } else { [("pgt", "2 > 1"), ("pgf", "[1][5]")] };
    srcs.iter().filter_map(|(n, s)| compile(s).ok().map(|p| (n.to_string(), p))).collect()
}

fn bindings() -> Vec<(String, CelValue)> {
    vec![
        ("a1".into(), CelValue::Int(1)),
        ("a0".into(), CelValue::Int(0)),
        ("as".into(), CelValue::String("a".into())),
        ("ae".into(), CelValue::String("".into())),
        ("az".into(), CelValue::Int(0)),
        ("at".into(), CelValue::Bool(true)),
        ("an".into(), CelValue::Null),
    ]
}

fn render(t: &T, at: &[Atom], bound: bool) -> String {
    match t {
        T::Atom(i, tick) => {
            let s = if bound { at[*i].var } else { at[*i].lit };
            if *tick {
                format!("tick({})", s)
            } else {
                s.to_string()
            }
        }
        T::Or(a, b) => format!("({} || {})", render(a, at, bound), render(b, at, bound)),
        T::And(a, b) => format!("({} && {})", render(a, at, bound), render(b, at, bound)),
        T::Tern(c, x, y) => format!("({} ? {} : {})", render(c, at, bound), render(x, at, bound), render(y, at, bound)),
        T::Not(a) => format!("!{}", render(a, at, bound)),
        T::Match(s, cases) => {
            let cs: Vec<String> = cases
                .iter()
                .map(|(p, e)| {
                    let ps = match p {
                        Pat::Any => "_".to_string(),
                        Pat::EqInt(k) => format!("== {}", k),
                        Pat::TyInt => "int".to_string(),
                        Pat::TyString => "string".to_string(),
                    };
                    format!("case {}: {}", ps, render(e, at, bound))
                })
                .collect();
            format!("(match {} {{ {} }})", render(s, at, bound), cs.join(", "))
        }
    }
}

/// Reference semantics straight from the property text; `log` collects tick() calls in order.
fn eval(t: &T, at: &[Atom], log: &mut Vec<String>) -> V {
    match t {
        T::Atom(i, tick) => {
            let v = at[*i].val.clone();
            if *tick {
                match &v {
                    // a failing argument never reaches the function
                    V::Fail => V::Fail,
                    V::Ok(x) => {
                        log.push(format!("7469636b n l:1 {}", show_val(x)));
                        v
                    }
                }
            } else {
                v
            }
        }
        T::Or(a, b) => {
            let va = eval(a, at, log);
            if let V::Ok(x) = &va {
                if truthy(x) {
                    return V::Ok(CelValue::Bool(true));
                }
            }
            let vb = eval(b, at, log);
            match (&va, &vb) {
                (_, V::Ok(y)) if truthy(y) => V::Ok(CelValue::Bool(true)),
                (V::Fail, _) => V::Fail,
                (_, V::Fail) => V::Fail,
                _ => V::Ok(CelValue::Bool(false)),
            }
        }
        T::And(a, b) => {
            let va = eval(a, at, log);
            match &va {
                V::Fail => return V::Fail,
                V::Ok(x) if !truthy(x) => return V::Ok(CelValue::Bool(false)),
                _ => {}
            }
            match eval(b, at, log) {
                V::Fail => V::Fail,
                V::Ok(y) => V::Ok(CelValue::Bool(truthy(&y))),
            }
        }
        T::Tern(c, x, y) => match eval(c, at, log) {
            V::Fail => V::Fail,
            V::Ok(v) => {
                if truthy(&v) {
                    eval(x, at, log)
                } else {
                    eval(y, at, log)
                }
            }
        },
        T::Not(a) => match eval(a, at, log) {
            V::Fail => V::Fail,
            V::Ok(v) => V::Ok(CelValue::Bool(!truthy(&v))),
        },
        T::Match(s, cases) => {
            let vs = match eval(s, at, log) {
                V::Fail => return V::Fail, // not fixed by the property; such trees are not generated
                V::Ok(v) => v,
            };
            for (p, e) in cases {
                let hit = match p {
                    Pat::Any => true,
                    // `== k` is the language's equality: numbers (and bool as 0/1) compare by value
                    Pat::EqInt(k) => match &vs {
                        CelValue::Int(i) => i == k,
                        CelValue::UInt(u) => *u as i128 == *k as i128,
                        CelValue::Bool(b) => (*b as i64) == *k,
                        CelValue::Float(f) => *f == *k as f64,
                        _ => false,
                    },
                    Pat::TyInt => matches!(&vs, CelValue::Int(_)),
                    Pat::TyString => matches!(&vs, CelValue::String(_)),
                };
                if hit {
                    return eval(e, at, log);
                }
            }
            V::Ok(CelValue::Null)
        }
    }
}

fn scrut_ok(t: &T, at: &[Atom]) -> bool {
    // match scrutinee must not fail (the property does not fix that case)
    match t {
        T::Match(s, cases) => {
            let mut l = Vec::new();
            !matches!(eval(s, at, &mut l), V::Fail) && scrut_ok(s, at) && cases.iter().all(|(_, e)| scrut_ok(e, at))
        }
        T::Atom(..) => true,
        T::Or(a, b) | T::And(a, b) => scrut_ok(a, at) && scrut_ok(b, at),
        T::Tern(a, b, c) => scrut_ok(a, at) && scrut_ok(b, at) && scrut_ok(c, at),
        T::Not(a) => scrut_ok(a, at),
    }
}

fn leaves(n_atoms: usize) -> Vec<T> {
    let mut v = Vec::new();
    for i in 0..n_atoms {
        v.push(T::Atom(i, false));
        v.push(T::Atom(i, true));
    }
    v
}

/// all trees with exactly `ops` operator nodes over the leaf set
fn trees(ops: usize, lv: &[T], memo: &mut Vec<Option<Vec<T>>>) -> Vec<T> {
    if let Some(Some(x)) = memo.get(ops) {
        return x.clone();
    }
    let out = if ops == 0 {
        lv.to_vec()
    } else {
        let mut out = Vec::new();
        // unary
        for a in trees(ops - 1, lv, memo) {
            out.push(T::Not(Box::new(a)));
        }
        // binary
        for k in 0..ops {
            let l = trees(k, lv, memo);
            let r = trees(ops - 1 - k, lv, memo);
            for a in l.iter() {
                for b in r.iter() {
                    out.push(T::Or(Box::new(a.clone()), Box::new(b.clone())));
                    out.push(T::And(Box::new(a.clone()), Box::new(b.clone())));
                }
            }
        }
        // ternary and match (only with leaf sub-trees beyond the first, to bound the count)
        for c in trees(ops - 1, lv, memo) {
            for x in lv.iter().step_by(3) {
                for y in lv.iter().skip(1).step_by(3) {
                    out.push(T::Tern(Box::new(c.clone()), Box::new(x.clone()), Box::new(y.clone())));
                }
            }
            out.push(T::Match(
                Box::new(c.clone()),
                vec![(Pat::EqInt(1), lv[1].clone()), (Pat::TyString, lv[3].clone()), (Pat::TyInt, lv[9].clone())],
            ));
            out.push(T::Match(Box::new(c.clone()), vec![(Pat::EqInt(7), lv[1].clone()), (Pat::Any, lv[5].clone())]));
        }
        out
    };
    while memo.len() <= ops {
        memo.push(None);
    }
    memo[ops] = Some(out.clone());
    out
}

fn check_tree(rep: &mut Report, pending: &mut Vec<Pending>, t: &T, at: &[Atom], to_model: bool) {
    if !scrut_ok(t, at) {
        return;
    }
    let users = vec![("tick".to_string(), UserFn::Arg0)];
    let mut log = Vec::new();
    let want = eval(t, at, &mut log);
    let want_obs = match &want {
        V::Ok(v) => show_val(v),
        V::Fail => "E".to_string(),
    };
    let want_log = format!("L:{}{}{}", log.len(), if log.is_empty() { "" } else { " " }, log.join(" "));
    for bound in [false, true] {
        let src = render(t, at, bound);
        let binds = if bound { bindings() } else { Vec::new() };
        let stored = stored_programs(bound);
        let out = match compile(&src) {
            Ok(p) => {
                let mut progs = stored.clone();
                progs.push(("main".to_string(), p));
                exec_full(&progs, "main", &binds, &users)
            }
            Err(e) => crate::api::ExecOut { obs: e, log: "L:0".into() },
        };
        rep.count(Some(&src));
        rep.bump(if bound { "form:bound" } else { "form:literal" });
        rep.bump(&format!("expected:{}", if want_obs == "E" { "fails" } else { "value" }));
        rep.sample(json!({"src": src, "impl": out.obs, "log": out.log, "expected": want_obs, "expected_log": want_log}));
        if l1(&out.obs) != want_obs || out.log != want_log {
            rep.oracle_fail(
                &src,
                &format!("{} {}", out.obs, out.log),
                &format!("{} {}", want_obs, want_log),
                "value or call log differs from the lazy / absorbing semantics of the property (an operand that must not be evaluated was, or a failure was mishandled)",
            );
        }
        if to_model {
            pending.push(Pending {
                request: format!("exec {} {}", crate::api::env_wire(&stored, &binds, &users), crate::wire::hex(src.as_bytes())),
                implementation: format!("{} {}", out.obs, out.log),
                level: 3,
                input: src.clone(),
            });
        }
    }
}

/// one truthiness: every place that tests a value agrees with the table
fn truthiness_everywhere(rep: &mut Report, pending: &mut Vec<Pending>) {
    let forms: [(&str, bool); 12] = [
        // the same tests with a map as the receiver (filter and map have a separate code path for maps; all / exists / exists_one take lists only)
        ("({'k': 0}.filter(q, X) != [])", true),
        ("({'k': 0}.map(q, X, 1) == [1])", true),
        ("(X ? true : false)", true),
        ("!X", false),
        ("(X || false)", true),
        ("(X && true)", true),
        ("bool(X)", true),
        ("[X].all(v, v)", true),
        ("[X].exists(v, v)", true),
        ("[X].exists_one(v, v)", true),
        ("([X].filter(v, v) != [])", true),
        ("([X].map(v, v, 1) == [1])", true),
    ];
    for v in pool::all_values().iter() {
        if matches!(v, CelValue::Err(_)) {
            continue;
        }
        let want = truthy(v);
        for (form, positive) in forms.iter() {
            for bound in [false, true] {
                let (src, binds) = if bound {
                    (form.replace('X', "xv"), vec![("xv".to_string(), v.clone())])
                } else {
                    match literal(v) {
                        Some(l) => (form.replace('X', &l), vec![]),
                        None => continue,
                    }
                };
                let out = crate::api::exec_src(&src, &binds);
                rep.count(Some(&format!("{}|{}", src, show_val(v))));
                rep.bump("truthiness");
                // bool('...') parses boolean words first; those strings are excluded from the bool() form
                if form.starts_with("bool") {
                    if let CelValue::String(s) = v {
                        if ["1", "t", "true", "TRUE", "True", "0", "f", "false", "FALSE", "False"].contains(&s.as_str()) {
                            continue;
                        }
                    }
                }
                let expect = if want == *positive { "b:1" } else { "b:0" };
                if out != expect {
                    rep.oracle_fail(&format!("{} with X = {}", src, show_val(v)), &out, expect, "truthiness differs from the table in this position");
                }
                pending.push(Pending {
                    request: format!("exec {} {}", crate::api::env_wire(&[], &binds, &[]), crate::wire::hex(src.as_bytes())),
                    implementation: format!("{} L:0", out),
                    level: 3,
                    input: format!("{} with X = {}", src, show_val(v)),
                });
            }
        }
    }
}

pub fn run(opts: &Opts) -> Report {
    let mut rep = Report::new(
        "C05",
        "all trees with up to 2 (quick) / 3 (thorough, sampled above 2) operator nodes over {||, &&, ?:, !, match} and 8 atoms (truthy, falsy, failing, unbound, each also call-counting via tick()), each as literals (compile-time folder) and as bound variables (VM), checked against a reference evaluator of the property text (value + call log) and against the model; truthiness of every pool value in 10 positions; plus random generated programs through model and real pipeline; non-trivial = distinct source text",
    );
    let mut pending: Vec<Pending> = Vec::new();
    let at = atoms();
    let lv = leaves(at.len());
    let mut memo = Vec::new();
    for ops in 0..=2 {
        let ts = trees(ops, &lv, &mut memo);
        rep.bump(&format!("trees_with_{}_ops:{}", ops, ts.len()));
        for (i, t) in ts.iter().enumerate() {
            check_tree(&mut rep, &mut pending, t, &at, ops < 2 || i % 7 == 0);
        }
    }
    rep.exhaustive = true;
    // sampled larger trees
    let mut rng = Rng::new(opts.seed ^ 0xC05);
    let n3 = if opts.thorough { 150_000 } else { 6_000 };
    let t2 = trees(2, &lv, &mut memo);
    let t1 = trees(1, &lv, &mut memo);
    for _ in 0..n3 {
        let a = rng.pick(&t2).clone();
        let b = rng.pick(&t1).clone();
        let c = rng.pick(&lv).clone();
        let t = match rng.below(5) {
            0 => T::Or(Box::new(a), Box::new(b)),
            1 => T::And(Box::new(b), Box::new(a)),
            2 => T::Tern(Box::new(a), Box::new(b), Box::new(c)),
            3 => T::Tern(Box::new(c), Box::new(a), Box::new(b)),
            _ => T::Not(Box::new(T::Or(Box::new(b), Box::new(a)))),
        };
        check_tree(&mut rep, &mut pending, &t, &at, true);
    }
    truthiness_everywhere(&mut rep, &mut pending);
    // generated programs through the whole model pipeline
    let n = if opts.thorough { 40_000 } else { 2_500 };
    let cases = generate(opts, n, |_g| {});
    for c in cases.iter() {
        queue_bytecode(&mut pending, &c.src);
        queue_exec(&mut rep, &mut pending, &c.src, c.binds_variant);
        rep.count(Some(&format!("{}|{}", c.src, c.binds_variant)));
    }
    // dyn-wrapped operands: one truthiness, also for a value the caller wrapped as a dyn value
    {
        use crate::facets::dynwrap as dw;
        let mut vals = dw::scalars();
        vals.extend(dw::containers());
        dw::transparency(
            &mut rep,
            "truthiness",
            &["a ? 1 : 0", "!a", "a || false", "false || a", "a && true", "true && a", "[a].filter(v, v).size()", "[a].all(v, v)", "[a].exists(v, v)", "[a].exists_one(v, v)", "[a].map(v, v, 1).size()", "bool(a)"],
            &vals,
            &[CelValue::Null],
        );
    }
    rep.compare_with_model(&opts.driver, &pending);
    rep
}
