//! C05 — lazy || && ?: match, absorption rules, one truthiness.
use crate::facets::pipe::{queue_ast, queue_bytecode, queue_exec};
use crate::facets::vmrun::generate;
use crate::report::{Pending, Report};
use crate::Opts;
use serde_json::json;

pub fn run(opts: &Opts) -> Report {
    let mut rep = Report::new("C05", "generated programs: model pipeline (lexer, parser, compiler, VM) vs real pipeline: AST, bytecode, result + call log");
    let mut pending: Vec<Pending> = Vec::new();
    let n = if opts.thorough { 60_000 } else { 4_000 };
    let cases = generate(opts, n, |_g| {});
    for c in cases.iter() {
        queue_ast(&mut pending, &c.src);
        queue_bytecode(&mut pending, &c.src);
        let out = queue_exec(&mut rep, &mut pending, &c.src, c.binds_variant);
        rep.count(Some(&format!("{}|{}", c.src, c.binds_variant)));
        rep.sample(json!({"src": c.src, "impl": out}));
    }
    rep.compare_with_model(&opts.driver, &pending);
    rep
}
