//! C07 — comprehension macros equal their defining folds; loop variables are lexical.
//!
//! Oracle (model-free): for every element of the range, in order, the body is evaluated on its own through
//! the real API with the loop variable bound as an ordinary parameter (on top of the outer bindings); the
//! harness then recomputes the macro's defining fold itself — with its own truthiness table, early exit and
//! first-failure rule — and the expected call log is the concatenation of the logs of exactly the bodies the
//! fold visits.  The result, the call log (visit order, early exit) and the outer binding afterwards must match.
use crate::api::{compile, env_wire, exec_full, exec_val, literal, ExecOut, UserFn};
use crate::gen::{std_bindings, Gen, Ty};
use crate::pool;
use crate::report::{Pending, Report};
use crate::rng::Rng;
use crate::wire::{hex, show_val};
use crate::Opts;
use rscel::{CelValue, Program};
use serde_json::json;
use std::collections::HashMap;

#[derive(Clone, Copy, PartialEq, Debug)]
enum M {
    All,
    Exists,
    ExistsOne,
    Filter,
    Map,
    Map3,
    Reduce,
}

const MACROS: [M; 7] = [M::All, M::Exists, M::ExistsOne, M::Filter, M::Map, M::Map3, M::Reduce];

#[derive(Clone)]
struct Case {
    m: M,
    target: String,       // text of the receiver
    elems: Vec<CelValue>, // what it ranges over, in visiting order
    var: String,
    body: String,  // predicate / transform / step
    body2: String, // transform of map(x, p, e); seed of reduce
    acc: String,   // accumulator name of reduce
    binds: Vec<(String, CelValue)>,
    progs: Vec<(String, String)>,
    tag: String,
}

impl Case {
    fn src(&self) -> String {
        match self.m {
            M::All => format!("{}.all({}, {})", self.target, self.var, self.body),
            M::Exists => format!("{}.exists({}, {})", self.target, self.var, self.body),
            M::ExistsOne => format!("{}.exists_one({}, {})", self.target, self.var, self.body),
            M::Filter => format!("{}.filter({}, {})", self.target, self.var, self.body),
            M::Map => format!("{}.map({}, {})", self.target, self.var, self.body),
            M::Map3 => format!("{}.map({}, {}, {})", self.target, self.var, self.body, self.body2),
            M::Reduce => format!("{}.reduce({}, {}, {}, {})", self.target, self.acc, self.var, self.body, self.body2),
        }
    }
}

/// The property's truthiness table (as in the C05 facet), independent of the implementation.
fn truthy(v: &CelValue) -> bool {
    match v {
        CelValue::Int(i) => *i != 0,
        CelValue::UInt(u) => *u != 0,
        CelValue::Float(f) => *f != 0.0,
        CelValue::Bool(b) => *b,
        CelValue::String(s) => !s.is_empty(),
        CelValue::Bytes(b) => b.len() != 0,
        CelValue::List(l) => !l.is_empty(),
        CelValue::Map(m) => !m.is_empty(),
        CelValue::Null => false,
        CelValue::Type(_) | CelValue::TimeStamp(_) | CelValue::Duration(_) => true,
        _ => false,
    }
}

fn users() -> Vec<(String, UserFn)> {
    vec![("tick".to_string(), UserFn::Arg0)]
}

enum Exp {
    Val(CelValue),
    Fail,
}

struct Compiled {
    progs: Vec<(String, Program)>,
}

fn compile_all(c: &Case) -> Option<Compiled> {
    let mut progs = Vec::new();
    for (n, s) in c.progs.iter() {
        progs.push((n.clone(), compile(s).ok()?));
    }
    Some(Compiled { progs })
}

/// Evaluate `src` as a program of its own next to the stored programs, under `binds`.
fn eval_alone(src_prog: &Program, comp: &Compiled, binds: &[(String, CelValue)]) -> (Result<CelValue, String>, Vec<String>) {
    let mut progs = comp.progs.clone();
    progs.push(("main".to_string(), src_prog.clone()));
    exec_val(&progs, "main", binds, &users())
}

/// The defining fold, recomputed here from per-element body evaluations.
fn oracle(c: &Case, comp: &Compiled) -> Option<(Exp, Vec<String>, usize)> {
    let body = compile(&c.body).ok()?;
    let body2 = if matches!(c.m, M::Map3 | M::Reduce) { Some(compile(&c.body2).ok()?) } else { None };
    let mut log: Vec<String> = Vec::new();
    let mut visited = 0usize;
    let with = |extra: &[(&str, &CelValue)]| -> Vec<(String, CelValue)> {
        let mut b = c.binds.clone();
        for (k, v) in extra {
            b.push((k.to_string(), (*v).clone()));
        }
        b
    };
    macro_rules! run_body {
        ($prog:expr, $binds:expr) => {{
            let (r, lg) = eval_alone($prog, comp, &$binds);
            log.extend(lg);
            match r {
                Ok(v) => v,
                Err(_) => return Some((Exp::Fail, log, visited)),
            }
        }};
    }
    let res = match c.m {
        M::All => {
            let mut out = true;
            for e in c.elems.iter() {
                visited += 1;
                let r = run_body!(&body, with(&[(&c.var, e)]));
                if !truthy(&r) {
                    out = false;
                    break;
                }
            }
            CelValue::Bool(out)
        }
        M::Exists => {
            let mut out = false;
            for e in c.elems.iter() {
                visited += 1;
                let r = run_body!(&body, with(&[(&c.var, e)]));
                if truthy(&r) {
                    out = true;
                    break;
                }
            }
            CelValue::Bool(out)
        }
        M::ExistsOne => {
            let mut hits = 0;
            for e in c.elems.iter() {
                visited += 1;
                let r = run_body!(&body, with(&[(&c.var, e)]));
                if truthy(&r) {
                    hits += 1;
                    if hits == 2 {
                        break; // decided: not exactly one
                    }
                }
            }
            CelValue::Bool(hits == 1)
        }
        M::Filter => {
            let mut out = Vec::new();
            for e in c.elems.iter() {
                visited += 1;
                let r = run_body!(&body, with(&[(&c.var, e)]));
                if truthy(&r) {
                    out.push(e.clone());
                }
            }
            CelValue::List(out)
        }
        M::Map => {
            let mut out = Vec::new();
            for e in c.elems.iter() {
                visited += 1;
                out.push(run_body!(&body, with(&[(&c.var, e)])));
            }
            CelValue::List(out)
        }
        M::Map3 => {
            let mut out = Vec::new();
            for e in c.elems.iter() {
                visited += 1;
                let p = run_body!(&body, with(&[(&c.var, e)]));
                if truthy(&p) {
                    out.push(run_body!(body2.as_ref().unwrap(), with(&[(&c.var, e)])));
                }
            }
            CelValue::List(out)
        }
        M::Reduce => {
            // the seed is evaluated first, in the macro's own environment
            let mut cur = run_body!(body2.as_ref().unwrap(), with(&[]));
            for e in c.elems.iter() {
                visited += 1;
                // both names bound; the accumulator wins when they coincide
                cur = run_body!(&body, with(&[(&c.var, e), (&c.acc, &cur)]));
            }
            cur
        }
    };
    Some((Exp::Val(res), log, visited))
}

fn mklog(entries: &[String]) -> String {
    format!("L:{}{}{}", entries.len(), if entries.is_empty() { "" } else { " " }, entries.join(" "))
}

fn run_src(src: &str, comp: &Compiled, binds: &[(String, CelValue)]) -> ExecOut {
    match compile(src) {
        Ok(p) => {
            let mut progs = comp.progs.clone();
            progs.push(("main".to_string(), p));
            exec_full(&progs, "main", binds, &users())
        }
        Err(e) => ExecOut { obs: e, log: "L:0".into() },
    }
}

fn queue(pending: &mut Vec<Pending>, src: &str, comp: &Compiled, binds: &[(String, CelValue)], out: &ExecOut, note: &str) {
    // stored programs go to the model as source-compiled bytecode of the real compiler
    pending.push(Pending {
        request: format!("exec {} {}", env_wire(&comp.progs, binds, &users()), hex(src.as_bytes())),
        implementation: format!("{} {}", out.obs, out.log),
        level: 7,
        input: format!("{}{}", src, note),
    });
}

fn check(rep: &mut Report, pending: &mut Vec<Pending>, c: &Case, to_model: bool) {
    let comp = match compile_all(c) {
        Some(x) => x,
        None => return,
    };
    let (want, want_log, visited) = match oracle(c, &comp) {
        Some(x) => x,
        None => {
            rep.bump("skipped: body does not compile on its own");
            return;
        }
    };
    let src = c.src();
    let out = run_src(&src, &comp, &c.binds);
    let want_obs = match &want {
        Exp::Val(v) => show_val(v),
        Exp::Fail => "E".to_string(),
    };
    let want_log_s = mklog(&want_log);
    rep.count(Some(&format!("{}|{}", src, c.tag)));
    rep.bump(&format!("macro:{:?}", c.m));
    rep.bump(&format!("length:{}", match c.elems.len() { 0 => "0".to_string(), 1..=8 => "1-8".into(), 9..=32 => "9-32".into(), 33..=64 => "33-64".into(), _ => ">64".into() }));
    rep.bump(&format!("family:{}", c.tag.split(';').next().unwrap_or("")));
    rep.bump(if matches!(want, Exp::Fail) { "outcome:a body fails" } else if visited < c.elems.len() { "outcome:early exit" } else { "outcome:whole range visited" });
    let got = crate::wire::l1(&out.obs);
    if got != want_obs || out.log != want_log_s {
        let why = if got == want_obs {
            "the call log differs: elements are not visited in order, or a body was evaluated after the deciding element / after a failure"
        } else if matches!(want, Exp::Fail) {
            "a body fails on its own, so the macro must fail (at the first such element)"
        } else {
            "the result differs from the macro's defining fold over the per-element body results"
        };
        rep.oracle_fail(&format!("{} [{}]", src, c.tag), &format!("{} {}", out.obs, out.log), &format!("{} {}", want_obs, want_log_s), why);
    }
    rep.sample(json!({"src": src.chars().take(300).collect::<String>(), "family": c.tag, "impl": out.obs.chars().take(120).collect::<String>(), "visited": visited, "of": c.elems.len()}));
    if to_model {
        queue(pending, &src, &comp, &c.binds, &out, &format!(" [{}]", c.tag));
    }
    // the outer binding of the loop variable is what it was, afterwards
    if let Some((_, outer)) = c.binds.iter().rev().find(|(k, _)| *k == c.var) {
        if !matches!(outer, CelValue::Err(_)) {
            let src2 = format!("[{}, {}]", src, c.var);
            let out2 = run_src(&src2, &comp, &c.binds);
            let want2 = match &want {
                Exp::Val(v) => show_val(&CelValue::List(vec![v.clone(), outer.clone()])),
                Exp::Fail => "E".to_string(),
            };
            rep.count(Some(&src2));
            rep.bump("scoping:outer binding read after the macro");
            // a failed macro inside a list literal is a failed element: the list then holds an error value first
            let got2 = if out2.obs.starts_with("e:") || out2.obs.starts_with("l:2 e:") { "E".to_string() } else { out2.obs.clone() };
            if got2 != want2 || out2.log != want_log_s {
                rep.oracle_fail(
                    &format!("{} [{}]", src2, c.tag),
                    &format!("{} {}", out2.obs, out2.log),
                    &format!("{} {}", want2, want_log_s),
                    "after the macro the outer binding of the loop variable's name must be unchanged",
                );
            }
            if to_model {
                queue(pending, &src2, &comp, &c.binds, &out2, &format!(" [{}]", c.tag));
            }
        }
    }
}

fn ints(n: usize) -> Vec<CelValue> {
    (0..n as i64).map(CelValue::Int).collect()
}

fn base_case(m: M, elems: Vec<CelValue>, tag: &str) -> Case {
    Case {
        m,
        target: "L".into(),
        binds: vec![
            ("v".to_string(), CelValue::String("outer v".into())),
            ("k".to_string(), CelValue::Int(3)),
            ("acc".to_string(), CelValue::String("outer acc".into())),
            ("L".to_string(), CelValue::List(elems.clone())),
        ],
        elems,
        var: "v".into(),
        body: "true".into(),
        body2: "0".into(),
        acc: "acc".into(),
        progs: vec![],
        tag: tag.to_string(),
    }
}

// ---------------------------------------------------------------------------------------------
// Part 1: every length 0..64 (beyond the call depth limit of 32), deciding / failing element anywhere

fn ladder(rep: &mut Report, pending: &mut Vec<Pending>, _opts: &Opts) {
    let step = 1;
    let mut n = 0usize;
    while n <= 64 {
        let l = ints(n);
        // positions of interest: none (-1), first, middle, last
        let mut ps: Vec<i64> = vec![-1];
        if n > 0 {
            ps.push(0);
            ps.push(n as i64 - 1);
        }
        if n > 2 {
            ps.push(n as i64 / 2);
        }
        for (pi, p) in ps.iter().enumerate() {
            for q in ps.iter() {
                // q: where a body fails (-1: nowhere)
                let fail = if *q >= 0 { format!("(10 / (v - {}) < 100) && ", q) } else { String::new() };
                let to_model = n % 8 == 0 || n == 33 || n == 63;
                let mk = |m: M, body: String, body2: String| {
                    let mut c = base_case(m, l.clone(), "every length 0..64 x deciding/failing position");
                    c.body = body;
                    c.body2 = body2;
                    c
                };
                check(rep, pending, &mk(M::All, format!("{}tick(v) != {}", fail, p), String::new()), to_model);
                check(rep, pending, &mk(M::Exists, format!("{}tick(v) == {}", fail, p), String::new()), to_model);
                // exists_one: hits at p and at the position after the next interesting one
                let p2 = ps[(pi + 1) % ps.len()];
                check(rep, pending, &mk(M::ExistsOne, format!("{}(tick(v) == {} || v == {})", fail, p, p2), String::new()), to_model);
                check(rep, pending, &mk(M::ExistsOne, format!("{}tick(v) == {}", fail, p), String::new()), to_model);
                check(rep, pending, &mk(M::Filter, format!("{}tick(v) % 3 == {}", fail, (p + 3) % 3), String::new()), to_model);
                if pi == 0 {
                    let failm = if *q >= 0 { format!("10 / (v - {}) + ", q) } else { String::new() };
                    check(rep, pending, &mk(M::Map, format!("{}tick(v) * 2", failm), String::new()), to_model);
                    check(rep, pending, &mk(M::Map3, format!("{}tick(v) % 2 == 0", fail), "tick(v + 100)".into()), to_model);
                    check(rep, pending, &mk(M::Map3, "tick(v) % 2 == 1".into(), format!("{}tick(v + 100)", failm)), to_model);
                    check(rep, pending, &mk(M::Reduce, format!("{}acc + tick(v)", failm), "tick(1000)".into()), to_model);
                    check(rep, pending, &mk(M::Reduce, "acc + [v]".into(), "[]".into()), to_model);
                }
            }
        }
        n += step;
    }
    // reduce: failing seed, seed only
    for n in [0usize, 3] {
        let mut c = base_case(M::Reduce, ints(n), "reduce seed");
        c.body = "acc + tick(v)".into();
        c.body2 = "tick(1) / 0".into();
        check(rep, pending, &c, true);
        c.body2 = "qq".into();
        check(rep, pending, &c, true);
    }
}

// ---------------------------------------------------------------------------------------------
// Part 2: every element type, bodies that make sense for any value

fn element_pools() -> Vec<(&'static str, Vec<CelValue>)> {
    let all: Vec<CelValue> = pool::all_values().into_iter().filter(|v| !matches!(v, CelValue::Err(_))).collect();
    let by = |tag: &str| -> Vec<CelValue> { all.iter().filter(|v| pool::type_tag(v) == tag).cloned().collect() };
    vec![
        ("int", by("int")),
        ("uint", by("uint")),
        ("double", by("double")),
        ("bool", by("bool")),
        ("string", by("string")),
        ("bytes", by("bytes")),
        ("list", by("list")),
        ("map", by("map")),
        ("null", by("null")),
        ("type", by("type")),
        ("timestamp", by("timestamp")),
        ("duration", by("duration")),
        ("mixed", all),
    ]
}

const POLY_PREDICATES: [&str; 14] = [
    "v",
    "!v",
    "v == v",
    "v != null",
    "tick(v) == L[0]",
    "type(v) == int || type(v) == string",
    "[v] == [L[0]]",
    "size([v, v]) == 2 && v",
    "has(v.a)",
    "coalesce(v, 1) == 1",
    "(v ? 1 : 0) == 1",
    "v in L",
    "v == k",
    "v < L[0]",
];

const POLY_TRANSFORMS: [&str; 8] = ["v", "[v, k]", "{'e': v}", "tick(v)", "type(v)", "v == L[0]", "[v].map(v, [v])", "coalesce(v, 'dflt')"];

fn typed_part(rep: &mut Report, pending: &mut Vec<Pending>, opts: &Opts) {
    let mut rng = Rng::new(opts.seed ^ 0xC07);
    let lengths: Vec<usize> = if opts.thorough { (0..=64).collect() } else { vec![0, 1, 2, 3, 5, 8, 32, 33, 64] };
    for (tname, pool_vals) in element_pools() {
        if pool_vals.is_empty() {
            continue;
        }
        for n in lengths.iter() {
            let elems: Vec<CelValue> = (0..*n).map(|i| if i < pool_vals.len() && *n <= pool_vals.len() { pool_vals[(i * 7 + n) % pool_vals.len()].clone() } else { rng.pick(&pool_vals).clone() }).collect();
            let tag = format!("element type {}", tname);
            for (bi, b) in POLY_PREDICATES.iter().enumerate() {
                for m in [M::All, M::Exists, M::ExistsOne, M::Filter, M::Map3] {
                    // rotate to keep the product small in the quick tier
                    let mut c = base_case(m, elems.clone(), &tag);
                    c.body = b.to_string();
                    c.body2 = POLY_TRANSFORMS[(bi + n) % POLY_TRANSFORMS.len()].to_string();
                    // literal receivers for short spellable lists, bound variables otherwise
                    if *n <= 3 && bi % 3 == 0 {
                        if let Some(lit) = literal(&CelValue::List(elems.clone())) {
                            c.target = lit;
                            c.tag = format!("{}; literal receiver", tag);
                        }
                    }
                    check(rep, pending, &c, *n <= 5 || bi % 4 == 0);
                }
            }
            for (ti, t) in POLY_TRANSFORMS.iter().enumerate() {
                let mut c = base_case(M::Map, elems.clone(), &tag);
                c.body = t.to_string();
                check(rep, pending, &c, *n <= 5 || ti % 2 == 0);
                let mut c = base_case(M::Reduce, elems.clone(), &tag);
                c.body = format!("acc + [{}]", t);
                c.body2 = "[]".into();
                check(rep, pending, &c, *n <= 5);
            }
        }
    }
}

// ---------------------------------------------------------------------------------------------
// Part 3: bodies from the expression generator (loop variable, outer variables, nested macros re-using the name)

fn generated_part(rep: &mut Report, pending: &mut Vec<Pending>, opts: &Opts) {
    let mut rng = Rng::new(opts.seed ^ 0xC07C07);
    let n = if opts.thorough { 60_000 } else { 6_000 };
    for i in 0..n {
        let variant = (i % 6) as u64;
        let m = MACROS[i % 7];
        let var = ["v", "x", "v0", "l", "b"][rng.below(5)].to_string();
        let depth = 1 + (i % 4) as u32;
        let (body, body2) = {
            let mut g = Gen::new(&mut rng);
            g.loop_vars = vec![var.clone()];
            match m {
                M::All | M::Exists | M::ExistsOne | M::Filter => (g.expr(depth, Ty::Bool), String::new()),
                M::Map => (g.expr(depth, Ty::Any), String::new()),
                M::Map3 => (g.expr(depth, Ty::Bool), g.expr(depth.min(2), Ty::Any)),
                M::Reduce => {
                    g.loop_vars.push("acc".into());
                    (g.expr(depth, Ty::Int), g.expr(1, Ty::Int))
                }
            }
        };
        let len = match rng.below(6) {
            0 => 0,
            1 => 1,
            2 => rng.below(6),
            3 => 33 + rng.below(8),
            4 => 64,
            _ => rng.below(20),
        };
        let elems: Vec<CelValue> = (0..len)
            .map(|_| match rng.below(12) {
                0 => CelValue::Bool(rng.chance(1, 2)),
                1 => CelValue::Int(0),
                2 => CelValue::String("a".into()),
                3 => CelValue::Int(i64::MAX),
                _ => CelValue::Int(rng.range(-3, 9)),
            })
            .collect();
        let mut binds = std_bindings(variant);
        binds.push(("acc".to_string(), CelValue::Int(77)));
        binds.push(("v".to_string(), CelValue::Int(55)));
        binds.push(("v0".to_string(), CelValue::Bool(true)));
        binds.push(("LL".to_string(), CelValue::List(elems.clone())));
        let c = Case {
            m,
            target: "LL".into(),
            elems,
            var,
            body,
            body2,
            acc: "acc".into(),
            binds,
            progs: vec![],
            tag: format!("generated body; bindings variant {}", variant),
        };
        check(rep, pending, &c, true);
    }
}

// ---------------------------------------------------------------------------------------------
// Part 4: scoping with closed-form expectations (computed here, no macro in the oracle)

fn scoping_part(rep: &mut Report, pending: &mut Vec<Pending>) {
    let us = users();
    let l: Vec<i64> = vec![4, 1, 7, 1, 0, 9];
    let li = |f: &dyn Fn(i64) -> CelValue| CelValue::List(l.iter().map(|e| f(*e)).collect());
    let binds: Vec<(String, CelValue)> = vec![
        ("L".to_string(), CelValue::List(l.iter().map(|e| CelValue::Int(*e)).collect())),
        ("v".to_string(), CelValue::Int(1000)),
        ("k".to_string(), CelValue::Int(3)),
        ("acc".to_string(), CelValue::Int(-5)),
    ];
    let progs = vec![
        ("kplus".to_string(), compile("k + 1").unwrap()),
        ("readv".to_string(), compile("v").unwrap()),
        ("p".to_string(), compile("100").unwrap()),
        ("pacc".to_string(), compile("1000 + k").unwrap()),
    ];
    let int = CelValue::Int;
    let bl = CelValue::Bool;
    let cases: Vec<(&str, CelValue, &str)> = vec![
        // inner macro re-uses the name; afterwards the outer loop variable is back
        ("L.map(v, [v + 1].map(v, v * 2)[0] + v)", li(&|e| int((e + 1) * 2 + e)), "nested macro re-uses the loop variable's name"),
        ("L.map(v, [[v]].map(v, v.map(v, v + 1)[0])[0] * 10 + v)", li(&|e| int((e + 1) * 10 + e)), "three levels, same name"),
        ("L.filter(v, [10, 20].exists(v, v == 10) && v > 2)", CelValue::List(l.iter().filter(|e| **e > 2).map(|e| int(*e)).collect()), "nested macro re-uses the loop variable's name"),
        ("L.map(v, [1, 2].map(w, w * k + v))", li(&|e| CelValue::List(vec![int(3 + e), int(6 + e)])), "outer variable and outer loop variable read in a nested macro"),
        ("L.reduce(acc, v, acc + [v].map(acc, acc * 2)[0], 0)", int(l.iter().map(|e| e * 2).sum()), "accumulator name re-used by a nested macro"),
        ("L.reduce(v, v, v, 5)", int(5), "reduce with both names equal: the accumulator wins"),
        ("L.reduce(acc, v, acc + v, acc)", int(l.iter().sum::<i64>() - 5), "the seed sees the outer binding of the accumulator's name"),
        ("L.map(v, v + kplus)", li(&|e| int(e + 4)), "stored program visible in the body"),
        ("L.map(w, w + v)", li(&|e| int(e + 1000)), "outer binding of another name visible in the body"),
        ("L.map(v, readv)", li(&|e| int(e)), "stored program referenced from the body reads the loop variable (dynamic)"),
        ("[L.all(v, v >= 0), v]", CelValue::List(vec![CelValue::Bool(true), int(1000)]), "outer binding unchanged after the macro"),
        ("[L.map(v, v)[0], v, L.filter(v, v > 100), v, L.reduce(v, k, v + k, 0), v, k]", CelValue::List(vec![int(4), int(1000), CelValue::List(vec![]), int(1000), int(22), int(1000), int(3)]), "outer bindings unchanged after several macros"),
        ("L.map(v, v)[0] + v", int(1004), "outer binding unchanged after the macro"),
        ("L.exists(v, v == 7) && v == 1000", CelValue::Bool(true), "outer binding unchanged after the macro"),
        ("L.map(L, L)", li(&|e| int(e)), "the receiver's own name as loop variable"),
        ("L.map(v, L[0] + v)", li(&|e| int(4 + e)), "the receiver readable in the body"),
        ("L.map(v, L.filter(v, v > 4).size() + v)", li(&|e| CelValue::Int(2 + e)), "nested macro over the same receiver, same name"),
        ("L.all(v, L.exists(v, v == 0) && v >= 0)", CelValue::Bool(true), "nested macro over the same receiver, same name"),
        ("L.exists_one(v, v == 7 && [v].exists_one(v, v == 7))", CelValue::Bool(true), "nested exists_one"),
        ("L.map(v, v, [v, k].map(v, v + 1))", CelValue::List(l.iter().filter(|e| **e != 0).map(|e| CelValue::List(vec![int(e + 1), int(4)])).collect()), "three-argument map, nested re-use"),
        // a loop variable also shadows a stored program of the same name; the program is back afterwards
        ("L.map(p, p + 1)", li(&|e| int(e + 1)), "loop variable named like a stored program"),
        ("L.filter(p, p < 3)", CelValue::List(l.iter().filter(|e| **e < 3).map(|e| int(*e)).collect()), "loop variable named like a stored program"),
        ("L.all(p, p < 50)", bl(true), "loop variable named like a stored program"),
        ("L.exists(p, p == 100)", bl(false), "loop variable named like a stored program"),
        ("L.exists_one(p, p == 7)", bl(true), "loop variable named like a stored program"),
        ("L.reduce(pacc, p, pacc + p, 0)", int(l.iter().sum()), "accumulator and loop variable named like stored programs"),
        ("L.reduce(pacc, v, pacc + v, pacc)", int(l.iter().sum::<i64>() + 1003), "the seed sees the stored program of the accumulator's name"),
        ("[L.map(p, p)[0], p, pacc]", CelValue::List(vec![int(4), int(100), int(1003)]), "stored programs visible again after the macro"),
        ("L.map(p, [p].map(p, p + pacc)[0])", li(&|e| int(e + 1003)), "nested re-use of a stored program's name, another program read in the body"),
        ("L.map(v, p + v)", li(&|e| int(e + 100)), "stored program visible in the body"),
        // calls the compiler can evaluate itself: the loop variable is named like a built-in, the list is constant
        ("[1, 1].exists_one(size, size == 1)", bl(false), "closed exists_one, loop variable named like a function"),
        ("[1, 2, 3].exists_one(max, max > 1)", bl(false), "closed exists_one, loop variable named like a function"),
        ("[1, 2, 3].exists_one(max, max > 2)", bl(true), "closed exists_one, loop variable named like a function"),
        ("[1, 2, 3].all(min, min > 0)", bl(true), "closed all, loop variable named like a function"),
        ("[1, 2, 3].all(min, min > 1)", bl(false), "closed all, loop variable named like a function"),
        ("[1, 2, 3].exists(abs, abs == 2)", bl(true), "closed exists, loop variable named like a function"),
        ("[1, 2, 3].exists(abs, abs == 4)", bl(false), "closed exists, loop variable named like a function"),
        ("[1, 2, 3].filter(size, size > 1)", CelValue::List(vec![int(2), int(3)]), "closed filter, loop variable named like a function"),
        ("[1, 2, 3].map(max, max * 2)", CelValue::List(vec![int(2), int(4), int(6)]), "closed map, loop variable named like a function"),
        ("[1, 2, 3].map(min, min > 1, min * 2)", CelValue::List(vec![int(4), int(6)]), "closed three-argument map, loop variable named like a function"),
        ("[1, 2, 3].reduce(max, min, max + min, 0)", int(6), "closed reduce, both names like functions"),
        ("[1, 2].map(w, [2, 2].exists_one(min, min == 2))", CelValue::List(vec![bl(false), bl(false)]), "closed exists_one inside an open macro"),
        ("[1, 2].map(filter, [2, 3].map(all, all + filter))", CelValue::List(vec![CelValue::List(vec![int(3), int(4)]), CelValue::List(vec![int(4), int(5)])]), "closed nested macros, names like macros"),
        ("{'a': 1, 'b': 0}.filter(size, size == 'a')", CelValue::List(vec![CelValue::String("a".into())]), "closed filter over a map literal"),
    ];
    for (src, want, what) in cases {
        let p = match compile(src) {
            Ok(p) => p,
            Err(e) => {
                rep.oracle_fail(src, &e, &show_val(&want), "does not compile");
                continue;
            }
        };
        let mut ps = progs.clone();
        ps.push(("main".to_string(), p));
        let out = exec_full(&ps, "main", &binds, &us);
        rep.count(Some(src));
        rep.bump("family:scoping, closed form");
        if out.obs != show_val(&want) {
            rep.oracle_fail(src, &out.obs, &show_val(&want), what);
        }
        pending.push(Pending {
            request: format!("exec {} {}", env_wire(&progs, &binds, &us), hex(src.as_bytes())),
            implementation: format!("{} {}", out.obs, out.log),
            level: 7,
            input: format!("{} [{}]", src, what),
        });
    }
}

/// Macros supplied by the caller (`BindContext::bind_macro`), also under the name of a built-in one, are bindings
/// like any other: the one visible at the top level is the one visible inside every body.  Implementation only.
fn caller_macros_part(rep: &mut Report) {
    use rscel::{BindContext, CelContext, RsCelMacro};
    // a stricter coalesce (skips null and empty strings), a `has` that answers 42, and a macro under a fresh name
    let strict_coalesce: &RsCelMacro = &|ctx, _this, args| {
        for arg in args.iter() {
            match ctx.run_raw(arg, true) {
                Ok(CelValue::Null) => {}
                Ok(CelValue::String(s)) if s.is_empty() => {}
                Ok(val) => return val,
                Err(_) => {}
            }
        }
        CelValue::from_null()
    };
    let has42: &RsCelMacro = &|_ctx, _this, _args| CelValue::from_int(42);
    let twice: &RsCelMacro = &|ctx, _this, args| match args.first().map(|a| ctx.run_raw(a, true)) {
        Some(Ok(v)) => v.clone() + v,
        Some(Err(e)) => CelValue::from_err(e),
        None => CelValue::from_null(),
    };
    let obs = crate::report::guarded(move || {
        let mut b = BindContext::new();
        b.bind_macro("coalesce", strict_coalesce);
        b.bind_macro("has", has42);
        b.bind_macro("twice", twice);
        b.bind_param("names", CelValue::List(vec![CelValue::String("ann".into()), CelValue::String("".into()), CelValue::String("bob".into())]));
        b.bind_param("e", CelValue::String("".into()));
        b.bind_param("x", CelValue::String("outer".into()));
        let cases: [(&str, &str); 12] = [
            ("coalesce(e, 'anon')", "s:616e6f6e"),
            ("has(zz)", "i:42"),
            ("twice(e + 'ab')", "s:61626162"),
            ("names.map(x, coalesce(x, 'anon'))", "l:3 s:616e6e s:616e6f6e s:626f62"),
            ("names.map(x, twice(x))", "l:3 s:616e6e616e6e s:_ s:626f62626f62"),
            ("names.map(x, has(zz))", "l:3 i:42 i:42 i:42"),
            ("names.all(x, coalesce(x, 'anon') != e)", "b:1"),
            ("names.exists(x, coalesce(x, 'anon') == 'anon')", "b:1"),
            ("names.exists_one(x, has(zz) == 42 && x == e)", "b:1"),
            ("names.filter(x, coalesce(x, 'anon') == 'anon')", "l:1 s:_"),
            ("[names].map(x, x.map(x, coalesce(x, 'anon')))", "l:1 l:3 s:616e6e s:616e6f6e s:626f62"),
            ("names.reduce(acc, x, acc + coalesce(x, '?'), e)", "s:616e6e3f626f62"),
        ];
        let mut out = Vec::new();
        for (src, want) in cases.iter() {
            let mut ctx = CelContext::new();
            let got = match ctx.add_program_str("main", src) {
                Err(e) => format!("e:{}", crate::wire::err_kind(&e)),
                Ok(_) => crate::wire::show_result(&ctx.exec("main", &b)),
            };
            out.push(format!("{}\t{}\t{}", src, got, want));
        }
        out.join("\n")
    });
    for line in obs.split('\n') {
        let f: Vec<&str> = line.split('\t').collect();
        rep.count(Some(line));
        rep.bump("family:caller macros visible in bodies");
        if f.len() != 3 {
            rep.oracle_fail("caller macros", line, "results", "evaluation with caller macros panicked");
            continue;
        }
        if f[1] != f[2] {
            rep.oracle_fail(&format!("{}  [bind_macro: coalesce (skips '' too), has (always 42), twice]", f[0]), f[1], f[2], "a macro bound by the caller is visible in comprehension bodies like every other binding");
        }
    }
}

// ---------------------------------------------------------------------------------------------
// Part 5: maps — filter / map range over the keys in one fixed (ascending) order

fn maps_part(rep: &mut Report, pending: &mut Vec<Pending>, opts: &Opts) {
    let mut rng = Rng::new(opts.seed ^ 0x3A95);
    let rounds = if opts.thorough { 1200 } else { 120 };
    let alphabet = ["a", "b", "c", "ab", "ba", "", "é", "z", "A", "aa", "k1", "k10", "k2", "Z", "~", "0", " "];
    for round in 0..rounds {
        let nkeys = match round % 6 {
            0 => 0,
            1 => 1,
            2 => 2 + rng.below(4),
            3 => 33 + rng.below(10),
            4 => 64,
            _ => rng.below(alphabet.len()),
        };
        let mut keys: Vec<String> = Vec::new();
        for i in 0..nkeys {
            let k = if nkeys <= alphabet.len() && round % 6 != 3 && round % 6 != 4 { alphabet[(i * 5 + round) % alphabet.len()].to_string() } else { format!("key{}", rng.below(1000)) };
            if !keys.contains(&k) {
                keys.push(k);
            }
        }
        // two maps with the same keys, built in different insertion orders (and different capacities)
        let mut m1 = HashMap::new();
        for (i, k) in keys.iter().enumerate() {
            m1.insert(k.clone(), CelValue::Int(i as i64));
        }
        let mut m2 = HashMap::with_capacity(97);
        for (i, k) in keys.iter().enumerate().rev() {
            m2.insert(k.clone(), CelValue::Int(i as i64 % 3));
        }
        // the line protocol to the model cannot spell the empty key: such maps are checked by the oracle only
        let spellable = !keys.iter().any(|k| k.is_empty());
        let mut sorted = keys.clone();
        sorted.sort(); // byte order of the UTF-8 keys
        let elems: Vec<CelValue> = sorted.iter().map(|k| CelValue::String(k.clone())).collect();
        for (mname, mval) in [("M1", &m1), ("M2", &m2)] {
            let binds = vec![
                ("M1".to_string(), CelValue::Map(m1.clone())),
                ("M2".to_string(), CelValue::Map(m2.clone())),
                ("v".to_string(), CelValue::Int(5)),
                ("k".to_string(), CelValue::String("outer k".into())),
                ("acc".to_string(), CelValue::Int(0)),
            ];
            let _ = mval;
            let bodies: [(M, &str, &str); 7] = [
                (M::Map, "k", ""),
                (M::Map, "tick(k)", ""),
                (M::Filter, "tick(k) > 'a'", ""),
                (M::Filter, "M1[k] % 2 == 0", ""),
                (M::Map, "[k, M2[k]]", ""),
                (M::Map3, "tick(k) != 'b'", "tick(k + '!')"),
                (M::Map, "k.size() / (k == 'key7' ? 0 : 1)", ""),
            ];
            for (m, b, b2) in bodies {
                let c = Case {
                    m,
                    target: mname.to_string(),
                    elems: elems.clone(),
                    var: "k".into(),
                    body: b.to_string(),
                    body2: b2.to_string(),
                    acc: "acc".into(),
                    binds: binds.clone(),
                    progs: vec![],
                    tag: "map receiver: keys in ascending order".to_string(),
                };
                check(rep, pending, &c, spellable && (round % 4 == 0 || nkeys <= 5));
            }
            // literal map receivers (short)
            if nkeys <= 4 {
                if let Some(lit) = literal(&CelValue::Map(m1.clone())) {
                    let c = Case {
                        m: M::Map,
                        target: format!("({})", lit),
                        elems: elems.clone(),
                        var: "k".into(),
                        body: "tick(k)".into(),
                        body2: String::new(),
                        acc: "acc".into(),
                        binds: binds.clone(),
                        progs: vec![],
                        tag: "map receiver: keys in ascending order; literal receiver".to_string(),
                    };
                    check(rep, pending, &c, spellable);
                }
            }
        }
        // one fixed order: the same key set gives the same sequence, twice in one run and across two maps
        let binds = vec![("M1".to_string(), CelValue::Map(m1.clone())), ("M2".to_string(), CelValue::Map(m2.clone()))];
        for src in ["M1.map(k, k) == M1.map(k, k)", "M1.map(k, k) == M2.map(k, k)", "M1.filter(k, true) == M2.map(k, k)"] {
            let out = crate::api::exec_src(src, &binds);
            rep.count(Some(&format!("{}|{}", src, round)));
            rep.bump("family:map receiver, same key set twice");
            if out != "b:1" {
                rep.oracle_fail(&format!("{} with keys {:?}", src, sorted), &out, "b:1", "maps with the same keys must be ranged over in the same order");
            }
        }
    }
}

// ---------------------------------------------------------------------------------------------
// Part 6: odd and malformed uses (no claim beyond: no panic, model = code)

fn odd_part(rep: &mut Report, pending: &mut Vec<Pending>, opts: &Opts) {
    let binds = vec![
        ("L".to_string(), CelValue::List(ints(3))),
        ("v".to_string(), CelValue::Int(9)),
        ("m".to_string(), pool::map_of(&[("a", CelValue::Int(1))])),
    ];
    let comp = Compiled { progs: vec![] };
    let fixed = [
        "L.all(v)", "L.all()", "L.all(v, true, 1)", "L.map(v)", "L.map(v, v, v, v)", "L.reduce(acc, v, acc)", "L.reduce(acc, v, acc, 0, 1)",
        "L.all(1, true)", "L.all('v', true)", "L.map(v.a, v)", "L.map(L[0], 1)", "L.map([v], v)", "L.filter(v + 1, true)",
        "5.all(v, true)", "'abc'.map(v, v)", "null.filter(v, true)", "m.all(v, true)", "m.exists(v, true)", "m.exists_one(v, true)",
        "m.reduce(acc, v, acc, 0)", "L.map(int, int)", "L.map(size, size)", "L.map(map, map)", "L.map(has, has)", "L.map(true, 1)",
        "L.map(null, 1)", "all(v, true)", "map(v, v)", "L.all", "L.map", "L.all(v, )", "L.all(, true)", "L.map(v, v", "L.map(v v)",
        "L.reduce(v, v, v + 1, 0)", "L.reduce(1, v, 1, 0)", "L.reduce(acc, 1, 1, 0)", "L.map(v, L.map(v))", "[].all(v, 1/0)", "[].map(v, qq)",
        "[].reduce(acc, v, 1/0, 7)", "L.map(v, v).map(v, v).map(v, v).filter(v, v > 0).all(v, v > 0)", "L.map(tick, tick)", "L.map(v, tick)",
    ];
    let mut srcs: Vec<String> = fixed.iter().map(|s| s.to_string()).collect();
    let mut rng = Rng::new(opts.seed ^ 0xBAD07);
    let seeds = ["L.all(v, tick(v) > 0)", "L.map(v, v > 0, [v].map(v, v + 1))", "L.reduce(acc, v, acc + v, 0)", "m.filter(k, m[k] == 1)", "L.exists_one(v, v == 1)"];
    let n = if opts.thorough { 4_000 } else { 500 };
    for i in 0..n {
        let s: Vec<char> = seeds[i % seeds.len()].chars().collect();
        let mut t = s.clone();
        match rng.below(4) {
            0 => {
                t.remove(rng.below(s.len()));
            }
            1 => {
                let p = rng.below(s.len());
                t.insert(p, s[rng.below(s.len())]);
            }
            2 => {
                let (a, b) = (rng.below(s.len()), rng.below(s.len()));
                t.swap(a, b);
            }
            _ => {
                let p = rng.below(s.len());
                t[p] = *rng.pick(&['(', ')', ',', '.', 'v', '0', ' ', '[', ']', '\'']);
            }
        }
        srcs.push(t.into_iter().collect());
    }
    for src in srcs.iter() {
        let out = run_src(src, &comp, &binds);
        rep.count(Some(src));
        rep.bump(&format!("odd:{}", if out.obs == "P" { "panic" } else if out.obs == "e:syntax" { "syntax error" } else if out.obs.starts_with("e:") { "error" } else { "value" }));
        if out.obs == "P" {
            rep.oracle_fail(src, "P", "value or error", "panicked");
        }
        queue(pending, src, &comp, &binds, &out, " [odd form]");
    }
}

pub fn run(opts: &Opts) -> Report {
    let mut rep = Report::new(
        "C07",
        "all / exists / exists_one / filter / map / map(x,p,e) / reduce over (1) int lists of every length 0..64 with the deciding and the failing element at every kind of position, \
         (2) lists of every element type (13 pools, lengths up to 64) with 14 predicates and 8 transforms that apply to any value, bound and literal receivers, (3) bodies from the expression \
         generator reading the loop variable, outer variables, nested macros re-using the name, (4) scoping programs with closed-form results, (5) map receivers with up to 64 keys in different \
         insertion orders, (6) odd / malformed calls. Oracle: the body evaluated once per element through the real API with the loop variable as a plain parameter, the fold recomputed in the \
         harness (result, call log = visit order and early exit, outer binding afterwards); non-trivial = distinct source text + family",
    );
    let mut pending: Vec<Pending> = Vec::new();
    let t0 = std::time::Instant::now();
    let lap = |what: &str| eprintln!("C07 {:>10} done at {:.1}s", what, t0.elapsed().as_secs_f64());
    ladder(&mut rep, &mut pending, opts);
    lap("ladder");
    typed_part(&mut rep, &mut pending, opts);
    lap("typed");
    generated_part(&mut rep, &mut pending, opts);
    lap("generated");
    scoping_part(&mut rep, &mut pending);
    caller_macros_part(&mut rep);
    maps_part(&mut rep, &mut pending, opts);
    lap("maps");
    odd_part(&mut rep, &mut pending, opts);
    rep.compare_with_model(&opts.driver, &pending);
    lap("model");
    rep
}
