//! C15 — string, regex and math built-ins compute their documented function on all inputs.
//!
//! Direct oracle (independent of the Lean model): Rust std (`str::contains`, `split`, `trim`, … called
//! directly), own naive scans on `Vec<char>`, the defining equations evaluated on the implementation's
//! own answers (join∘split, prefix/suffix through `splitAt`, replace through split+join, `…I` through
//! `toLower`), the `regex` crate called directly, exact i128 arithmetic for the integer math forms and
//! Rust f64 (IEEE) for the double forms, and a hand-written table of the documented call shapes.
//! Correspondence: the same programs through the Lean model pipeline (`xexec`), case mappings and the
//! regex engine's answers sent along.
use crate::api::{env_wire, literal};
use crate::facets::conv::{Ext, Runner};
use crate::pool;
use crate::report::{Pending, Report};
use crate::rng::Rng;
use crate::wire::{hex, show_val};
use crate::Opts;
use rscel::CelValue;
use serde_json::json;

struct Ctx<'a> {
    rep: &'a mut Report,
    pending: Vec<Pending>,
    runner: Runner,
}

fn describe(src: &str, binds: &[(String, CelValue)]) -> String {
    if binds.is_empty() {
        src.to_string()
    } else {
        let b: Vec<String> = binds.iter().map(|(k, v)| format!("{}={}", k, show_val(v))).collect();
        format!("{}  [{}]", src, b.join(", "))
    }
}

impl<'a> Ctx<'a> {
    fn queue(&mut self, src: &str, binds: &[(String, CelValue)], ext: &Ext, obs: &str) {
        self.pending.push(Pending {
            request: format!("xexec {} {} {}", ext.wire(), env_wire(&[], binds, &[]), hex(src.as_bytes())),
            implementation: format!("{} L:0", obs),
            level: 3,
            input: describe(src, binds),
        });
    }

    /// Run on the implementation, queue the model comparison, return the value or the observation.
    fn eval(&mut self, src: &str, binds: &[(String, CelValue)], ext: &Ext, model: bool) -> Result<CelValue, String> {
        let r = self.runner.run_val(src, binds);
        let obs = match &r {
            Ok(v) => show_val(v),
            Err(o) => o.clone(),
        };
        if obs == "P" {
            self.rep.oracle_fail(&describe(src, binds), "P", "value or error", "built-in panicked");
        }
        if model {
            self.queue(src, binds, ext, &obs);
        }
        r
    }

    fn fail(&mut self, input: &str, got: &str, want: &str, why: &str) {
        self.rep.oracle_fail(input, got, want, why);
    }
}

fn sv(s: &str) -> CelValue {
    CelValue::String(s.to_string())
}

fn as_str(v: &CelValue) -> Option<String> {
    match v {
        CelValue::String(s) => Some(s.clone()),
        _ => None,
    }
}

fn as_strs(v: &CelValue) -> Option<Vec<String>> {
    match v {
        CelValue::List(l) => l.iter().map(as_str).collect(),
        _ => None,
    }
}

fn as_bool(v: &CelValue) -> Option<bool> {
    match v {
        CelValue::Bool(b) => Some(*b),
        _ => None,
    }
}

// ---------------------------------------------------------------- naive reference scans on chars

fn starts_at(s: &[char], i: usize, d: &[char]) -> bool {
    i + d.len() <= s.len() && s[i..i + d.len()] == *d
}

/// Leftmost non-overlapping occurrences; the empty delimiter matches at every boundary.
fn naive_split(s: &[char], d: &[char]) -> Vec<String> {
    let mut out = Vec::new();
    if d.is_empty() {
        out.push(String::new());
        for c in s {
            out.push(c.to_string());
        }
        out.push(String::new());
        return out;
    }
    let mut cur = String::new();
    let mut i = 0;
    while i < s.len() {
        if starts_at(s, i, d) {
            out.push(std::mem::take(&mut cur));
            i += d.len();
        } else {
            cur.push(s[i]);
            i += 1;
        }
    }
    out.push(cur);
    out
}

fn naive_rsplit(s: &[char], d: &[char]) -> Vec<String> {
    let rs: Vec<char> = s.iter().rev().cloned().collect();
    let rd: Vec<char> = d.iter().rev().cloned().collect();
    naive_split(&rs, &rd).into_iter().map(|p| p.chars().rev().collect()).collect()
}

fn chars(s: &str) -> Vec<char> {
    s.chars().collect()
}

const FULL: [char; 22] = [
    'a', 'b', 'A', 'B', ',', ' ', '\t', 'é', 'É', 'ß', 'İ', 'ǅ', 'Σ', 'ς', 'σ', '日', '𝄞', '\u{a0}', '\u{2003}', '\u{85}', '\u{200b}', 'i',
];
const SMALL: [char; 5] = ['a', 'b', 'é', '𝄞', ' '];

fn rand_string(rng: &mut Rng, max: usize) -> String {
    let n = rng.below(max + 1);
    // a narrow sub-alphabet makes repeated and overlapping occurrences likely
    let width = *rng.pick(&[2usize, 3, 5, 22]);
    let start = rng.below(FULL.len());
    (0..n).map(|_| FULL[(start + rng.below(width)) % FULL.len()]).collect()
}

fn swap_case(s: &str, rng: &mut Rng) -> String {
    s.chars()
        .map(|c| {
            if rng.chance(1, 2) {
                c.to_string()
            } else if c.is_lowercase() {
                c.to_uppercase().collect::<String>()
            } else {
                c.to_lowercase().collect::<String>()
            }
        })
        .collect()
}

fn rand_needle(rng: &mut Rng, s: &str) -> String {
    let cs = chars(s);
    match rng.below(8) {
        0 => String::new(),
        1 | 2 | 3 if !cs.is_empty() => {
            let i = rng.below(cs.len());
            let l = 1 + rng.below(3.min(cs.len() - i));
            cs[i..i + l].iter().collect()
        }
        4 if !cs.is_empty() => {
            let i = rng.below(cs.len());
            let l = 1 + rng.below(3.min(cs.len() - i));
            let sub: String = cs[i..i + l].iter().collect();
            swap_case(&sub, rng)
        }
        5 if !cs.is_empty() => {
            // the first character repeated: overlapping candidates
            std::iter::repeat(cs[0]).take(1 + rng.below(3)).collect()
        }
        _ => rand_string(rng, 3),
    }
}

const PAIR_SRC: &str = "[x.contains(y), x.startsWith(y), x.endsWith(y), x.containsI(y), x.startsWithI(y), x.endsWithI(y), \
x.split(y), x.rsplit(y), x.remove(y), x.trimStartMatches(y), x.trimEndMatches(y), x.replace(y, z), \
x.toLower().contains(y.toLower()), x.toLower().startsWith(y.toLower()), x.toLower().endsWith(y.toLower()), x.replace(y, '')]";

fn join(p: &[String], d: &str) -> String {
    p.join(d)
}

/// All two-string functions on one (s, n, r).
fn pair_case(c: &mut Ctx, s: &str, n: &str, r: &str, as_literals: bool) {
    let mut ext = Ext::new();
    ext.case_maps(s);
    ext.case_maps(n);
    let (src, binds): (String, Vec<(String, CelValue)>) = if as_literals {
        let q = |t: &str| literal(&sv(t)).unwrap();
        (PAIR_SRC.replace("x.", &format!("{}.", q(s))).replace("(y", &format!("({}", q(n))).replace("y.", &format!("{}.", q(n))).replace(", z)", &format!(", {})", q(r))), vec![])
    } else {
        (PAIR_SRC.to_string(), vec![("x".to_string(), sv(s)), ("y".to_string(), sv(n)), ("z".to_string(), sv(r))])
    };
    let input = format!("s={:?} n={:?} r={:?}{}", s, n, r, if as_literals { " (literals)" } else { "" });
    c.rep.count(Some(&input));
    let v = match c.eval(&src, &binds, &ext, true) {
        Ok(CelValue::List(l)) if l.len() == 16 => l,
        Ok(other) => {
            c.fail(&input, &show_val(&other), "a list of 16 results", "string functions on strings never fail");
            return;
        }
        Err(o) => {
            c.fail(&input, &o, "a list of 16 results", "string functions on strings never fail");
            return;
        }
    };
    let (sc, nc) = (chars(s), chars(n));
    let b = |i: usize| as_bool(&v[i]);
    let t = |i: usize| as_str(&v[i]);
    let mut bad = |what: &str, got: String, want: String, why: &str| {
        c.rep.oracle_fail(&format!("{}: {}", what, input), &got, &want, why);
    };
    // --- contains / startsWith / endsWith: Rust std and the naive definition
    let naive_contains = (0..=sc.len()).any(|i| starts_at(&sc, i, &nc));
    if b(0) != Some(s.contains(n)) || b(0) != Some(naive_contains) {
        bad("contains", format!("{:?}", b(0)), format!("{}", naive_contains), "contains <-> substring");
    }
    if b(1) != Some(s.starts_with(n)) || b(1) != Some(starts_at(&sc, 0, &nc)) {
        bad("startsWith", format!("{:?}", b(1)), format!("{}", s.starts_with(n)), "startsWith <-> prefix");
    }
    let naive_ends = nc.len() <= sc.len() && starts_at(&sc, sc.len() - nc.len(), &nc);
    if b(2) != Some(s.ends_with(n)) || b(2) != Some(naive_ends) {
        bad("endsWith", format!("{:?}", b(2)), format!("{}", s.ends_with(n)), "endsWith <-> suffix");
    }
    // --- case-insensitive: both sides folded, relation kept (Rust std and the implementation's own toLower)
    let (ls, ln) = (s.to_lowercase(), n.to_lowercase());
    for (i, j, name, want) in [
        (3usize, 12usize, "containsI", ls.contains(&ln)),
        (4, 13, "startsWithI", ls.starts_with(&ln)),
        (5, 14, "endsWithI", ls.ends_with(&ln)),
    ] {
        if b(i) != Some(want) || b(i) != b(j) {
            bad(name, format!("{:?}", b(i)), format!("{} (via toLower on the implementation: {:?})", want, b(j)), "the I variant lower-cases both sides and keeps the relation");
        }
    }
    // --- split / rsplit
    let std_split: Vec<String> = s.split(n).map(|p| p.to_string()).collect();
    let std_rsplit: Vec<String> = s.rsplit(n).map(|p| p.to_string()).collect();
    match as_strs(&v[6]) {
        None => bad("split", show_val(&v[6]), "a list of strings".into(), "split yields strings"),
        Some(p) => {
            if join(&p, n) != s {
                bad("split", format!("{:?}", p), s.to_string(), "pieces.join(d) == s");
            }
            if !n.is_empty() && p.iter().any(|x| x.contains(n)) {
                bad("split", format!("{:?}", p), "no piece containing the delimiter".into(), "a left scan would have split that piece");
            }
            if p != naive_split(&sc, &nc) || p != std_split {
                bad("split", format!("{:?}", p), format!("{:?}", naive_split(&sc, &nc)), "leftmost non-overlapping scan, pieces left to right");
            }
        }
    }
    match as_strs(&v[7]) {
        None => bad("rsplit", show_val(&v[7]), "a list of strings".into(), "rsplit yields strings"),
        Some(p) => {
            let mut rev = p.clone();
            rev.reverse();
            if join(&rev, n) != s {
                bad("rsplit", format!("{:?}", p), s.to_string(), "reverse(pieces).join(d) == s");
            }
            if !n.is_empty() && p.iter().any(|x| x.contains(n)) {
                bad("rsplit", format!("{:?}", p), "no piece containing the delimiter".into(), "a right scan would have split that piece");
            }
            if p != naive_rsplit(&sc, &nc) || p != std_rsplit {
                bad("rsplit", format!("{:?}", p), format!("{:?}", naive_rsplit(&sc, &nc)), "rightmost non-overlapping scan, pieces right to left");
            }
        }
    }
    // --- replace == join(split) on the implementation's own pieces; remove == replace with ''
    if let Some(p) = as_strs(&v[6]) {
        if t(11) != Some(join(&p, r)) || t(11) != Some(s.replace(n, r)) {
            bad("replace", format!("{:?}", t(11)), format!("{:?}", join(&p, r)), "replace(a, b) == split(a).join(b)");
        }
        if t(8) != Some(p.concat()) || t(8) != t(15) {
            bad("remove", format!("{:?}", t(8)), format!("{:?}", p.concat()), "remove(a) == replace(a, '') == concatenation of the pieces");
        }
    }
    // --- trimStartMatches / trimEndMatches
    for (i, name, front) in [(9usize, "trimStartMatches", true), (10, "trimEndMatches", false)] {
        let want = if front { s.trim_start_matches(n).to_string() } else { s.trim_end_matches(n).to_string() };
        match t(i) {
            None => bad(name, show_val(&v[i]), "a string".into(), "yields a string"),
            Some(res) => {
                let ok = if n.is_empty() {
                    res == s
                } else {
                    let removed = s.len() - res.len().min(s.len());
                    let k = removed / n.len();
                    let copies = n.repeat(k);
                    let whole = if front { format!("{}{}", copies, res) } else { format!("{}{}", res, copies) };
                    whole == s && !(if front { res.starts_with(n) } else { res.ends_with(n) })
                };
                if !ok || res != want {
                    bad(name, format!("{:?}", res), format!("{:?}", want), "s == p^k + result (resp. result + p^k) and the result does not begin (end) with p");
                }
            }
        }
    }
    // --- prefix / suffix through splitAt, on the implementation
    let nlen = n.len() as i64;
    let slen = s.len() as i64;
    let sb = vec![("x".to_string(), sv(s)), ("i".to_string(), CelValue::Int(nlen))];
    let via = match c.runner.run_val("x.splitAt(i)", &sb) {
        Ok(CelValue::List(l)) if l.len() == 2 => as_str(&l[0]).map(|h| h == n).unwrap_or(false),
        _ => false,
    };
    if b(1) != Some(via) {
        c.rep.oracle_fail(&format!("startsWith via splitAt: {}", input), &format!("{:?}", b(1)), &format!("{}", via), "s.startsWith(n) <-> s.splitAt(size(n))[0] == n");
    }
    let sb = vec![("x".to_string(), sv(s)), ("i".to_string(), CelValue::Int(slen - nlen))];
    let via = match c.runner.run_val("x.splitAt(i)", &sb) {
        Ok(CelValue::List(l)) if l.len() == 2 => as_str(&l[1]).map(|h| h == n).unwrap_or(false),
        _ => false,
    };
    if b(2) != Some(via) {
        c.rep.oracle_fail(&format!("endsWith via splitAt: {}", input), &format!("{:?}", b(2)), &format!("{}", via), "s.endsWith(n) <-> s.splitAt(size(s) - size(n))[1] == n");
    }
    c.rep.bump(if n.is_empty() { "needle:empty" } else if s.contains(n) { if s.matches(n).count() > 1 { "needle:repeated" } else { "needle:once" } } else { "needle:absent" });
    if !n.is_empty() && naive_split(&sc, &nc) != { let mut r = naive_rsplit(&sc, &nc); r.reverse(); r } {
        c.rep.bump("needle:overlapping (split != reverse rsplit)");
    }
}

const UNARY_SRC: &str = "[x.trim(), x.trimStart(), x.trimEnd(), x.toLower(), x.toUpper(), x.splitWhiteSpace(), size(x), x.size()]";

fn unary_case(c: &mut Ctx, s: &str) {
    let mut ext = Ext::new();
    ext.case_maps(s);
    let binds = vec![("x".to_string(), sv(s))];
    let input = format!("s={:?}", s);
    c.rep.count(Some(&format!("unary {}", input)));
    let v = match c.eval(UNARY_SRC, &binds, &ext, true) {
        Ok(CelValue::List(l)) if l.len() == 8 => l,
        Ok(o) => return c.fail(&input, &show_val(&o), "8 results", "string methods on a string never fail"),
        Err(o) => return c.fail(&input, &o, "8 results", "string methods on a string never fail"),
    };
    let ws = |ch: char| ch.is_whitespace();
    let t = |i: usize| as_str(&v[i]).unwrap_or_else(|| "<not a string>".to_string());
    let checks: [(usize, &str, String); 5] = [
        (0, "trim", s.trim().to_string()),
        (1, "trimStart", s.trim_start().to_string()),
        (2, "trimEnd", s.trim_end().to_string()),
        (3, "toLower", s.to_lowercase()),
        (4, "toUpper", s.to_uppercase()),
    ];
    for (i, name, want) in checks.iter() {
        if &t(*i) != want {
            c.fail(&format!("{}: {}", name, input), &t(*i), want, "equals the Rust std function of the same name");
        }
    }
    // defining equation of trim on the implementation's own answer
    let tr = t(0);
    if let Some(pos) = s.find(&tr) {
        let (l, rest) = s.split_at(pos);
        let r = &rest[tr.len()..];
        let ok = l.chars().all(ws) && r.chars().all(ws) && !tr.chars().next().map(ws).unwrap_or(false) && !tr.chars().last().map(ws).unwrap_or(false);
        // the first occurrence is the right one unless the text is all whitespace
        if !ok && !(tr.is_empty() && s.chars().all(ws)) {
            c.fail(&format!("trim equation: {}", input), &tr, "s == ws* + trim(s) + ws*, trim(s) without outer whitespace", "trim removes exactly the surrounding whitespace");
        }
    } else {
        c.fail(&format!("trim equation: {}", input), &tr, "a substring of s", "trim removes, never adds");
    }
    match as_strs(&v[5]) {
        None => c.fail(&format!("splitWhiteSpace: {}", input), &show_val(&v[5]), "list of strings", ""),
        Some(p) => {
            let want: Vec<String> = s.split_whitespace().map(|x| x.to_string()).collect();
            let no_ws: String = s.chars().filter(|ch| !ws(*ch)).collect();
            if p != want || p.concat() != no_ws || p.iter().any(|w| w.is_empty() || w.chars().any(ws)) {
                c.fail(&format!("splitWhiteSpace: {}", input), &format!("{:?}", p), &format!("{:?}", want), "non-empty whitespace-free words whose concatenation is the text without whitespace");
            }
        }
    }
    for i in [6usize, 7] {
        if v[i] != CelValue::UInt(s.len() as u64) {
            c.fail(&format!("size: {}", input), &show_val(&v[i]), &format!("u:{}", s.len()), "size of a string is its UTF-8 length, both call forms");
        }
    }
    // splitAt at every offset from -1 to len+1
    for i in -1..=(s.len() as i64 + 1) {
        let b = vec![("x".to_string(), sv(s)), ("i".to_string(), CelValue::Int(i))];
        let got = c.eval("x.splitAt(i)", &b, &ext, true);
        c.rep.count(None);
        let legal = i >= 0 && (i as usize) <= s.len() && s.is_char_boundary(i as usize);
        match got {
            Ok(v) => {
                let parts = as_strs(&v).unwrap_or_default();
                let ok = parts.len() == 2 && format!("{}{}", parts[0], parts[1]) == s && parts[0].len() as i64 == i && legal;
                if !ok {
                    c.fail(&format!("splitAt({}): {}", i, input), &show_val(&v), if legal { "[l, r] with l + r == s and size(l) == i" } else { "an error" }, "splitAt cuts at a byte offset on a character boundary inside the string");
                }
                c.rep.bump("splitAt:ok");
            }
            Err(o) => {
                if legal {
                    c.fail(&format!("splitAt({}): {}", i, input), &o, "[l, r]", "a legal offset must split");
                }
                c.rep.bump("splitAt:error");
            }
        }
    }
}

const PATTERNS: [&str; 22] = [
    "a", "a+", "(a)(b)?", "^a", "b$", "[", "(", "a{2", "\\d+", "(?i)é", ".", "", "(?P<n>a)b", "a|b", "\\p{L}+", "*", "a*", "(a*)*", "\\", "[b-a]", "(?x) a b", "\\s",
];
const REPLACEMENTS: [&str; 8] = ["", "x", "$1", "${n}", "$0$0", "$$", "<$2>", "é"];

fn regex_case(c: &mut Ctx, s: &str, p: &str, r: &str) {
    let mut ext = Ext::new();
    ext.regex(s, p, r);
    let binds = vec![("x".to_string(), sv(s)), ("p".to_string(), sv(p)), ("r".to_string(), sv(r))];
    let input = format!("s={:?} pattern={:?} replacement={:?}", s, p, r);
    c.rep.count(Some(&format!("regex {}", input)));
    let re = regex::Regex::new(p);
    c.rep.bump(if re.is_ok() { "regex:valid pattern" } else { "regex:invalid pattern" });
    for (src, idx) in [("x.matches(p)", 0), ("x.matchCaptures(p)", 1), ("x.matchReplaceOnce(p, r)", 2), ("x.matchReplace(p, r)", 3)] {
        let got = c.eval(src, &binds, &ext, true);
        let got_s = match &got {
            Ok(v) => show_val(v),
            Err(o) => o.clone(),
        };
        let want = match &re {
            Err(_) => "an error".to_string(),
            Ok(re) => match idx {
                0 => show_val(&CelValue::Bool(re.is_match(s))),
                1 => match re.captures(s) {
                    None => "n".to_string(),
                    Some(caps) => show_val(&CelValue::List(caps.iter().map(|g| g.map(|m| sv(m.as_str())).unwrap_or(CelValue::Null)).collect())),
                },
                2 => show_val(&sv(&re.replace(s, r))),
                _ => show_val(&sv(&re.replace_all(s, r))),
            },
        };
        let ok = if re.is_err() { got_s.starts_with("e:") } else { got_s == want };
        if !ok {
            c.fail(&format!("{}: {}", src, input), &got_s, &want, "agrees with the regex engine; an invalid pattern is an error");
        }
    }
}

// ---------------------------------------------------------------- math

#[derive(Debug, Clone, PartialEq)]
enum Exp {
    Val(String),
    Fail,
}

fn sat_i64(d: f64) -> i64 {
    if d.is_nan() {
        0
    } else if d >= 9.3e18 {
        i64::MAX
    } else if d <= -9.3e18 {
        i64::MIN
    } else {
        (d as i128).clamp(i64::MIN as i128, i64::MAX as i128) as i64
    }
}

fn ilog(n: u128, base: u128) -> u32 {
    let mut k = 0;
    let mut p = base;
    while p <= n {
        p *= base;
        k += 1;
    }
    k
}

/// n^e exactly, or None when it leaves [lo, hi].
fn pow_exact(n: i128, e: u64, lo: i128, hi: i128) -> Option<i128> {
    let r: i128 = if n == 0 {
        if e == 0 { 1 } else { 0 }
    } else if n == 1 {
        1
    } else if n == -1 {
        if e % 2 == 0 { 1 } else { -1 }
    } else {
        if e > 64 {
            return None;
        }
        let mut acc: i128 = 1;
        for _ in 0..e {
            acc = acc.checked_mul(n)?;
            if acc.abs() > (1i128 << 70) {
                return None;
            }
        }
        acc
    };
    if r >= lo && r <= hi { Some(r) } else { None }
}

fn expected_math(f: &str, args: &[CelValue]) -> Exp {
    use CelValue::*;
    let val = |v: CelValue| Exp::Val(show_val(&v));
    match (f, args) {
        ("abs", [Int(i)]) => if *i == i64::MIN { Exp::Fail } else { val(Int((*i as i128).abs() as i64)) },
        ("abs", [UInt(u)]) => val(UInt(*u)),
        ("abs", [Float(d)]) => val(Float(d.abs())),
        ("sqrt", [Int(i)]) => val(Float((*i as f64).sqrt())),
        ("sqrt", [UInt(u)]) => val(Float((*u as f64).sqrt())),
        ("sqrt", [Float(d)]) => val(Float(d.sqrt())),
        ("log", [Int(i)]) => if *i <= 0 { Exp::Fail } else { val(Int(ilog(*i as u128, 10) as i64)) },
        ("log", [UInt(u)]) => if *u == 0 { Exp::Fail } else { val(UInt(ilog(*u as u128, 10) as u64)) },
        ("log", [Float(d)]) => val(Float(d.log10())),
        ("lg", [Int(i)]) => if *i <= 0 { Exp::Fail } else { val(Int(ilog(*i as u128, 2) as i64)) },
        ("lg", [UInt(u)]) => if *u == 0 { Exp::Fail } else { val(UInt(ilog(*u as u128, 2) as u64)) },
        ("lg", [Float(d)]) => val(Float(d.log2())),
        ("ceil" | "floor" | "round", [Int(i)]) => val(Int(*i)),
        ("ceil" | "floor" | "round", [UInt(u)]) => val(UInt(*u)),
        ("ceil", [Float(d)]) => val(Int(sat_i64(d.ceil()))),
        ("floor", [Float(d)]) => val(Int(sat_i64(d.floor()))),
        ("round", [Float(d)]) => val(Int(sat_i64(d.round()))),
        ("pow", [b, e]) => {
            // the exponent of an integer power: a non-negative integer that fits u32
            let int_exp: Option<u64> = match e {
                Int(x) => if *x >= 0 && *x <= u32::MAX as i64 { Some(*x as u64) } else { None },
                UInt(x) => if *x <= u32::MAX as u64 { Some(*x) } else { None },
                Float(x) => if *x >= 0.0 && *x <= u32::MAX as f64 && x.fract() == 0.0 { Some(*x as u64) } else { None },
                _ => return Exp::Fail,
            };
            match b {
                Int(n) => match int_exp.and_then(|e| pow_exact(*n as i128, e, i64::MIN as i128, i64::MAX as i128)) {
                    Some(r) => val(Int(r as i64)),
                    None => Exp::Fail,
                },
                UInt(n) => match int_exp.and_then(|e| pow_exact(*n as i128, e, 0, u64::MAX as i128)) {
                    Some(r) => val(UInt(r as u64)),
                    None => Exp::Fail,
                },
                Float(x) => match e {
                    Int(k) => val(Float(if *k >= i32::MIN as i64 && *k <= i32::MAX as i64 { x.powi(*k as i32) } else { x.powf(*k as f64) })),
                    UInt(k) => val(Float(if *k <= i32::MAX as u64 { x.powi(*k as i32) } else { x.powf(*k as f64) })),
                    Float(y) => val(Float(x.powf(*y))),
                    _ => Exp::Fail,
                },
                _ => Exp::Fail,
            }
        }
        _ => Exp::Fail,
    }
}

fn math_case(c: &mut Ctx, f: &str, args: &[CelValue]) {
    let names = ["x", "y"];
    let binds: Vec<(String, CelValue)> = args.iter().enumerate().map(|(i, v)| (names[i].to_string(), v.clone())).collect();
    let src = format!("{}({})", f, names[..args.len()].join(", "));
    let ext = Ext::new();
    let got = c.eval(&src, &binds, &ext, true);
    let got_s = match &got {
        Ok(v) => show_val(v),
        Err(o) => o.clone(),
    };
    let input = describe(&src, &binds);
    c.rep.count(Some(&input));
    let exp = expected_math(f, args);
    let ok = match &exp {
        Exp::Fail => got_s.starts_with("e:"),
        Exp::Val(w) => &got_s == w,
    };
    c.rep.bump(&format!("math:{}({}) -> {}", f, args.iter().map(pool::type_tag).collect::<Vec<_>>().join(","), if got_s.starts_with("e:") { "error" } else { "value" }));
    if !ok {
        c.fail(&input, &got_s, &format!("{:?}", exp), "the mathematical function on its domain (exact for integers, IEEE for doubles), an error outside it");
    }
}

// ---------------------------------------------------------------- documented call shapes

#[derive(Clone, Copy, PartialEq, Debug)]
enum K {
    Int,
    UInt,
    Double,
    Bool,
    Str,
    Bytes,
    List,
    Map,
    Null,
    Type,
    Ts,
    Dur,
}

const KINDS: [K; 12] = [K::Int, K::UInt, K::Double, K::Bool, K::Str, K::Bytes, K::List, K::Map, K::Null, K::Type, K::Ts, K::Dur];

fn rep_value(k: K) -> CelValue {
    match k {
        K::Int => CelValue::Int(3),
        K::UInt => CelValue::UInt(4),
        K::Double => CelValue::Float(2.0),
        K::Bool => CelValue::Bool(true),
        K::Str => sv("abcd"),
        K::Bytes => CelValue::from_bytes(vec![0x61, 0x62]),
        K::List => CelValue::List(vec![CelValue::Int(2), CelValue::Int(1)]),
        K::Map => pool::map_of(&[("k", CelValue::Int(1))]),
        K::Null => CelValue::Null,
        K::Type => CelValue::Type("int".into()),
        K::Ts => CelValue::TimeStamp(chrono::DateTime::<chrono::Utc>::from_timestamp(951782400, 0).unwrap()),
        K::Dur => CelValue::Duration(chrono::TimeDelta::seconds(5400)),
    }
}

/// (receiver kind or None, argument kinds, must succeed on the representatives).
type Shape = (Option<K>, Vec<K>, bool);

fn documented(name: &str) -> Option<Vec<Shape>> {
    let num = [K::Int, K::UInt, K::Double];
    let ss = vec![(Some(K::Str), vec![K::Str], true)];
    let sss = vec![(Some(K::Str), vec![K::Str, K::Str], true)];
    let s0 = vec![(Some(K::Str), vec![], true)];
    let num1: Vec<Shape> = num.iter().map(|k| (None, vec![*k], true)).collect();
    let ts_zone = vec![(Some(K::Ts), vec![], true), (Some(K::Ts), vec![K::Str], false)];
    let ts_zone_dur = vec![(Some(K::Ts), vec![], true), (Some(K::Ts), vec![K::Str], false), (Some(K::Dur), vec![], true)];
    Some(match name {
        "contains" | "containsI" | "startsWith" | "endsWith" | "startsWithI" | "endsWithI" | "matches" | "matchCaptures" | "remove" | "rsplit" | "split"
        | "trimStartMatches" | "trimEndMatches" => ss,
        "matchReplaceOnce" | "matchReplace" | "replace" => sss,
        "toLower" | "toUpper" | "trim" | "trimStart" | "trimEnd" | "splitWhiteSpace" => s0,
        "splitAt" => vec![(Some(K::Str), vec![K::Int], true)],
        "size" => vec![
            (Some(K::Str), vec![], true), (Some(K::Bytes), vec![], true), (Some(K::List), vec![], true),
            (None, vec![K::Str], true), (None, vec![K::Bytes], true), (None, vec![K::List], true),
        ],
        "sort" => vec![(Some(K::List), vec![], true)],
        "abs" | "sqrt" | "log" | "lg" | "ceil" | "floor" | "round" => num1,
        "pow" => {
            let mut v = Vec::new();
            for a in num.iter() {
                for b in num.iter() {
                    v.push((None, vec![*a, *b], true));
                }
            }
            v
        }
        "getDate" | "getDayOfMonth" | "getDayOfWeek" | "getDayOfYear" | "getFullYear" | "getMonth" => ts_zone,
        "getHours" | "getMinutes" | "getSeconds" | "getMilliseconds" => ts_zone_dur,
        "uomConvert" => num.iter().map(|k| (None, vec![*k, K::Str, K::Str], false)).collect(),
        // variadic plain functions that do not look at the receiver: no shape table (value-or-error only)
        "min" | "max" | "zip" | "now" => return None,
        _ => return None,
    })
}

const MODELLED: &[&str] = &[
    "contains", "containsI", "size", "sort", "startsWith", "endsWith", "startsWithI", "endsWithI", "matches", "matchCaptures", "matchReplaceOnce",
    "matchReplace", "toLower", "toUpper", "remove", "replace", "rsplit", "split", "splitAt", "trim", "trimStart", "trimStartMatches", "trimEnd",
    "trimEndMatches", "splitWhiteSpace", "abs", "sqrt", "pow", "log", "lg", "ceil", "floor", "round", "min", "max", "zip",
];

fn table_names() -> Vec<String> {
    let repo = std::env::var("VERIF_REPO").unwrap_or_else(|_| "/repo".to_string());
    let path = format!("{}/rscel/src/context/default_funcs.rs", repo);
    let text = std::fs::read_to_string(&path).unwrap_or_default();
    let mut names = Vec::new();
    let mut in_table = false;
    for line in text.lines() {
        if line.contains("const DEFAULT_FUNCS") {
            in_table = true;
            continue;
        }
        if in_table {
            if line.starts_with("];") {
                break;
            }
            if let Some(i) = line.find("(\"") {
                if let Some(j) = line[i + 2..].find('"') {
                    names.push(line[i + 2..i + 2 + j].to_string());
                }
            } else if let Some(i) = line.trim().strip_prefix('"') {
                if let Some(j) = i.find('"') {
                    names.push(i[..j].to_string());
                }
            }
        }
    }
    names
}

fn shape_case(c: &mut Ctx, name: &str, recv: Option<K>, args: &[K]) {
    let arg_names = ["a", "b", "c", "d"];
    let mut binds: Vec<(String, CelValue)> = Vec::new();
    if let Some(k) = recv {
        binds.push(("x".to_string(), rep_value(k)));
    }
    for (i, k) in args.iter().enumerate() {
        binds.push((arg_names[i].to_string(), rep_value(*k)));
    }
    let call = format!("{}({})", name, arg_names[..args.len()].join(", "));
    let src = if recv.is_some() { format!("x.{}", call) } else { call };
    let mut ext = Ext::new();
    // library answers the model may need for the representatives
    ext.case_maps("abcd");
    ext.regex("abcd", "abcd", "abcd");
    let modelled = MODELLED.contains(&name);
    let got = c.eval(&src, &binds, &ext, modelled);
    let got_s = match &got {
        Ok(v) => show_val(v),
        Err(o) => o.clone(),
    };
    let shape_txt = format!("{}.{}({})", recv.map(|k| format!("{:?}", k)).unwrap_or_else(|| "-".into()), name, args.iter().map(|k| format!("{:?}", k)).collect::<Vec<_>>().join(","));
    c.rep.count(Some(&shape_txt));
    // a null receiver is how the VM spells "no receiver"
    let recv_eff = if recv == Some(K::Null) { None } else { recv };
    if let Some(doc) = documented(name) {
        let hit = doc.iter().find(|(r, a, _)| *r == recv_eff && a.as_slice() == args);
        match hit {
            None => {
                if !got_s.starts_with("e:") {
                    c.fail(&format!("shape {}  [{}]", shape_txt, describe(&src, &binds)), &got_s, "an error", "not a documented receiver/argument shape of this function");
                }
                c.rep.bump("shape:undocumented -> error");
            }
            Some((_, _, total)) => {
                if *total && got_s.starts_with("e:") {
                    c.fail(&format!("shape {}  [{}]", shape_txt, describe(&src, &binds)), &got_s, "a value", "a documented shape with ordinary operands");
                }
                c.rep.bump("shape:documented");
            }
        }
    } else {
        c.rep.bump("shape:variadic function (value-or-error only)");
    }
}

pub fn run(opts: &Opts) -> Report {
    let mut rep = Report::new(
        "C15",
        "strings over a mixed alphabet (ASCII, 2/3/4-byte scalars, case-folding specials, Unicode whitespace) x needles (empty, substring, case-swapped, overlapping, absent) \
         through all two-string functions at once; exhaustive over a 5-symbol alphabet for short strings x short needles; unary string methods and splitAt at every offset; \
         regex functions on valid and invalid patterns; math on the boundary grid and random numbers; every name of the DEFAULT_FUNCS table x receiver x argument type tuples \
         (arity 0..2 exhaustive, 3..4 sampled); non-trivial = distinct input tuple",
    );
    let mut rng = Rng::new(opts.seed ^ 0xC15);
    let mut c = Ctx { rep: &mut rep, pending: Vec::new(), runner: Runner::new() };

    // ---- A. exhaustive small strings x small needles
    let (max_s, max_n) = if opts.thorough { (4usize, 2usize) } else { (3, 2) };
    let mut all: Vec<String> = vec![String::new()];
    let mut frontier: Vec<String> = vec![String::new()];
    for _ in 0..max_s {
        let mut next = Vec::new();
        for p in &frontier {
            for ch in SMALL.iter() {
                let mut q = p.clone();
                q.push(*ch);
                next.push(q);
            }
        }
        all.extend(next.iter().cloned());
        frontier = next;
    }
    let needles: Vec<String> = all.iter().filter(|s| s.chars().count() <= max_n).cloned().collect();
    let mut k = 0u64;
    for s in &all {
        for n in &needles {
            k += 1;
            pair_case(&mut c, s, n, ["", "-", "é", "ab"][(k % 4) as usize], k % 7 == 0);
        }
    }
    c.rep.exhaustive = true;
    c.rep.sample(json!({"exhaustive_strings": all.len(), "exhaustive_needles": needles.len(), "alphabet": SMALL.iter().collect::<String>()}));

    // ---- B. random strings over the full alphabet
    let n_pairs = if opts.thorough { 300_000 } else { 12_000 };
    for i in 0..n_pairs {
        let s = rand_string(&mut rng, 7);
        let n = rand_needle(&mut rng, &s);
        let r = rand_string(&mut rng, 2);
        pair_case(&mut c, &s, &n, &r, i % 5 == 0);
        if i < 3 {
            c.rep.sample(json!({"s": s, "needle": n, "replacement": r}));
        }
    }

    // ---- C. unary methods, splitAt at every offset
    let n_un = if opts.thorough { 80_000 } else { 4_000 };
    for s in pool::strings() {
        unary_case(&mut c, s);
    }
    for s in all.iter().take(156) {
        unary_case(&mut c, s);
    }
    for _ in 0..n_un {
        let mut s = rand_string(&mut rng, 6);
        // whitespace of several kinds at the ends
        let wsx = [" ", "\t", "\n", "\u{a0}", "\u{2003}", "\u{85}", "\u{1680}", "\u{3000}", "\u{200b}", "\u{feff}"];
        if rng.chance(1, 2) {
            s = format!("{}{}", rng.pick(&wsx), s);
        }
        if rng.chance(1, 2) {
            s.push_str(*rng.pick(&wsx));
        }
        unary_case(&mut c, &s);
    }

    // ---- D. regex
    let n_re = if opts.thorough { 80_000 } else { 4_000 };
    for _ in 0..n_re {
        let s = match rng.below(4) {
            0 => rand_string(&mut rng, 6),
            1 => (0..rng.below(6)).map(|_| *rng.pick(&['a', 'b', 'c', '1', ' '])).collect(),
            _ => (0..rng.below(5)).map(|_| *rng.pick(&['a', 'b'])).collect(),
        };
        let p = *rng.pick(&PATTERNS);
        let r = *rng.pick(&REPLACEMENTS);
        regex_case(&mut c, &s, p, r);
    }

    // ---- E. math
    let nums = pool::numerics();
    for f in ["abs", "sqrt", "log", "lg", "ceil", "floor", "round"] {
        for v in &nums {
            if !matches!(v, CelValue::Bool(_)) {
                math_case(&mut c, f, &[v.clone()]);
            }
        }
    }
    let halves: Vec<CelValue> = [0.5f64, -0.5, 1.5, -1.5, 2.5, -2.5, 0.49999999999999994, -0.49999999999999994, 4503599627370495.5, -4503599627370495.5, 4503599627370496.5, 9.223372036854775e18, -9.223372036854776e18, 1e-320, -1e-320]
        .iter().map(|d| CelValue::Float(*d)).collect();
    for f in ["ceil", "floor", "round", "abs"] {
        for v in &halves {
            math_case(&mut c, f, &[v.clone()]);
        }
    }
    let bases: Vec<CelValue> = vec![
        CelValue::Int(0), CelValue::Int(1), CelValue::Int(-1), CelValue::Int(2), CelValue::Int(-2), CelValue::Int(3), CelValue::Int(10), CelValue::Int(-10), CelValue::Int(3037000499),
        CelValue::Int(3037000500), CelValue::Int(-3037000500), CelValue::Int(i64::MAX), CelValue::Int(i64::MIN), CelValue::Int(2097151), CelValue::Int(2097152),
        CelValue::UInt(0), CelValue::UInt(1), CelValue::UInt(2), CelValue::UInt(3), CelValue::UInt(10), CelValue::UInt(4294967295), CelValue::UInt(4294967296), CelValue::UInt(u64::MAX), CelValue::UInt(2642245), CelValue::UInt(2642246),
        CelValue::Float(0.0), CelValue::Float(-0.0), CelValue::Float(1.0), CelValue::Float(-1.0), CelValue::Float(2.0), CelValue::Float(-2.0), CelValue::Float(0.5), CelValue::Float(1.0000000000000002), CelValue::Float(10.0), CelValue::Float(f64::INFINITY), CelValue::Float(f64::NAN), CelValue::Float(1e-5),
    ];
    let exps: Vec<CelValue> = vec![
        CelValue::Int(0), CelValue::Int(1), CelValue::Int(2), CelValue::Int(3), CelValue::Int(-1), CelValue::Int(-2), CelValue::Int(31), CelValue::Int(32), CelValue::Int(62), CelValue::Int(63), CelValue::Int(64), CelValue::Int(65), CelValue::Int(4294967295),
        CelValue::Int(4294967296), CelValue::Int(2147483647), CelValue::Int(2147483648), CelValue::Int(-2147483648), CelValue::Int(-2147483649), CelValue::Int(i64::MAX), CelValue::Int(i64::MIN),
        CelValue::UInt(0), CelValue::UInt(1), CelValue::UInt(2), CelValue::UInt(63), CelValue::UInt(64), CelValue::UInt(4294967295), CelValue::UInt(4294967296), CelValue::UInt(2147483648), CelValue::UInt(u64::MAX),
        CelValue::Float(0.0), CelValue::Float(-0.0), CelValue::Float(1.0), CelValue::Float(2.0), CelValue::Float(0.5), CelValue::Float(-1.0), CelValue::Float(63.0), CelValue::Float(64.0), CelValue::Float(4294967295.0), CelValue::Float(4294967296.0), CelValue::Float(f64::NAN), CelValue::Float(f64::INFINITY), CelValue::Float(2.0000000000000004),
    ];
    for b in &bases {
        for e in &exps {
            math_case(&mut c, "pow", &[b.clone(), e.clone()]);
        }
    }
    let n_math = if opts.thorough { 500_000 } else { 20_000 };
    for _ in 0..n_math {
        let v = pool::random_numeric(&mut rng);
        if matches!(v, CelValue::Bool(_)) {
            continue;
        }
        let f = *rng.pick(&["abs", "sqrt", "log", "lg", "ceil", "floor", "round", "pow", "pow"]);
        if f == "pow" {
            let e = match rng.below(4) {
                0 => CelValue::Int(rng.range(-3, 70)),
                1 => CelValue::UInt(rng.below(70) as u64),
                2 => CelValue::Float(rng.range(-4, 70) as f64 * [1.0, 0.5][rng.below(2)]),
                _ => pool::random_numeric(&mut rng),
            };
            if matches!(e, CelValue::Bool(_)) {
                continue;
            }
            let b = if rng.chance(1, 2) { v } else { CelValue::Int(rng.range(-12, 12)) };
            math_case(&mut c, "pow", &[b, e]);
        } else {
            math_case(&mut c, f, &[v]);
        }
    }

    // ---- F. every name of the table x receiver x argument type tuples
    let names = table_names();
    if names.len() < 40 {
        c.rep.notes.push(format!("could not read the DEFAULT_FUNCS table from the repository (found {} names)", names.len()));
        c.fail("DEFAULT_FUNCS table", &format!("{} names", names.len()), "the table of built-ins", "the shape sweep needs the function table of the tree under test");
    }
    for n in &names {
        if documented(n).is_none() && !["min", "max", "zip", "now"].contains(&n.as_str()) {
            c.rep.notes.push(format!("built-in '{}' has no documented shape table in the harness", n));
            c.fail(&format!("built-in {}", n), "present in DEFAULT_FUNCS", "a documented shape table", "every built-in of the table must be covered by the shape sweep");
        }
    }
    let mut recvs: Vec<Option<K>> = vec![None];
    recvs.extend(KINDS.iter().map(|k| Some(*k)));
    for name in &names {
        for recv in &recvs {
            shape_case(&mut c, name, *recv, &[]);
            for a in KINDS.iter() {
                shape_case(&mut c, name, *recv, &[*a]);
                for b in KINDS.iter() {
                    shape_case(&mut c, name, *recv, &[*a, *b]);
                }
            }
        }
        let n_hi = if opts.thorough { 400 } else { 60 };
        for _ in 0..n_hi {
            let recv = *rng.pick(&recvs);
            let ar = 3 + rng.below(2);
            // bias towards strings and numbers so that the documented three-argument shapes are hit
            let args: Vec<K> = (0..ar).map(|_| if rng.chance(1, 2) { *rng.pick(&[K::Str, K::Int, K::Double, K::UInt]) } else { *rng.pick(&KINDS) }).collect();
            shape_case(&mut c, name, recv, &args);
        }
        // the documented shapes themselves, whatever their arity
        if let Some(doc) = documented(name) {
            for (r, a, _) in doc {
                shape_case(&mut c, name, r, &a);
            }
        }
    }
    c.rep.sample(json!({"table_names": names.len()}));

    let pending = std::mem::take(&mut c.pending);
    drop(c);
    rep.compare_with_model(&opts.driver, &pending);
    rep
}
