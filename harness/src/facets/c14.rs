//! C14 — type conversions are exact on their domain and reject the rest; f-strings too.
//!
//! Direct oracle (independent of the Lean model): for every (constructor, value) the outcome the
//! property text fixes — the converted value computed here with i128 arithmetic / Rust std / chrono,
//! or "must fail" — plus the round trips and `type(T(x)) == T` evaluated on the implementation's own
//! answers, plus f-string == explicit concatenation of `string(e)`.
//! Correspondence: the same programs through the Lean model's lexer, parser, compiler and VM (`xexec`),
//! the library parameters (float printing/parsing, time text forms) sent along as a table.
use crate::api::{env_wire, literal};
use crate::facets::conv::{dur_nanos, dur_text, ts_nanos, ts_parse, Ext, Runner};
use crate::pool;
use crate::report::{Pending, Report};
use crate::rng::Rng;
use crate::wire::{hex, l1, show_val};
use crate::Opts;
use rscel::CelValue;
use serde_json::json;

const CTORS: [&str; 11] = ["bool", "int", "uint", "double", "float", "string", "bytes", "type", "timestamp", "duration", "dyn"];

/// What the property fixes for one conversion.
#[derive(Clone, Debug, PartialEq)]
enum Exp {
    Val(String), // wire form of the value
    Fail,
    Open, // not fixed by the property text (nothing here at the moment; kept for honesty of the table)
}

fn truthy(v: &CelValue) -> bool {
    match v {
        CelValue::Int(i) => *i != 0,
        CelValue::UInt(u) => *u != 0,
        CelValue::Float(f) => *f != 0.0,
        CelValue::Bool(b) => *b,
        CelValue::String(s) => !s.is_empty(),
        CelValue::Bytes(b) => b.len() != 0,
        CelValue::List(l) => !l.is_empty(),
        CelValue::Map(m) => !m.is_empty(),
        CelValue::Null => false,
        CelValue::Type(_) | CelValue::TimeStamp(_) | CelValue::Duration(_) => true,
        _ => false,
    }
}

/// Decimal text → integer, by the documented grammar: one optional sign, then ASCII digits only.
fn dec_text(s: &str, minus_ok: bool) -> Option<i128> {
    let b = s.as_bytes();
    let (neg, digits) = match b.first() {
        Some(b'-') if minus_ok => (true, &b[1..]),
        Some(b'+') => (false, &b[1..]),
        _ => (false, b),
    };
    if digits.is_empty() || !digits.iter().all(|c| c.is_ascii_digit()) {
        return None;
    }
    let mut v: i128 = 0;
    for c in digits {
        v = v.saturating_mul(10).saturating_add((c - b'0') as i128);
        if v > (1i128 << 100) {
            v = 1i128 << 100;
        }
    }
    Some(if neg { -v } else { v })
}

/// double → integer: toward zero, saturating, NaN ↦ 0 (written with comparisons, not with `as`).
fn trunc_sat(d: f64, lo: i128, hi: i128) -> i128 {
    if d.is_nan() {
        return 0;
    }
    if d >= 3.0e19 {
        return hi;
    }
    if d <= -3.0e19 {
        return lo;
    }
    let t = d.trunc() as i128; // |d| < 3e19: exact in i128
    t.clamp(lo, hi)
}

const TS_MIN_S: i128 = -8334601228800;
const TS_MAX_S: i128 = 8210266876799;
const DUR_MAX_NS: i128 = 9223372036854775807i128 * 1_000_000;

fn ts_of_secs(s: i128) -> Exp {
    if s >= TS_MIN_S && s <= TS_MAX_S {
        Exp::Val(format!("ts:{}", s * 1_000_000_000))
    } else {
        Exp::Fail
    }
}

fn type_name(v: &CelValue) -> Option<&'static str> {
    Some(match v {
        CelValue::Int(_) => "int",
        CelValue::UInt(_) => "uint",
        CelValue::Float(_) => "float",
        CelValue::Bool(_) => "bool",
        CelValue::String(_) => "string",
        CelValue::Bytes(_) => "bytes",
        CelValue::List(_) => "list",
        CelValue::Map(_) => "map",
        CelValue::Null => "null",
        CelValue::Type(_) => "type",
        CelValue::TimeStamp(_) => "timestamp",
        CelValue::Duration(_) => "duration",
        _ => return None,
    })
}

/// The table of the property / usage guide, one argument.
fn expected(ctor: &str, v: &CelValue, runner: &mut Runner) -> Exp {
    use CelValue::*;
    let val = |x: CelValue| Exp::Val(show_val(&x));
    match ctor {
        "dyn" => val(v.clone()),
        "type" => match type_name(v) {
            Some(n) => Exp::Val(format!("t:{}", hex(n.as_bytes()))),
            None => Exp::Open,
        },
        "bool" => match v {
            Bool(b) => val(Bool(*b)),
            String(s) => match s.as_str() {
                "1" | "t" | "true" | "TRUE" | "True" => val(Bool(true)),
                "0" | "f" | "false" | "FALSE" | "False" => val(Bool(false)),
                _ => val(Bool(!s.is_empty())),
            },
            other => val(Bool(truthy(other))),
        },
        "int" => match v {
            Int(i) => val(Int(*i)),
            UInt(u) => {
                if *u <= i64::MAX as u64 {
                    val(Int(*u as i64))
                } else {
                    Exp::Fail
                }
            }
            Float(d) => val(Int(trunc_sat(*d, i64::MIN as i128, i64::MAX as i128) as i64)),
            Bool(b) => val(Int(if *b { 1 } else { 0 })),
            String(s) => match dec_text(s, true) {
                Some(n) if n >= i64::MIN as i128 && n <= i64::MAX as i128 => val(Int(n as i64)),
                _ => Exp::Fail,
            },
            TimeStamp(t) => val(Int(ts_nanos(t).div_euclid(1_000_000_000) as i64)),
            _ => Exp::Fail,
        },
        "uint" => match v {
            UInt(u) => val(UInt(*u)),
            Int(i) => {
                if *i >= 0 {
                    val(UInt(*i as u64))
                } else {
                    Exp::Fail
                }
            }
            Float(d) => val(UInt(trunc_sat(*d, 0, u64::MAX as i128) as u64)),
            Bool(b) => val(UInt(if *b { 1 } else { 0 })),
            String(s) => match dec_text(s, false) {
                Some(n) if n >= 0 && n <= u64::MAX as i128 => val(UInt(n as u64)),
                _ => Exp::Fail,
            },
            _ => Exp::Fail,
        },
        "double" | "float" => match v {
            Float(d) => val(Float(*d)),
            Int(i) => val(Float(*i as f64)),
            UInt(u) => val(Float(*u as f64)),
            Bool(b) => val(Float(if *b { 1.0 } else { 0.0 })),
            String(s) => match s.parse::<f64>().ok() {
                Some(d) => val(Float(d)),
                None => Exp::Fail,
            },
            _ => Exp::Fail,
        },
        "string" => match v {
            Int(i) => val(String(format!("{}", *i as i128))),
            UInt(u) => val(String(format!("{}", *u as u128))),
            Float(d) => val(String(d.to_string())),
            String(s) => val(String(s.clone())),
            Bytes(b) => match std::str::from_utf8(b.as_slice()).ok() {
                Some(s) => val(String(s.to_string())),
                None => Exp::Fail,
            },
            TimeStamp(t) => val(String(t.to_rfc3339())),
            Duration(d) => val(String(dur_text(d))),
            _ => Exp::Fail,
        },
        "bytes" => match v {
            String(s) => val(CelValue::from_bytes(s.as_bytes().to_vec())),
            Bytes(b) => val(Bytes(b.clone())),
            _ => Exp::Fail,
        },
        "timestamp" => match v {
            String(s) => match ts_parse(s) {
                Some(t) => Exp::Val(format!("ts:{}", ts_nanos(&t))),
                None => Exp::Fail,
            },
            Int(i) => ts_of_secs(*i as i128),
            UInt(u) => ts_of_secs(*u as i128),
            TimeStamp(t) => val(TimeStamp(*t)),
            _ => Exp::Fail,
        },
        "duration" => match v {
            String(s) => {
                // the grammar is duration_str's: the only claim is value-or-error, taken from the implementation
                let o = runner.run("duration(x)", &[("x".to_string(), String(s.clone()))]);
                if o.starts_with("d:") {
                    Exp::Val(o)
                } else {
                    Exp::Fail
                }
            }
            Int(i) => {
                let n = *i as i128 * 1_000_000_000;
                if n.abs() <= DUR_MAX_NS {
                    Exp::Val(format!("d:{}", n))
                } else {
                    Exp::Fail
                }
            }
            Duration(d) => val(Duration(*d)),
            _ => Exp::Fail,
        },
        _ => Exp::Open,
    }
}

struct Ctx<'a> {
    rep: &'a mut Report,
    pending: Vec<Pending>,
    runner: Runner,
    model_every: u64,
    n: u64,
}

impl<'a> Ctx<'a> {
    /// Run `src` on the implementation; queue the model comparison (every `model_every`-th call when `sampled`).
    fn eval(&mut self, src: &str, binds: &[(String, CelValue)], ext: &Ext, sampled: bool) -> String {
        let obs = self.runner.run(src, binds);
        if obs == "P" {
            self.rep.oracle_fail(&describe(src, binds), "P", "value or error", "conversion panicked");
        }
        self.n += 1;
        if !sampled || self.n % self.model_every == 0 {
            self.pending.push(Pending {
                request: format!("xexec {} {} {}", ext.wire(), env_wire(&[], binds, &[]), hex(src.as_bytes())),
                implementation: format!("{} L:0", obs),
                level: 3,
                input: describe(src, binds),
            });
        }
        obs
    }

    fn check(&mut self, what: &str, input: &str, got: &str, exp: &Exp, why: &str) {
        match exp {
            Exp::Open => {}
            Exp::Fail => {
                if !got.starts_with("e:") {
                    self.rep.oracle_fail(input, got, "an error", &format!("{}: {}", what, why));
                }
            }
            Exp::Val(w) => {
                if got != w {
                    self.rep.oracle_fail(input, got, w, &format!("{}: {}", what, why));
                }
            }
        }
    }
}

fn describe(src: &str, binds: &[(String, CelValue)]) -> String {
    if binds.is_empty() {
        src.to_string()
    } else {
        let b: Vec<String> = binds.iter().map(|(k, v)| format!("{}={}", k, show_val(v))).collect();
        format!("{}  [{}]", src, b.join(", "))
    }
}

fn bx(v: &CelValue) -> Vec<(String, CelValue)> {
    vec![("x".to_string(), v.clone())]
}

/// One (constructor, value): table oracle, `type(T(x)) == T`, model comparison.
fn ctor_case(c: &mut Ctx, ctor: &str, v: &CelValue, sampled: bool) {
    let mut ext = Ext::new();
    ext.for_value(v, &mut c.runner);
    let src = format!("{}(x)", ctor);
    let binds = bx(v);
    let got = c.eval(&src, &binds, &ext, sampled);
    let exp = expected(ctor, v, &mut c.runner);
    let input = describe(&src, &binds);
    c.check("conversion table", &input, &got, &exp, "the converted value is the same value in the target type, or an error when it has no representation there");
    let key = format!("{}|{}", ctor, show_val(v));
    c.rep.count(Some(&key));
    c.rep.bump(&format!("ctor:{}({}) -> {}", ctor, pool::type_tag(v), if got.starts_with("e:") { "error" } else { "value" }));
    // type(T(x)) == T whenever T(x) succeeds
    if !got.starts_with("e:") && got != "P" {
        let tsrc = match ctor {
            "dyn" => "type(dyn(x)) == type(x)".to_string(),
            _ => format!("type({}(x)) == {}", ctor, ctor),
        };
        let t = c.eval(&tsrc, &binds, &ext, true);
        c.rep.count(None);
        if t != "b:1" {
            c.rep.oracle_fail(&describe(&tsrc, &binds), &t, "b:1", "type(T(x)) == T whenever T(x) succeeds");
        }
    }
}

fn random_string(rng: &mut Rng) -> String {
    let alphabet: [&str; 24] = [
        "a", "Z", "0", "9", " ", "\t", "-", "+", ".", "e", "é", "ß", "日", "𝄞", "\u{a0}", "{", "}", "'", "\"", "\\", "\n", "١", "\u{0}", "~",
    ];
    let n = rng.below(9);
    (0..n).map(|_| *rng.pick(&alphabet)).collect()
}

/// Number-like text: signs, whitespace, exponents, separators, non-ASCII digits, range edges.
fn numberish(rng: &mut Rng) -> String {
    let mut s = String::new();
    if rng.chance(1, 8) {
        s.push_str(*rng.pick(&[" ", "\t", "\n", "\u{a0}"]));
    }
    match rng.below(6) {
        0 => s.push('-'),
        1 => s.push('+'),
        2 => s.push_str(*rng.pick(&["--", "+-", "-+", "- "])),
        _ => {}
    }
    match rng.below(12) {
        0 => s.push_str(*rng.pick(&["inf", "Inf", "INF", "infinity", "nan", "NaN", "NAN", "infinit", "in f"])),
        1 => s.push_str(*rng.pick(&[
            "9223372036854775807",
            "9223372036854775808",
            "9223372036854775809",
            "18446744073709551615",
            "18446744073709551616",
            "9223372036854775806",
            "99999999999999999999999999999999999999999",
            "000000000000000000000000000000000000000001",
        ])),
        2 => s.push_str(*rng.pick(&["١٢", "１２", "0x10", "1_000", "1,000", "0b1", "0o7", "1u", "1L", ""])),
        _ => {
            let nd = rng.below(6);
            for _ in 0..nd {
                s.push((b'0' + rng.below(10) as u8) as char);
            }
            if rng.chance(1, 3) {
                s.push('.');
                for _ in 0..rng.below(4) {
                    s.push((b'0' + rng.below(10) as u8) as char);
                }
            }
            if rng.chance(1, 4) {
                s.push(*rng.pick(&['e', 'E']));
                if rng.chance(1, 2) {
                    s.push(*rng.pick(&['-', '+']));
                }
                for _ in 0..rng.below(4) {
                    s.push((b'0' + rng.below(10) as u8) as char);
                }
            }
        }
    }
    if rng.chance(1, 8) {
        s.push_str(*rng.pick(&[" ", "\n", "x", "u", "f", "_"]));
    }
    s
}

fn random_double(rng: &mut Rng) -> f64 {
    match rng.below(6) {
        0 | 1 => f64::from_bits(rng.next_u64()),
        2 => (rng.interesting_u64() as i64) as f64 * [1.0, 0.5, 1.5, 1e-3, 1e3, 0.1][rng.below(6)],
        3 => f64::from_bits(rng.next_u64() & 0x800f_ffff_ffff_ffff), // subnormals
        4 => [0.1, 0.2, 0.3, 1e21, 1e-7, 1e16, 123456789.125, 5e-324, 1.7976931348623157e308, 4.35, 2.675][rng.below(11)],
        _ => (rng.range(-1000, 1000) as f64) / [1.0, 3.0, 7.0, 10.0, 1000.0][rng.below(5)],
    }
}

/// A segment of a generated f-string: its spelling inside `f'…'` and the explicit form it must equal.
struct Seg {
    in_fstring: String,
    explicit: String, // a CEL expression of type string (or failing)
    kind: &'static str,
}

fn quote(s: &str) -> String {
    literal(&CelValue::String(s.to_string())).unwrap()
}

fn literal_seg(rng: &mut Rng) -> Seg {
    let pieces: [&str; 16] = ["a", "B", " ", "é", "日", "𝄞", "{", "}", "\\n", "\\\\", "\\'", "\"", "=", "{}", "}{", "0"];
    let n = 1 + rng.below(4);
    let mut inside = String::new();
    let mut plain = String::new();
    for _ in 0..n {
        let p = *rng.pick(&pieces);
        match p {
            "{" => {
                inside.push_str("{{");
                plain.push('{')
            }
            "}" => {
                inside.push_str("}}");
                plain.push('}')
            }
            "{}" => {
                inside.push_str("{{}}");
                plain.push_str("{}")
            }
            "}{" => {
                inside.push_str("}}{{");
                plain.push_str("}{")
            }
            "\\n" => {
                inside.push_str("\\n");
                plain.push('\n')
            }
            "\\\\" => {
                inside.push_str("\\\\");
                plain.push('\\')
            }
            "\\'" => {
                inside.push_str("\\'");
                plain.push('\'')
            }
            other => {
                inside.push_str(other);
                plain.push_str(other)
            }
        }
    }
    Seg { in_fstring: inside, explicit: quote(&plain), kind: "literal" }
}

/// An embedded expression of every convertible and non-convertible type; `ext` collects what the model needs.
fn expr_seg(rng: &mut Rng, ext: &mut Ext, runner: &mut Runner) -> Seg {
    // four in five embedded expressions are convertible, so that long f-strings mostly succeed
    const OK_KINDS: [usize; 12] = [0, 1, 2, 3, 4, 5, 11, 12, 13, 17, 18, 19];
    const BAD_KINDS: [usize; 8] = [6, 7, 8, 9, 10, 14, 15, 16];
    let pick = if rng.chance(4, 5) { *rng.pick(&OK_KINDS) } else { *rng.pick(&BAD_KINDS) };
    let (e, kind): (String, &'static str) = match pick {
        0 => (format!("{}", rng.range(-1000, 1000)), "int"),
        1 => (literal(&CelValue::Int(rng.interesting_u64() as i64)).unwrap(), "int"),
        2 => (format!("{}u", rng.interesting_u64()), "uint"),
        3 => {
            let d = random_double(rng);
            let d = if d.is_finite() { d } else { 1.5 };
            ext.float_text(d);
            (literal(&CelValue::Float(d)).unwrap(), "double")
        }
        4 => (quote(&random_string(rng).replace(['{', '}', '\u{0}'], "")), "string"),
        5 => ("b'ab\\x63'".to_string(), "bytes-utf8"),
        6 => ("b'\\xff\\xfe'".to_string(), "bytes-bad"),
        7 => (rng.pick(&["true", "false"]).to_string(), "bool"),
        8 => ("null".to_string(), "null"),
        9 => ("[1, 2]".to_string(), "list"),
        10 => (" {'k': 1}".to_string(), "map"),
        11 => (" {'k': 'v'}.k".to_string(), "map-member"),
        12 => {
            let secs = *rng.pick(&[0i64, 1, -1, 951782400, 4102444800, 253402300799]);
            let t = chrono::DateTime::<chrono::Utc>::from_timestamp(secs, 0).unwrap();
            ext.for_value(&CelValue::TimeStamp(t), runner);
            (format!("timestamp({})", secs), "timestamp")
        }
        13 => {
            let (s, n) = *rng.pick(&[(0i64, 0i64), (1, 0), (-1, 0), (1, 500000000), (3600, 1), (90, 250000000)]);
            let d = chrono::TimeDelta::new(s, n as u32).unwrap();
            ext.for_value(&CelValue::Duration(d), runner);
            (format!("duration({}, {})", s, n), "duration")
        }
        14 => ("int".to_string(), "type"),
        15 => ("1/0".to_string(), "failing"),
        16 => ("nosuchvar".to_string(), "unbound"),
        17 => ("x + 1".to_string(), "param-int"),
        18 => ("s".to_string(), "param-string"),
        _ => ("f'<{x}>'".to_string(), "nested-fstring"),
    };
    Seg { in_fstring: format!("{{{}}}", e), explicit: format!("string({})", e.trim()), kind }
}

pub fn run(opts: &Opts) -> Report {
    let mut rep = Report::new(
        "C14",
        "every pool value x every constructor (exhaustive) against the conversion table of the property, type(T(x)) == T on every success; \
         random ints/uints/doubles/strings/bytes through the round trips; number-like and arbitrary text through int/uint/double/bool; \
         arities 0 and 2; f-strings of random literal segments (with {{ }}) and embedded expressions of every type vs the explicit concatenation; \
         malformed f-strings; every program also through the Lean model pipeline (round-trip streams sampled); \
         non-trivial = distinct (constructor, value) / distinct program",
    );
    let mut rng = Rng::new(opts.seed ^ 0xC14);
    let mut c = Ctx { rep: &mut rep, pending: Vec::new(), runner: Runner::new(), model_every: if opts.thorough { 20 } else { 5 }, n: 0 };

    // ---- A. every pool value x every constructor (exhaustive)
    let values: Vec<CelValue> = pool::all_values().into_iter().filter(|v| !matches!(v, CelValue::Err(_))).collect();
    for v in &values {
        for ctor in CTORS.iter() {
            ctor_case(&mut c, ctor, v, false);
        }
    }
    // the spellings bool() knows, and their neighbours
    for s in ["1", "t", "true", "TRUE", "True", "0", "f", "false", "FALSE", "False", "T", "F", "tRUE", "fALSE", "yes", "no", "00", "01", " true", "false ", "truefalse", "ｔrue"] {
        for ctor in CTORS.iter() {
            ctor_case(&mut c, ctor, &CelValue::String(s.to_string()), false);
        }
    }
    c.rep.exhaustive = true;
    c.rep.sample(json!({"pool_values": values.len(), "constructors": CTORS.len()}));

    // ---- B. round trips on random values
    let n_rt = if opts.thorough { 1_500_000 } else { 150_000 };
    let empty = Ext::new();
    for i in 0..n_rt {
        match i % 6 {
            0 => {
                let v = CelValue::Int(rng.interesting_u64() as i64);
                let got = c.eval("int(string(x))", &bx(&v), &empty, true);
                c.rep.count(Some(&format!("rt-int|{}", show_val(&v))));
                c.rep.bump("roundtrip:int(string(i))");
                if got != show_val(&v) {
                    c.rep.oracle_fail(&describe("int(string(x))", &bx(&v)), &got, &show_val(&v), "int(string(i)) == i");
                }
            }
            1 => {
                let v = CelValue::UInt(rng.interesting_u64());
                let got = c.eval("uint(string(x))", &bx(&v), &empty, true);
                c.rep.count(Some(&format!("rt-uint|{}", show_val(&v))));
                c.rep.bump("roundtrip:uint(string(u))");
                if got != show_val(&v) {
                    c.rep.oracle_fail(&describe("uint(string(x))", &bx(&v)), &got, &show_val(&v), "uint(string(u)) == u");
                }
            }
            2 => {
                let d = random_double(&mut rng);
                let v = CelValue::Float(d);
                let mut ext = Ext::new();
                ext.float_text(d);
                let got = c.eval("double(string(x))", &bx(&v), &ext, true);
                c.rep.count(Some(&format!("rt-double|{}", show_val(&v))));
                c.rep.bump(if d.is_finite() { "roundtrip:double(string(d)) finite" } else { "roundtrip:double(string(d)) non-finite" });
                if d.is_finite() && got != show_val(&v) {
                    c.rep.oracle_fail(&describe("double(string(x))", &bx(&v)), &got, &show_val(&v), "double(string(d)) == d bit for bit, finite d");
                }
                // and the other conversions of a random double
                ctor_case(&mut c, "int", &v, true);
                ctor_case(&mut c, "uint", &v, true);
            }
            3 => {
                let s = random_string(&mut rng);
                let v = CelValue::String(s.clone());
                let got = c.eval("string(bytes(x))", &bx(&v), &empty, true);
                c.rep.count(Some(&format!("rt-str|{}", s)));
                c.rep.bump("roundtrip:string(bytes(s))");
                if got != show_val(&v) {
                    c.rep.oracle_fail(&describe("string(bytes(x))", &bx(&v)), &got, &show_val(&v), "string(bytes(s)) == s");
                }
            }
            4 => {
                // random bytes, valid and invalid UTF-8
                let n = rng.below(6);
                let b: Vec<u8> = if rng.chance(1, 2) {
                    (0..n).map(|_| *rng.pick(&[0x00u8, 0x41, 0x7f, 0x80, 0xbf, 0xc0, 0xc2, 0xc3, 0xa9, 0xe2, 0x82, 0xac, 0xed, 0xa0, 0xf0, 0x9f, 0xf4, 0x90, 0xf5, 0xff])).collect()
                } else {
                    random_string(&mut rng).into_bytes()
                };
                let v = CelValue::from_bytes(b.clone());
                let got = c.eval("bytes(string(x))", &bx(&v), &empty, true);
                c.rep.count(Some(&format!("rt-bytes|{}", hex(&b))));
                let valid = std::str::from_utf8(&b).is_ok();
                c.rep.bump(if valid { "roundtrip:bytes(string(b)) valid utf8" } else { "roundtrip:bytes(string(b)) invalid utf8" });
                let exp = if valid { Exp::Val(show_val(&v)) } else { Exp::Fail };
                c.check("utf-8", &describe("bytes(string(x))", &bx(&v)), &got, &exp, "bytes that are UTF-8 come back unchanged, others have no string");
            }
            _ => {
                // integral conversions both ways
                let v = if rng.chance(1, 2) { CelValue::Int(rng.interesting_u64() as i64) } else { CelValue::UInt(rng.interesting_u64()) };
                ctor_case(&mut c, "int", &v, true);
                ctor_case(&mut c, "uint", &v, true);
                ctor_case(&mut c, "double", &v, true);
                ctor_case(&mut c, "timestamp", &v, true);
                ctor_case(&mut c, "duration", &v, true);
            }
        }
    }

    // ---- C. text: number-like and arbitrary
    let n_txt = if opts.thorough { 200_000 } else { 25_000 };
    for i in 0..n_txt {
        let s = if i % 4 == 3 { random_string(&mut rng) } else { numberish(&mut rng) };
        let v = CelValue::String(s.clone());
        for ctor in ["int", "uint", "double", "bool"].iter() {
            ctor_case(&mut c, ctor, &v, true);
        }
        // whitespace anywhere is never accepted by the numeric parsers
        if s.chars().any(|ch| ch.is_whitespace()) {
            for ctor in ["int", "uint", "double"].iter() {
                let got = c.runner.run(&format!("{}(x)", ctor), &bx(&v));
                if !got.starts_with("e:") {
                    c.rep.oracle_fail(&describe(&format!("{}(x)", ctor), &bx(&v)), &got, "an error", "text with whitespace has no numeric reading");
                }
            }
        }
        if i < 3 {
            c.rep.sample(json!({"text": s}));
        }
    }

    // ---- D. arities 0 and 2
    let some: Vec<CelValue> = vec![CelValue::Int(1), CelValue::Int(-1), CelValue::Int(4294967295), CelValue::Int(4294967296), CelValue::Int(999999999), CelValue::Int(1000000000), CelValue::UInt(1), CelValue::Null, CelValue::String("1".into()), CelValue::Float(1.0)];
    for ctor in CTORS.iter() {
        let got = c.eval(&format!("{}()", ctor), &[], &empty, false);
        c.rep.count(Some(&format!("arity0|{}", ctor)));
        c.rep.bump("arity:0");
        if *ctor == "timestamp" {
            if !got.starts_with("ts:") {
                c.rep.oracle_fail("timestamp()", &got, "a timestamp", "timestamp() is the current time");
            }
            c.pending.pop(); // the clock is not compared
        } else if !got.starts_with("e:") {
            c.rep.oracle_fail(&format!("{}()", ctor), &got, "an error", "no constructor but timestamp takes zero arguments");
        }
        for a in &some {
            for b in &some {
                let binds = vec![("x".to_string(), a.clone()), ("y".to_string(), b.clone())];
                let src = format!("{}(x, y)", ctor);
                let got = c.eval(&src, &binds, &empty, false);
                c.rep.count(Some(&format!("arity2|{}|{}|{}", ctor, show_val(a), show_val(b))));
                c.rep.bump("arity:2");
                let exp = match (*ctor, a, b) {
                    ("duration", CelValue::Int(s), CelValue::Int(n)) => {
                        let total = *s as i128 * 1_000_000_000 + *n as i128;
                        if *n >= 0 && *n < 1_000_000_000 && total.abs() <= DUR_MAX_NS {
                            Exp::Val(format!("d:{}", total))
                        } else {
                            Exp::Fail
                        }
                    }
                    _ => Exp::Fail,
                };
                c.check("arity 2", &describe(&src, &binds), &got, &exp, "only duration(seconds, nanos) takes two arguments");
            }
        }
    }

    // ---- E. f-strings
    let n_fs = if opts.thorough { 200_000 } else { 20_000 };
    let fbinds = vec![("x".to_string(), CelValue::Int(41)), ("s".to_string(), CelValue::String("pär{am}".to_string()))];
    for i in 0..n_fs {
        let mut ext = Ext::new();
        let nseg = rng.below(6);
        let mut segs: Vec<Seg> = Vec::new();
        for _ in 0..nseg {
            // two literal runs next to each other are one literal: alternate
            let lit = segs.last().map(|s| s.kind != "literal").unwrap_or(true) && rng.chance(1, 2);
            segs.push(if lit { literal_seg(&mut rng) } else { expr_seg(&mut rng, &mut ext, &mut c.runner) });
        }
        let body: String = segs.iter().map(|s| s.in_fstring.clone()).collect();
        // the other quote character, when nothing in the body needs escaping for it
        let q = if rng.chance(1, 3) && !body.contains('"') && !body.contains("\\'") { '"' } else { '\'' };
        let fsrc = format!("f{}{}{}", q, body, q);
        let explicit = if segs.is_empty() { "''".to_string() } else { segs.iter().map(|s| s.explicit.clone()).collect::<Vec<_>>().join(" + ") };
        let got_f = c.eval(&fsrc, &fbinds, &ext, false);
        let got_e = c.eval(&explicit, &fbinds, &ext, true);
        let kinds: Vec<&str> = segs.iter().map(|s| s.kind).collect();
        c.rep.count(Some(&fsrc));
        for k in &kinds {
            c.rep.bump(&format!("fstring-segment:{}", k));
        }
        c.rep.bump(&format!("fstring:{}", if got_f.starts_with("e:") { "fails" } else { "string" }));
        if l1(&got_f) != l1(&got_e) || !(got_f.starts_with("s:") || got_f.starts_with("e:")) {
            c.rep.oracle_fail(&describe(&fsrc, &fbinds), &got_f, &format!("{}  (= {})", got_e, explicit), "an f-string equals the concatenation of its literal parts and string(e) of each embedded expression");
        }
        if i < 4 {
            c.rep.sample(json!({"fstring": fsrc, "explicit": explicit, "impl": got_f}));
        }
    }
    // malformed f-strings: both sides must refuse them
    for bad in ["f'{'", "f'}'", "f'{}'", "f'a{1'", "f'{1}}'", "f'{{1}'", "f'{1}{'", "f'", "f'{ }'", "f'{1 +}'", "f'{{}}}'", "f'}{'", "f\"{'a\"}\""] {
        let got = c.eval(bad, &[], &empty, false);
        c.rep.count(Some(bad));
        c.rep.bump("fstring:malformed");
        if bad != "f'{ }'" && bad != "f'{1 +}'" && !got.starts_with("e:") {
            c.rep.oracle_fail(bad, &got, "an error", "unbalanced braces are not an f-string");
        }
    }
    // well-formed corner cases with fixed answers
    for (src, want) in [
        ("f''", "s:_"),
        ("f'{{}}'", "s:7b7d"),
        ("f'{{{1}}}'", "s:7b317d"),
        ("f'a{1}b{2u}c'", "s:6131623263"),
        ("f'{\"x\"}{'y'}'", "s:7879"),
        ("f'{ {'a': 'b'}.a}'", "s:62"),
        ("f'{[1,2].map(v, v + 1)[0]}'", "s:32"),
        ("f'{f'{f'{1}'}'}'", "s:31"),
        ("f'{true}'", "e:value"),
        ("f'{null}{1/0}'", "e:value"),
        ("f'{1/0}{null}'", "e:divZero"),
    ] {
        let got = c.eval(src, &[], &empty, false);
        c.rep.count(Some(src));
        c.rep.bump("fstring:fixed");
        if l1(&got) != l1(want) {
            c.rep.oracle_fail(src, &got, want, "f-string corner case");
        }
    }

    let pending = std::mem::take(&mut c.pending);
    drop(c);
    rep.compare_with_model(&opts.driver, &pending);
    let _ = dur_nanos;
    rep
}
