//! Shared oracle: a value the caller binds wrapped as a dyn value (`CelValue::from_dyn(Arc::new(v))`) behaves as the
//! value itself.  Each property's facet calls `transparency` with the expression templates that belong to it; the
//! expressions are evaluated with plain bindings and with every wrapping of `a` / `b`, and the results must agree
//! (failures compare by class).  Implementation only: the Lean model has no dyn values.
use crate::api::exec_src;
use crate::report::Report;
use crate::wire::{l1, show_val};
use chrono::{DateTime, TimeDelta, Utc};
use rscel::CelValue;
use std::collections::HashMap;
use std::sync::Arc;

pub fn wrap(v: &CelValue) -> CelValue {
    CelValue::from_dyn(Arc::new(v.clone()))
}

fn map_of(entries: &[(&str, CelValue)]) -> CelValue {
    let mut m = HashMap::new();
    for (k, v) in entries {
        m.insert(k.to_string(), v.clone());
    }
    CelValue::Map(m)
}

pub fn scalars() -> Vec<CelValue> {
    vec![
        CelValue::Int(1),
        CelValue::Int(0),
        CelValue::Int(-2),
        CelValue::UInt(1),
        CelValue::UInt(u64::MAX),
        CelValue::Float(1.0),
        CelValue::Float(0.0),
        CelValue::Float(-0.0),
        CelValue::Float(f64::NAN),
        CelValue::Float(1e-300),
        CelValue::Bool(true),
        CelValue::Bool(false),
        CelValue::String("a".into()),
        CelValue::String("".into()),
        CelValue::Null,
        CelValue::from_bytes(vec![0]),
        CelValue::from_bytes(vec![]),
        CelValue::TimeStamp(DateTime::<Utc>::from_timestamp(1_700_000_000, 5).unwrap()),
        CelValue::Duration(TimeDelta::seconds(90)),
        CelValue::Duration(TimeDelta::zero()),
    ]
}

pub fn containers() -> Vec<CelValue> {
    vec![
        CelValue::List(vec![]),
        CelValue::List(vec![CelValue::Int(1)]),
        CelValue::List(vec![CelValue::Int(1), CelValue::String("a".into()), CelValue::Float(0.0)]),
        map_of(&[]),
        map_of(&[("k", CelValue::Int(1)), ("a", CelValue::Null)]),
        // keys named like built-in functions / macros: the field still wins
        map_of(&[("size", CelValue::Int(7)), ("bar", CelValue::Int(1)), ("filter", CelValue::Int(2)), ("k", CelValue::Int(3))]),
    ]
}

/// `templates` read the variables `a` and `b`.  Returns the number of evaluations.
pub fn transparency(rep: &mut Report, tag: &str, templates: &[&str], avals: &[CelValue], bvals: &[CelValue]) {
    for a in avals {
        for b in bvals {
            for t in templates {
                let plain = l1(&exec_src(t, &[("a".to_string(), a.clone()), ("b".to_string(), b.clone())]));
                for (wa, wb) in [(true, false), (false, true), (true, true)] {
                    if (wa && !t.contains('a')) || (wb && !wa && !t.contains('b')) {
                        continue;
                    }
                    let av = if wa { wrap(a) } else { a.clone() };
                    let bv = if wb { wrap(b) } else { b.clone() };
                    let got = l1(&exec_src(t, &[("a".to_string(), av), ("b".to_string(), bv)]));
                    rep.count(Some(&format!("dyn|{}|{}|{}|{}{}", t, show_val(a), show_val(b), wa, wb)));
                    rep.bump(&format!("dyn-wrapped operands:{}", tag));
                    if got != plain {
                        rep.oracle_fail(
                            &format!("{}  with a = {}{}, b = {}{}", t, if wa { "dyn-wrapped " } else { "" }, show_val(a), if wb { "dyn-wrapped " } else { "" }, show_val(b)),
                            &got,
                            &plain,
                            "a value bound wrapped as a dyn value (CelValue::from_dyn) must behave as the value itself",
                        );
                    }
                }
            }
        }
    }
}

/// Two handles on one `Arc` and two separately built wrappers of equal values are the same bindings.
pub fn sharing(rep: &mut Report, templates: &[&str], vals: &[CelValue]) {
    for v in vals {
        let shared = wrap(v);
        for t in templates {
            let r1 = l1(&exec_src(t, &[("a".to_string(), shared.clone()), ("b".to_string(), shared.clone())]));
            let r2 = l1(&exec_src(t, &[("a".to_string(), wrap(v)), ("b".to_string(), wrap(v))]));
            let r3 = l1(&exec_src(t, &[("a".to_string(), v.clone()), ("b".to_string(), v.clone())]));
            rep.count(Some(&format!("dyn-sharing|{}|{}", t, show_val(v))));
            rep.bump("dyn-wrapped operands:sharing");
            let _ = &r3;
            if r1 != r2 {
                rep.oracle_fail(
                    &format!("{}  with a, b = {} (two handles on one Arc / two wrappers / plain)", t, show_val(v)),
                    &format!("{} / {}", r1, r2),
                    "the same result for shared and for separately built wrappers",
                    "equal bindings give equal results whether or not the bound dyn values share their allocation",
                );
            }
        }
    }
}

/// A caller-defined dyn value whose equality is one-sided: it compares equal to the int it holds when *it* is asked
/// (left operand); a plain value on the left knows nothing about it.
#[derive(Debug)]
pub struct OneSided(pub i64);

impl std::fmt::Display for OneSided {
    fn fmt(&self, f: &mut std::fmt::Formatter<'_>) -> std::fmt::Result {
        write!(f, "OneSided({})", self.0)
    }
}

impl rscel::CelValueDyn for OneSided {
    fn as_type(&self) -> CelValue {
        CelValue::from_type("one_sided")
    }
    fn access(&self, _key: &str) -> CelValue {
        CelValue::from_null()
    }
    fn eq(&self, rhs: &CelValue) -> CelValue {
        CelValue::from_bool(*rhs == CelValue::from_int(self.0))
    }
    fn is_truthy(&self) -> bool {
        true
    }
    fn any_ref<'a>(&'a self) -> &'a dyn std::any::Any {
        self
    }
}

/// `a != b` is the negation of `a == b` with the operands in the written order — also when equality is one-sided.
pub fn complement_with_one_sided(rep: &mut Report) {
    let d = CelValue::from_dyn(Arc::new(OneSided(1)));
    for v in scalars() {
        for (an, bn) in [("d", "v"), ("v", "d")] {
            for t in ["(A != B) == !(A == B)", "[A != B, !(A == B)]", "(A == B) != (A != B)", "A != B || A == B"] {
                let src = t.replace('A', an).replace('B', bn);
                let got = l1(&exec_src(&src, &[("d".to_string(), d.clone()), ("v".to_string(), v.clone())]));
                rep.count(Some(&format!("one-sided|{}|{}", src, show_val(&v))));
                rep.bump("dyn-wrapped operands:one-sided equality");
                let ok = match t {
                    "[A != B, !(A == B)]" => got == "l:2 b:1 b:1" || got == "l:2 b:0 b:0" || got == "E",
                    _ => got == "b:1" || got == "E",
                };
                if !ok {
                    rep.oracle_fail(&format!("{}  with d = a dyn value equal to 1 when asked, v = {}", src, show_val(&v)), &got, "!= is the negation of == on the same operands, in the same order", "== and != are complementary");
                }
            }
        }
    }
}
