//! C18 — syntax-tree spans are exact and nested; syntax errors point inside the source.
//!
//! Inputs: generated expressions (gen.rs) and hand-written shapes, re-rendered token by token with random
//! white space (spaces, tabs, newlines, leading/trailing), string literals swapped for multi-byte /
//! escaped / multi-line / raw / bytes spellings; corrupted variants for the error-location part.
//!
//! Model-free oracle on the real outputs:
//!  * AST (`Program::ast()` as JSON): every span is a range of positions of the source, child inside parent
//!    (wrapper layers: equal), siblings disjoint and in order, root = source without surrounding white
//!    space, and for every expression node the source slice of its span compiles on its own to the same
//!    subtree (spans shifted).  Spans of match cases / patterns are excluded, as in the property.
//!  * tokens (`StringTokenizer::next()` loop): spans increasing, non-overlapping, inside the source, and each
//!    slice re-lexes to the same single token.
//!  * `SyntaxError::loc()` of every rejected input: an existing line, column at most its length.
//! Model: AST with spans, token stream with locations, error locations (exact), the span tree; the verified
//! checker `SpanTree.checkRoot` (Theorems/C18.lean) is run by the driver on the span tree of the real AST.
use crate::api::{compile, token_wire};
use crate::facets::pipe::queue_ast;
use crate::gen::{Gen, Ty};
use crate::report::{guarded, Pending, Report};
use crate::rng::Rng;
use crate::wire::hex;
use crate::Opts;
use rscel::{CelError, Program, StringTokenizer, Tokenizer};
use serde_json::{json, Value};
use std::collections::HashMap;

type Loc = (usize, usize);
type Span = (Loc, Loc);

/// Source text with line structure: positions are (line, column) in characters, lines split at '\n'.
pub struct Text {
    pub chars: Vec<char>,
    line_starts: Vec<usize>,
}

impl Text {
    pub fn new(src: &str) -> Text {
        let chars: Vec<char> = src.chars().collect();
        let mut line_starts = vec![0];
        for (i, c) in chars.iter().enumerate() {
            if *c == '\n' {
                line_starts.push(i + 1);
            }
        }
        Text { chars, line_starts }
    }
    fn line_len(&self, l: usize) -> usize {
        let end = if l + 1 < self.line_starts.len() { self.line_starts[l + 1] - 1 } else { self.chars.len() };
        end - self.line_starts[l]
    }
    /// Character offset of a position that lies within the source or at the end of one of its lines.
    pub fn offset(&self, p: Loc) -> Option<usize> {
        if p.0 < self.line_starts.len() && p.1 <= self.line_len(p.0) {
            Some(self.line_starts[p.0] + p.1)
        } else {
            None
        }
    }
    pub fn slice(&self, sp: Span) -> Option<String> {
        let (a, b) = (self.offset(sp.0)?, self.offset(sp.1)?);
        if a <= b {
            Some(self.chars[a..b].iter().collect())
        } else {
            None
        }
    }
    /// Position of a character offset, counting as the property does.
    pub fn loc_of(&self, off: usize) -> Loc {
        let mut l = 0;
        while l + 1 < self.line_starts.len() && self.line_starts[l + 1] <= off {
            l += 1;
        }
        (l, off - self.line_starts[l])
    }
    pub fn trimmed(&self) -> Span {
        let ws = |c: &char| *c == ' ' || *c == '\t' || *c == '\n';
        let a = self.chars.iter().position(|c| !ws(c)).unwrap_or(self.chars.len());
        let b = self.chars.iter().rposition(|c| !ws(c)).map(|i| i + 1).unwrap_or(a);
        (self.loc_of(a), self.loc_of(b.max(a)))
    }
}

fn fmt_span(sp: Span) -> String {
    format!("{}:{}-{}:{}", sp.0 .0, sp.0 .1, sp.1 .0, sp.1 .1)
}

fn span_of(v: &Value) -> Option<Span> {
    let loc = v.get("loc")?;
    let g = |k: &str| -> Option<Loc> {
        let a = loc.get(k)?.as_array()?;
        Some((a.first()?.as_u64()? as usize, a.get(1)?.as_u64()? as usize))
    };
    Some((g("start")?, g("end")?))
}

/// Grammar kinds of `AstNode<…>` (grammar.rs).
#[derive(Clone, Copy, PartialEq, Debug)]
enum K {
    Expr,
    Lv(u8), // 1 ConditionalOr .. 5 Multiplication
    Unary,
    Member,
    Primary,
    Prime,
    ExprList,
    ObjInits,
    ObjInit,
    OpList,
    IdentNode,
    Case,
    Pattern,
}

impl K {
    /// Number of wrapper layers between a whole program (`Expr`) and a node of this kind.
    fn depth(self) -> Option<usize> {
        match self {
            K::Expr => Some(0),
            K::Lv(n) => Some(n as usize),
            K::Unary => Some(6),
            K::Member => Some(7),
            K::Primary => Some(8),
            _ => None,
        }
    }
    fn next_level(n: u8) -> K {
        if n >= 5 {
            K::Unary
        } else {
            K::Lv(n + 1)
        }
    }
}

/// Children of a node of kind `k` (content `node`), in the order the AST stores them. `wrapper` is true for
/// the single-child layers between precedence levels.
fn children<'a>(k: K, node: &'a Value) -> Result<(Vec<(K, &'a Value)>, bool), String> {
    let bad = || Err(format!("unexpected shape for {:?}: {}", k, node));
    let obj = node.as_object();
    match k {
        K::Expr => {
            let o = match obj { Some(o) => o, None => return bad() };
            if let Some(t) = o.get("Ternary") {
                Ok((vec![(K::Lv(1), &t["condition"]), (K::Lv(1), &t["true_clause"]), (K::Expr, &t["false_clause"])], false))
            } else if let Some(m) = o.get("Match") {
                let mut v = vec![(K::Expr, &m["condition"])];
                for c in m["cases"].as_array().map(|a| a.as_slice()).unwrap_or(&[]) {
                    v.push((K::Case, c));
                }
                Ok((v, false))
            } else if let Some(u) = o.get("Unary") {
                Ok((vec![(K::Lv(1), u)], true))
            } else {
                bad()
            }
        }
        K::Lv(n) => {
            let o = match obj { Some(o) => o, None => return bad() };
            if let Some(b) = o.get("Binary") {
                Ok((vec![(K::Lv(n), &b["lhs"]), (K::next_level(n), &b["rhs"])], false))
            } else if let Some(u) = o.get("Unary") {
                Ok((vec![(K::next_level(n), u)], true))
            } else {
                bad()
            }
        }
        K::Unary => {
            let o = match obj { Some(o) => o, None => return bad() };
            if let Some(m) = o.get("Member") {
                Ok((vec![(K::Member, m)], true))
            } else if let Some(m) = o.get("NotMember") {
                Ok((vec![(K::OpList, &m["nots"]), (K::Member, &m["member"])], false))
            } else if let Some(m) = o.get("NegMember") {
                Ok((vec![(K::OpList, &m["negs"]), (K::Member, &m["member"])], false))
            } else {
                bad()
            }
        }
        K::Member => {
            let mut v = vec![(K::Primary, &node["primary"])];
            for p in node["member"].as_array().map(|a| a.as_slice()).unwrap_or(&[]) {
                v.push((K::Prime, p));
            }
            Ok((v, false))
        }
        K::Primary => {
            let o = match obj { Some(o) => o, None => return bad() };
            if o.contains_key("Ident") || o.contains_key("Literal") {
                Ok((vec![], false))
            } else if let Some(x) = o.get("Parens") {
                Ok((vec![(K::Expr, x)], false))
            } else if let Some(x) = o.get("ListConstruction") {
                Ok((vec![(K::ExprList, x)], false))
            } else if let Some(x) = o.get("ObjectInit") {
                Ok((vec![(K::ObjInits, x)], false))
            } else {
                bad()
            }
        }
        K::Prime => {
            let o = match obj { Some(o) => o, None => return bad() };
            if let Some(x) = o.get("MemberAccess") {
                Ok((vec![(K::IdentNode, &x["ident"])], false))
            } else if let Some(x) = o.get("Call") {
                Ok((vec![(K::ExprList, &x["call"])], false))
            } else if let Some(x) = o.get("ArrayAccess") {
                Ok((vec![(K::Expr, &x["access"])], false))
            } else {
                bad()
            }
        }
        K::ExprList => Ok((node["exprs"].as_array().map(|a| a.iter().map(|x| (K::Expr, x)).collect()).unwrap_or_default(), false)),
        K::ObjInits => Ok((node["inits"].as_array().map(|a| a.iter().map(|x| (K::ObjInit, x)).collect()).unwrap_or_default(), false)),
        K::ObjInit => Ok((vec![(K::Expr, &node["key"]), (K::Expr, &node["value"])], false)),
        K::OpList => {
            if node.as_str() == Some("EmptyList") {
                Ok((vec![], false))
            } else if let Some(l) = node.get("List") {
                Ok((vec![(K::OpList, &l["tail"])], false))
            } else {
                bad()
            }
        }
        K::IdentNode => Ok((vec![], false)),
        K::Case => Ok((vec![(K::Pattern, &node["pattern"]), (K::Expr, &node["expr"])], false)),
        K::Pattern => {
            if let Some(c) = node.get("Cmp") {
                Ok((vec![(K::Lv(1), &c["or"])], false))
            } else {
                Ok((vec![], false))
            }
        }
    }
}

/// Span tree in the wire form of Driver/Spans.lean.
struct Tree {
    sp: Span,
    kids: Vec<Tree>,
}

impl Tree {
    fn wire(&self, out: &mut String) {
        out.push_str(&format!("N {} {} {} {} {}", self.sp.0 .0, self.sp.0 .1, self.sp.1 .0, self.sp.1 .1, self.kids.len()));
        for k in &self.kids {
            out.push(' ');
            k.wire(out);
        }
    }
}

struct Walk<'a> {
    text: &'a Text,
    failures: Vec<(String, String)>, // (what, where)
    exprs: Vec<(K, Span, &'a Value)>,
    nodes: usize,
    max_depth: usize,
    multiline_nodes: usize,
}

impl<'a> Walk<'a> {
    fn fail(&mut self, what: &str, at: String) {
        if self.failures.len() < 5 {
            self.failures.push((what.to_string(), at));
        }
    }

    /// Returns the trees this AstNode contributes to its parent (case / pattern nodes are transparent).
    fn node(&mut self, k: K, v: &'a Value, depth: usize) -> Vec<Tree> {
        self.max_depth = self.max_depth.max(depth);
        let sp = match span_of(v) {
            Some(s) => s,
            None => {
                self.fail("node without loc", v.to_string());
                return vec![];
            }
        };
        let (kids, wrapper) = match children(k, &v["node"]) {
            Ok(x) => x,
            Err(e) => {
                self.fail("unknown AST shape", e);
                return vec![];
            }
        };
        let mut trees: Vec<Tree> = Vec::new();
        for (ck, cv) in kids {
            trees.extend(self.node(ck, cv, depth + 1));
        }
        if k == K::Case || k == K::Pattern {
            return trees; // spans not consumed by the project: excluded
        }
        self.nodes += 1;
        if sp.0 .0 != sp.1 .0 {
            self.multiline_nodes += 1;
        }
        // (a) the span is a range of positions of the source
        match (self.text.offset(sp.0), self.text.offset(sp.1)) {
            (Some(a), Some(b)) if a <= b => {}
            _ => self.fail("every span is a range (start <= end) of positions of the source", format!("{:?} node at {}", k, fmt_span(sp))),
        }
        // (b) children inside the parent; a wrapper layer has exactly its child's span
        for t in &trees {
            if !(sp.0 <= t.sp.0 && t.sp.1 <= sp.1) {
                self.fail("a child's span lies inside its parent's", format!("{:?} node {} has child {}", k, fmt_span(sp), fmt_span(t.sp)));
            }
        }
        if wrapper && trees.len() == 1 && trees[0].sp != sp {
            self.fail("a single-child wrapper layer has the span of the node it wraps", format!("{:?} {} wraps {}", k, fmt_span(sp), fmt_span(trees[0].sp)));
        }
        // (c) siblings disjoint (sorted by start: each ends before the next starts)
        trees.sort_by_key(|t| t.sp.0);
        for w in trees.windows(2) {
            if w[0].sp.1 > w[1].sp.0 {
                self.fail("sibling spans are disjoint", format!("under {:?} node {}: {} and {}", k, fmt_span(sp), fmt_span(w[0].sp), fmt_span(w[1].sp)));
            }
        }
        if k.depth().is_some() {
            self.exprs.push((k, sp, v));
        }
        if wrapper && trees.len() == 1 {
            return trees;
        }
        vec![Tree { sp, kids: trees }]
    }
}

/// Blank the spans the property excludes (match cases, patterns and the nodes inside a pattern other than its
/// expression), everywhere in `v`.
fn blank_excluded(v: &mut Value) {
    match v {
        Value::Object(m) => {
            if let Some(mt) = m.get_mut("Match") {
                if let Some(cases) = mt.get_mut("cases").and_then(|c| c.as_array_mut()) {
                    for c in cases.iter_mut() {
                        c["loc"] = Value::Null;
                        let p = &mut c["node"]["pattern"];
                        p["loc"] = Value::Null;
                        if let Some(cmp) = p["node"].get_mut("Cmp") {
                            cmp["op"]["loc"] = Value::Null;
                        } else if let Some(t) = p["node"].get_mut("Type") {
                            t["loc"] = Value::Null;
                        } else if let Some(t) = p["node"].get_mut("Any") {
                            t["loc"] = Value::Null;
                        }
                    }
                }
            }
            for (_, x) in m.iter_mut() {
                blank_excluded(x)
            }
        }
        Value::Array(a) => {
            for x in a.iter_mut() {
                blank_excluded(x)
            }
        }
        _ => {}
    }
}

/// Move every span of `v` by `-(l0, c0)` (columns only on the first line).
fn shift_locs(v: &mut Value, l0: usize, c0: usize) -> bool {
    let mut ok = true;
    match v {
        Value::Object(m) => {
            if let Some(loc) = m.get_mut("loc") {
                if !loc.is_null() {
                    for key in ["start", "end"] {
                        let (l, c) = (loc[key][0].as_u64().unwrap_or(0) as usize, loc[key][1].as_u64().unwrap_or(0) as usize);
                        if l < l0 || (l == l0 && c < c0) {
                            ok = false;
                        } else {
                            loc[key] = json!([l - l0, if l == l0 { c - c0 } else { c }]);
                        }
                    }
                }
            }
            for (k, x) in m.iter_mut() {
                if k != "loc" {
                    ok &= shift_locs(x, l0, c0);
                }
            }
        }
        Value::Array(a) => {
            for x in a.iter_mut() {
                ok &= shift_locs(x, l0, c0);
            }
        }
        _ => {}
    }
    ok
}

/// Descend `depth` wrapper layers from a whole-program AST; `None` if a layer is not a wrapper.
fn unwrap_layers(root: &Value, depth: usize) -> Option<&Value> {
    let mut cur = root;
    for d in 0..depth {
        let node = &cur["node"];
        cur = if d <= 5 {
            node.get("Unary")?
        } else if d == 6 {
            node.get("Member")?
        } else {
            // Member → Primary: no postfix operations
            if node.get("member")?.as_array()?.is_empty() {
                node.get("primary")?
            } else {
                return None;
            }
        };
    }
    Some(cur)
}

fn ast_json(p: &Program) -> Option<Value> {
    p.ast().and_then(|a| serde_json::to_value(a).ok())
}

enum Compiled {
    Ok(Program),
    Syntax(Loc),
    Other(String),
    Panic,
}

fn compile_loc(src: &str) -> Compiled {
    let src = src.to_string();
    let mut out: Option<Compiled> = None;
    {
        let out = &mut out;
        let _ = guarded(move || {
            *out = Some(match Program::from_source(&src) {
                Ok(p) => Compiled::Ok(p),
                Err(CelError::Syntax(e)) => Compiled::Syntax((e.loc().line(), e.loc().col())),
                Err(e) => Compiled::Other(crate::wire::err_kind(&e).to_string()),
            });
            String::new()
        });
    }
    out.unwrap_or(Compiled::Panic)
}

/// Real token stream: (wire form, span) list, or the error location.
fn lex_real(src: &str) -> Result<Vec<(String, Span)>, Option<Loc>> {
    let src = src.to_string();
    let mut out: Option<Result<Vec<(String, Span)>, Option<Loc>>> = None;
    {
        let out = &mut out;
        let _ = guarded(move || {
            let mut t = StringTokenizer::with_input(&src);
            let mut toks = Vec::new();
            let r = loop {
                match t.next() {
                    Ok(Some(tok)) => {
                        let l = tok.loc;
                        toks.push((token_wire(&format!("{:?}", tok.token)), ((l.start().line(), l.start().col()), (l.end().line(), l.end().col()))));
                    }
                    Ok(None) => break Ok(toks),
                    Err(e) => break Err(Some((e.loc().line(), e.loc().col()))),
                }
                if toks.len() > 100_000 {
                    break Err(None);
                }
            };
            *out = Some(r);
            String::new()
        });
    }
    out.unwrap_or(Err(None))
}

fn show_src(src: &str) -> String {
    format!("{:?}", src)
}

const WS: [&str; 10] = [" ", "  ", "\t", "\n", "\n  ", " \n", "\n\n", "\t \t", " \n\t", "   "];

const STRINGS: [&str; 16] = [
    "'日本語'", "\"ü\\n\"", "'\\u00e9x'", "r'\\d+é'", "b'\\xff\\001'", "'a\nb'", "\"\u{1F600} ok\"", "'tab\there'", "''", "\"q'q\"", "'\\U0001F600'",
    "r\"raw\\\"", "b\"é\"", "'ÿĀ'", "'\\x41\\101'", "\"多\n行\n\"",
];

/// Re-render `src` token by token with random white space; optionally swap string literals.
fn rerender(rng: &mut Rng, src: &str, level: u32) -> Option<String> {
    let toks = lex_real(src).ok()?;
    let text = Text::new(src);
    let mut out = String::new();
    if level >= 2 && rng.chance(1, 2) {
        out.push_str(*rng.pick(&WS));
    }
    let mut prev_end: Option<usize> = None;
    for (wire, sp) in toks.iter() {
        let (a, b) = (text.offset(sp.0)?, text.offset(sp.1)?);
        if a > b || prev_end.map_or(false, |pe| a < pe) {
            return None;
        }
        if let Some(pe) = prev_end {
            let had_ws = a > pe;
            if level == 0 {
                if had_ws {
                    out.push(' ');
                }
            } else if had_ws {
                out.push_str(*rng.pick(&WS));
            } else if rng.chance(level as u64, 4) {
                out.push_str(*rng.pick(&WS));
            }
        }
        let tok_text: String = text.chars[a..b].iter().collect();
        if level >= 2 && wire.starts_with("str:") && rng.chance(1, 3) {
            out.push_str(*rng.pick(&STRINGS));
        } else {
            out.push_str(&tok_text);
        }
        prev_end = Some(b);
    }
    if level >= 2 && rng.chance(1, 2) {
        out.push_str(*rng.pick(&WS));
    }
    Some(out)
}

const GARBAGE: [&str; 14] = ["@", "#", "$", "`", "=", "&", "|", "é", "\r", "\\", "~", "^", ";", "'"];

/// One corrupted variant of `src` (token deletion / duplication / swap, garbage character, truncation,
/// unbalanced bracket, broken f-string segment).
fn corrupt(rng: &mut Rng, src: &str) -> (String, &'static str) {
    let chars: Vec<char> = src.chars().collect();
    let text = Text::new(src);
    // only tokens whose spans are usable ranges, in increasing order (a broken tokenizer must not break the generator)
    let mut toks: Vec<(String, Span)> = Vec::new();
    let mut last = 0usize;
    for (w, sp) in lex_real(src).unwrap_or_default() {
        if let (Some(a), Some(b)) = (text.offset(sp.0), text.offset(sp.1)) {
            if last <= a && a <= b {
                toks.push((w, sp));
                last = b;
            }
        }
    }
    let off = |p: Loc| text.offset(p).unwrap_or(0);
    let choice = rng.below(9);
    match choice {
        0 if !toks.is_empty() => {
            let (_, sp) = &toks[rng.below(toks.len())];
            let (a, b) = (off(sp.0), off(sp.1));
            (chars[..a].iter().chain(chars[b..].iter()).collect(), "delete-token")
        }
        1 if !toks.is_empty() => {
            let (_, sp) = &toks[rng.below(toks.len())];
            let (a, b) = (off(sp.0), off(sp.1));
            let t: String = chars[a..b].iter().collect();
            (format!("{}{} {}", chars[..b].iter().collect::<String>(), if rng.chance(1, 2) { "\n" } else { " " }, t) + &chars[b..].iter().collect::<String>(), "duplicate-token")
        }
        2 => {
            let at = rng.below(chars.len() + 1);
            let g = *rng.pick(&GARBAGE);
            (format!("{}{}{}", chars[..at].iter().collect::<String>(), g, chars[at..].iter().collect::<String>()), "garbage-char")
        }
        3 if !chars.is_empty() => {
            let at = rng.below(chars.len());
            (chars[..at].iter().collect(), "truncate")
        }
        4 => {
            let b = *rng.pick(&["(", ")", "[", "]", "{", "}", ",", ":", "?", ".", "!", "-"]);
            let at = if toks.is_empty() { 0 } else { off(toks[rng.below(toks.len())].1 .1) };
            (format!("{}{}{}", chars[..at].iter().collect::<String>(), b, chars[at..].iter().collect::<String>()), "stray-punctuation")
        }
        5 => {
            let seg = *rng.pick(&["1 +", "(", "a.", "x ? 1", "[1, ", "!", "a b", "'", "1 +\n\n", "\n(\n", "{", "match x {"]);
            let q = if rng.chance(1, 2) { '\'' } else { '"' };
            let seg = if seg.contains(q) { "1 +" } else { seg };
            (format!("{} + f{}p{{{}}}s{}", src, q, seg, q), "broken-fstring-segment")
        }
        6 => {
            let seg = *rng.pick(&["(", "1 +\n\n\n", "a.\n", "\n\n[", "x ?\n\n y"]);
            (format!("\n\nf'{{{}}}'\n", seg), "broken-fstring-segment-multiline")
        }
        7 if toks.len() >= 2 => {
            let i = rng.below(toks.len() - 1);
            let (a1, b1, a2, b2) = (off(toks[i].1 .0), off(toks[i].1 .1), off(toks[i + 1].1 .0), off(toks[i + 1].1 .1));
            let s: String = chars[..a1].iter().chain(chars[a2..b2].iter()).chain(chars[b1..a2].iter()).chain(chars[a1..b1].iter()).chain(chars[b2..].iter()).collect();
            (s, "swap-tokens")
        }
        _ => {
            let q = *rng.pick(&["'", "\"", "b'", "r\"", "f'{", "f'}", "'\\u12", "'\\x", "b'\\7", "f'{a", "'\\"]);
            (format!("{} + {}abc", src, q), "unterminated-literal")
        }
    }
}

const SHAPES: [&str; 46] = [
    "x", "1", "-1", "- - x", "!x", "! ! !b", "-9223372036854775808", "0x1F + 0XfFu", "1.5e3 + .5 + 1. + 2e-3", "3u * 2u",
    "a + b * c - d / e % f", "a < b == c", "a || b && c || d", "a ? b : c ? d : e", "(a ? b : c) ? (d) : ((e))",
    "[1, 2 , [3, []], {}]", "{'a': 1, 'b': {'c': [x, y]}}", "{}", "[]", "x.y.z", "x.f(1, 2).g()", "f()", "f(a, b, c)", "x[0][1 + y]",
    "x.y[0].f(a)[b].c", "size(y) + x.f(z)", "[1, 2, 3].map(v, v + q).filter(w, w > 1)", "has(a.b) ? a.b : coalesce(n, m.zz, 0)",
    "f'{x}'", "f\"a{x + 1}b{{}}{y}\"", "f'{ f\"{z}\" }' + 'é'", "match x { case 1: 2 }", "match x { }",
    "match x + 1 { case int: 'i', case > 3: 'big', case _: null }", "match x { case == y: a, case <= z: b, case != 0: c, case string: d }",
    "(match x { case 1: 2, })", "[match x { case _: 1 }, 2]", "1 + match x { case _: 1 }", "x in [1, 2] && 'k' in m", "b'\\x00' + b\"a\"", "r'\\n' + \"\\n\"",
    "true && false || null == null", "'héllo'.size() + \"日本\".size()", "!(-x > 3) ? -(-x) : !!b", "tick(x) + tick(tick(y))", "[x][0].f",
];

fn check_ok_program(rep: &mut Report, pending: &mut Vec<Pending>, src: &str, prog: &Program) {
    let text = Text::new(src);
    let ast = match ast_json(prog) {
        Some(a) => a,
        None => {
            rep.oracle_fail(&show_src(src), "no AST", "Program::ast() is Some", "compiled program exposes no syntax tree");
            return;
        }
    };
    let mut w = Walk { text: &text, failures: Vec::new(), exprs: Vec::new(), nodes: 0, max_depth: 0, multiline_nodes: 0 };
    let trees = w.node(K::Expr, &ast, 0);
    // (d) the root spans the whole expression without surrounding white space
    let root_sp = span_of(&ast).unwrap_or(((0, 0), (0, 0)));
    if root_sp != text.trimmed() {
        w.fail("the root spans the whole expression without surrounding white space", format!("root {} expected {}", fmt_span(root_sp), fmt_span(text.trimmed())));
    }
    // (e) the spanned text compiles on its own to the same subtree
    let mut cache: HashMap<Span, Option<Value>> = HashMap::new();
    let exprs = std::mem::take(&mut w.exprs);
    let mut recompiled = 0usize;
    for (k, sp, v) in exprs.iter() {
        let slice = match text.slice(*sp) {
            Some(s) => s,
            None => continue, // already reported by (a)
        };
        let entry = cache.entry(*sp).or_insert_with(|| compile(&slice).ok().and_then(|p| ast_json(&p)));
        let depth = k.depth().unwrap();
        let is_min_int = v.to_string().contains("\"IntegerLit\":-9223372036854775808") && !slice.trim_start().starts_with('-');
        match entry {
            None => {
                if is_min_int {
                    rep.bump("excluded:min-int-magnitude-slice");
                } else {
                    w.fail("the spanned text compiles on its own", format!("{:?} node {} text {:?}", k, fmt_span(*sp), slice));
                }
            }
            Some(root) => {
                recompiled += 1;
                let mut want = (*v).clone();
                let shifted = shift_locs(&mut want, sp.0 .0, sp.0 .1);
                blank_excluded(&mut want);
                let got = unwrap_layers(root, depth).map(|g| {
                    let mut g = g.clone();
                    blank_excluded(&mut g);
                    g
                });
                if !shifted || got.as_ref() != Some(&want) {
                    w.fail(
                        "compiling the spanned text on its own yields the same subtree",
                        format!("{:?} node {} text {:?}: subtree {} recompiled {}", k, fmt_span(*sp), slice, want, got.map(|g| g.to_string()).unwrap_or_else(|| "<different shape>".into())),
                    );
                }
            }
        }
    }
    rep.bump(&format!("ast_nodes:{}", if w.nodes < 20 { "<20" } else if w.nodes < 60 { "20-59" } else if w.nodes < 150 { "60-149" } else { ">=150" }));
    rep.bump(&format!("lines:{}", text.line_starts.len().min(6)));
    if w.multiline_nodes > 0 {
        rep.bump("programs_with_multiline_nodes");
    }
    if !src.is_ascii() {
        rep.bump("programs_with_multibyte_chars");
    }
    rep.bump(&format!("slices_recompiled:{}", if recompiled < 10 { "<10" } else if recompiled < 40 { "10-39" } else { ">=40" }));
    for (what, at) in w.failures.iter() {
        rep.oracle_fail(&show_src(src), at, what, "C18 span oracle on the real Program::ast()");
    }
    // model: AST with spans, the span tree, and the verified checker on the real tree
    queue_ast(pending, src);
    if trees.len() == 1 {
        let mut wire = String::new();
        trees[0].wire(&mut wire);
        pending.push(Pending { request: format!("spantree {}", hex(src.as_bytes())), implementation: wire.clone(), level: 9, input: format!("span tree of: {}", show_src(src)) });
        pending.push(Pending {
            request: format!("spancheck {} {}", if src.is_empty() { "-".to_string() } else { hex(src.as_bytes()) }, wire),
            implementation: "ok".to_string(),
            level: 9,
            input: format!("verified span checker on the real AST of: {}", show_src(src)),
        });
    }
}

fn check_tokens(rep: &mut Report, pending: &mut Vec<Pending>, src: &str) {
    let text = Text::new(src);
    let lexed = lex_real(src);
    let obs = match &lexed {
        Ok(toks) => {
            let mut prev: Loc = (0, 0);
            for (i, (wire, sp)) in toks.iter().enumerate() {
                let here = format!("token #{} {} at {}", i, wire, fmt_span(*sp));
                if text.offset(sp.0).is_none() || text.offset(sp.1).is_none() {
                    rep.oracle_fail(&show_src(src), &here, "token span inside the source", "C18 token oracle");
                    continue;
                }
                if !(sp.0 < sp.1) {
                    rep.oracle_fail(&show_src(src), &here, "token span non-empty (start < end)", "C18 token oracle");
                }
                if sp.0 < prev {
                    rep.oracle_fail(&show_src(src), &here, &format!("token starts at or after the end of the previous one ({}:{})", prev.0, prev.1), "C18 token oracle: spans increasing, non-overlapping");
                }
                prev = sp.1;
                // the text of the span re-lexes to the same single token
                if let Some(slice) = text.slice(*sp) {
                    match lex_real(&slice) {
                        Ok(t2) if t2.len() == 1 && t2[0].0 == *wire => {
                            let end = Text::new(&slice).loc_of(slice.chars().count());
                            if t2[0].1 != ((0, 0), end) {
                                rep.oracle_fail(&show_src(src), &format!("{}: re-lexed span {}", here, fmt_span(t2[0].1)), &format!("0:0-{}:{}", end.0, end.1), "C18 token oracle: slice re-lexes to the same token spanning the whole slice");
                            }
                        }
                        other => {
                            let got = match other {
                                Ok(t) => format!("{:?}", t.iter().map(|x| x.0.clone()).collect::<Vec<_>>()),
                                Err(l) => format!("lex error {:?}", l),
                            };
                            rep.oracle_fail(&show_src(src), &format!("{}: slice {:?} re-lexes to {}", here, slice, got), "the same single token", "C18 token oracle");
                        }
                    }
                }
            }
            rep.bump(&format!("tokens:{}", if toks.len() < 10 { "<10" } else if toks.len() < 40 { "10-39" } else { ">=40" }));
            if toks.is_empty() {
                "T:0".to_string()
            } else {
                format!("T:{} {}", toks.len(), toks.iter().map(|(w, sp)| format!("{}@{}", w, fmt_span(*sp))).collect::<Vec<_>>().join(" "))
            }
        }
        Err(Some(l)) => {
            rep.bump("lex_error");
            if text.offset(*l).is_none() {
                rep.oracle_fail(&show_src(src), &format!("lexical error at {}:{}", l.0, l.1), "a line of the source and a column at most its length", "C18: syntax errors point inside the source (tokenizer)");
            }
            format!("E {}:{}", l.0, l.1)
        }
        Err(None) => {
            rep.oracle_fail(&show_src(src), "P", "token stream or syntax error", "tokenizer panicked or ran away");
            "P".to_string()
        }
    };
    pending.push(Pending { request: format!("lex {}", hex(src.as_bytes())), implementation: obs, level: 9, input: format!("tokens of: {}", show_src(src)) });
}

/// One input through all parts of the property. Returns true when it compiled.
fn check_input(rep: &mut Report, pending: &mut Vec<Pending>, src: &str, tag: &str) -> bool {
    check_tokens(rep, pending, src);
    let text = Text::new(src);
    match compile_loc(src) {
        Compiled::Ok(p) => {
            rep.count(Some(src));
            rep.bump(&format!("{}:compiled", tag));
            check_ok_program(rep, pending, src, &p);
            pending.push(Pending { request: format!("parseloc {}", hex(src.as_bytes())), implementation: "ok".into(), level: 9, input: format!("compile outcome of: {}", show_src(src)) });
            true
        }
        Compiled::Syntax(l) => {
            rep.count(Some(src));
            rep.bump(&format!("{}:syntax-error", tag));
            rep.bump(&format!("error_line:{}", l.0.min(5)));
            if text.offset(l).is_none() {
                rep.oracle_fail(
                    &show_src(src),
                    &format!("syntax error at line {}, column {}", l.0, l.1),
                    "a line of the source and a column at most its length",
                    "C18: a syntax error reports a position within the source or at the end of one of its lines",
                );
            }
            pending.push(Pending { request: format!("parseloc {}", hex(src.as_bytes())), implementation: format!("E {}:{}", l.0, l.1), level: 9, input: format!("syntax error location of: {}", show_src(src)) });
            false
        }
        Compiled::Other(k) => {
            rep.count(None);
            rep.bump(&format!("{}:other-error:{}", tag, k));
            false
        }
        Compiled::Panic => {
            rep.count(None);
            rep.oracle_fail(&show_src(src), "P", "program or syntax error", "compiler panicked");
            false
        }
    }
}

pub fn run(opts: &Opts) -> Report {
    let mut rep = Report::new(
        "C18",
        "generated expressions + hand-written shapes, re-rendered token by token with random white space (space/tab/newline, leading/trailing) and multi-byte / escaped / \
         multi-line string spellings; per program: span oracle on the real AST (in source, child in parent, siblings disjoint, root trimmed, slice of every expression node \
         recompiles to the same subtree), token oracle (increasing, disjoint, slice re-lexes), verified checker on the real span tree, model AST/tokens/tree; corrupted variants: \
         SyntaxError::loc() inside the source + exact model location; non-trivial = distinct source text that reached the compiler",
    );
    let mut pending: Vec<Pending> = Vec::new();
    let mut rng = Rng::new(opts.seed ^ 0xC18);
    let n = if opts.thorough { 12_000 } else { 700 };
    // 1. hand-written shapes: compact + several renderings each
    let mut bases: Vec<String> = SHAPES.iter().map(|s| s.to_string()).collect();
    // 2. generated expressions
    for i in 0..n {
        let depth = 1 + (i % 4) as u32;
        let want = [Ty::Int, Ty::Bool, Ty::Any, Ty::List, Ty::Str, Ty::Map, Ty::UInt][i % 7];
        let mut g = Gen::new(&mut rng);
        g.doubles = true;
        bases.push(g.expr(depth, want));
    }
    let mut good: Vec<String> = Vec::new();
    for (i, b) in bases.iter().enumerate() {
        let reps = if i < SHAPES.len() { 6 } else { 2 };
        if check_input(&mut rep, &mut pending, b, "as-generated") {
            good.push(b.clone());
        }
        for r in 0..reps {
            let level = 1 + (r % 3) as u32;
            if let Some(v) = rerender(&mut rng, b, level) {
                if v != *b && check_input(&mut rep, &mut pending, &v, "re-rendered") && r == 0 {
                    good.push(v);
                }
            }
        }
        if i < 3 {
            rep.sample(json!({"source": b}));
        }
    }
    // 3. corrupted variants
    let m = if opts.thorough { 40_000 } else { 2_500 };
    for i in 0..m {
        let base = good[rng.below(good.len())].clone();
        let (bad, how) = corrupt(&mut rng, &base);
        rep.bump(&format!("corruption:{}", how));
        check_input(&mut rep, &mut pending, &bad, "corrupted");
        if i < 3 {
            rep.sample(json!({"corrupted": bad, "how": how}));
        }
    }
    // 4. fixed malformed inputs (errors on later lines, inside f-string segments, at end of input)
    for s in [
        "", " ", "\n", "\n\n  \n", "1 +", "1 +\n", "1 +\n\n", "(1", "(1\n\n", "[1, 2", "{'a': 1", "{'a' 1}", "x ?\n y", "x ? y :", "a.b.(", "a.", "a.\n", "'abc", "'abc\n", "\"x\n\ny",
        "f'{1 +}'", "\n f'{(}'", "\n\n f'{a\n\n\n+}'", "f'{a.}' + \n\n\n", "f'{}'", "f'{", "f'}'", "f'a{b'", "1 = 2", "a & b", "a | b", "a\n&\nb", "é", "x + é", "x\n\n+ @", "0x", "1e", "1.5u",
        "99999999999999999999", "9223372036854775808", "-\n9223372036854775808", "18446744073709551616u", "match", "match x", "match x {", "match x { case", "match x { case 1", "match x { case 1:",
        "match x { case 1: 2", "match x { case 1: 2 case 2: 3 }", "match x { case dyn: 1 }", "match x { case\n\ntype: 1 }", "f(", "f(1,", "f(1 2)", "x[", "x[1", "x[]", "((((((((((((((((((((((((((((((((((1))))))))))))))))))))))))))))))))))",
        "!!!!!!!!!!!!!!!!!!!!!!!!!!!!!!!!!!!!!!x", "b'\\400'", "'\\UFFFFFFFF'", "'\\ud800'", "1 2", "1\n2", ")", "\n\n)", "x ? : y", "[,]", "{:}", "{1: 2,, }", "x..y", "'a' 'b'",
    ] {
        check_input(&mut rep, &mut pending, s, "malformed");
    }
    rep.compare_with_model(&opts.driver, &pending);
    // the verified checker rejecting a real AST is a definite violation (proved checker, real artefact)
    let mut moved = Vec::new();
    rep.disagreements.retain(|d| {
        if d.input.starts_with("verified span checker") {
            moved.push(d.clone());
            false
        } else {
            true
        }
    });
    for d in moved {
        rep.oracle_fail(&d.input, &d.expected, "ok", "SpanTree.checkRoot (proved sound, Theorems/C18.lean) rejects the span tree of the real Program::ast()");
    }
    rep
}
