//! C10 — emitted bytecode is well-formed on every path; the VM bounds-checks jumps.
use crate::facets::vmrun::{generate, run_cases};
use crate::report::{Pending, Report};
use crate::rng::Rng;
use crate::Opts;
use rscel::{BindContext, CelContext, Program};
use serde_json::json;

/// Arbitrary instruction vectors injected through `Deserialize for Program`; jumps biased to the edges.
fn random_bytecode(rng: &mut Rng, forward_only: bool) -> (String, serde_json::Value) {
    let n = 1 + rng.below(8);
    let mut wire = format!("c:{}", n);
    let mut js = Vec::new();
    for pc in 0..n {
        let pick = rng.below(16);
        let dist = |rng: &mut Rng| -> i64 {
            let after = pc as i64 + 1;
            let lenr = n as i64 - after;
            let cands: [i64; 9] = [0, 1, lenr, lenr + 1, -after, -after - 1, -1, i32::MAX as i64, i32::MIN as i64];
            let d = cands[rng.below(9)];
            if forward_only && d < 0 {
                0
            } else {
                d
            }
        };
        let (w, j): (String, serde_json::Value) = match pick {
            0 | 1 => { let v = rng.range(-2, 3); (format!("PUSH i:{}", v), json!({"Push": {"Int": v}})) }
            2 => ("PUSH b:1".into(), json!({"Push": {"Bool": true}})),
            3 => ("PUSH b:0".into(), json!({"Push": {"Bool": false}})),
            4 => ("POP".into(), json!("Pop")),
            5 => ("DUP".into(), json!("Dup")),
            6 => ("ADD".into(), json!("Add")),
            7 => ("TEST".into(), json!("Test")),
            8 => ("NOT".into(), json!("Not")),
            9 | 10 => { let d = dist(rng); (format!("JMP:{}", d), json!({"Jmp": d})) }
            11 => { let d = dist(rng); (format!("JT:{}", d), json!({"JmpCond": {"when": "True", "dist": d}})) }
            12 => { let d = dist(rng); (format!("JF:{}", d), json!({"JmpCond": {"when": "False", "dist": d}})) }
            13 => { let k = rng.below(3); (format!("MKLIST:{}", k), json!({"MkList": k})) }
            14 => ("OR".into(), json!("Or")),
            _ => ("LT".into(), json!("Lt")),
        };
        wire.push(' ');
        wire.push_str(&w);
        js.push(j);
    }
    (wire, json!({"details": {"source": null, "params": []}, "bytecode": {"inner": js}}))
}

pub fn run(opts: &Opts) -> Report {
    let mut rep = Report::new(
        "C10",
        "generated programs (every operator, nested || && ?: match, calls, macros, f-strings) compiled by the real compiler; the proved checker wfBlock \
         runs on the real bytecode incl. every nested block; model VM vs real VM on the same bytecode; plus random instruction vectors injected through serde for the jump bounds check; \
         non-trivial = program compiled, distinct by source + bindings",
    );
    let mut pending: Vec<Pending> = Vec::new();
    let n = if opts.thorough { 150_000 } else { 6_000 };
    let cases = generate(opts, n, |_g| {});
    run_cases(&mut rep, &mut pending, &cases, true, 1);
    // hand-written nesting shapes
    let shapes = [
        "a || b || c", "a && b && c", "a ? b : c ? d : e", "(a ? b : c) ? d : e", "a || (b && (c || d))", "a ? (b || c) : (d && e)",
        "match a { case 1: b, case > 2: c || d, case _: e ? 1 : 2 }", "f'{a || b}{c ? d : e}'", "[a || b, c ? d : e].map(v, v && a)",
        "size([a ? b : c])", "has(a.b) || coalesce(a, b ? c : d)", "[1,2].reduce(acc, v, acc + (v > 1 ? v : 0), 0)", "!(!a || !!b)", "-(-x)",
        "match x { }", "match x { case int: 1 }", "{'k': a || b}.k", "a[b ? 0 : 1]",
    ];
    let shape_cases: Vec<_> = shapes.iter().map(|s| crate::facets::vmrun::Case { src: s.to_string(), binds_variant: 0 }).collect();
    run_cases(&mut rep, &mut pending, &shape_cases, true, 1);
    // VM bounds: arbitrary bytecode through serde
    let mut rng = Rng::new(opts.seed ^ 0xC10);
    let m = if opts.thorough { 100_000 } else { 8_000 };
    for i in 0..m {
        // arbitrary backward jumps can loop forever in the real VM (outside the property): forward-only here,
        // with out-of-range forward and backward-out-of-range distances only in one-shot positions
        let (wire, js) = random_bytecode(&mut rng, true);
        let obs = crate::report::guarded(|| {
            let p: Program = match serde_json::from_value(js.clone()) {
                Ok(p) => p,
                Err(e) => return format!("deser-error {}", e),
            };
            let mut ctx = CelContext::new();
            ctx.add_program("main", p);
            let b = BindContext::new();
            crate::wire::show_result(&ctx.exec("main", &b))
        });
        rep.count(Some(&wire));
        rep.bump(&format!("injected:{}", if obs.starts_with("e:") { obs.as_str() } else if obs == "P" { "panic" } else { "value" }));
        if i < 3 {
            rep.sample(json!({"injected_bytecode": wire, "impl": obs}));
        }
        if obs == "P" || obs.starts_with("deser-error") {
            rep.oracle_fail(&wire, &obs, "value or error", "VM panicked (or program not injectable) on arbitrary forward-jumping bytecode");
        }
        pending.push(Pending { request: format!("vm P:0 G:0 U:0 {}", wire), implementation: format!("{} L:0", obs), level: 9, input: format!("injected {}", wire) });
    }
    rep.compare_with_model(&opts.driver, &pending);
    // a wfBlock rejection of real compiler output is a definite violation (proved checker, real artefact)
    let mut moved = Vec::new();
    rep.disagreements.retain(|d| {
        if d.input.starts_with("wfBlock on bytecode") {
            moved.push(d.clone());
            false
        } else {
            true
        }
    });
    for d in moved {
        rep.oracle_fail(&d.input, &d.expected, "wf:ok", &format!("the compiler emitted bytecode the proved checker rejects; {}", d.why));
    }
    rep
}
