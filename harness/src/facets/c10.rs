//! C10 — emitted bytecode is well-formed on every path; the VM bounds-checks jumps.
use crate::facets::vmrun::{generate, run_cases};
use crate::report::{Pending, Report};
use crate::rng::Rng;
use crate::Opts;
use rscel::{BindContext, CelContext, Program};
use serde_json::json;

/// Arbitrary instruction vectors injected through `Deserialize for Program`; jumps biased to the edges.
fn random_bytecode(rng: &mut Rng, forward_only: bool) -> (String, serde_json::Value, Option<String>) {
    let mut must_err: Option<String> = None;
    let mut class = 9usize;
    // a third of the vectors start with a condition of a chosen class (true / false / failing / non-bool / nothing on the
    // stack) followed directly by a jump, so that every arm of the VM's jump instructions meets every edge distance
    let mut prefix: Vec<(String, serde_json::Value)> = Vec::new();
    if rng.chance(1, 3) {
        class = rng.below(5);
        // a value underneath, so that a run that wrongly ends after the jump returns a value instead of failing on an empty stack
        if rng.chance(2, 3) && class != 4 {
            prefix.push(("PUSH i:42".into(), json!({"Push": {"Int": 42}})));
        }
        match class {
            0 => prefix.push(("PUSH b:1".into(), json!({"Push": {"Bool": true}}))),
            1 => prefix.push(("PUSH b:0".into(), json!({"Push": {"Bool": false}}))),
            2 => {
                prefix.push(("PUSH i:1".into(), json!({"Push": {"Int": 1}})));
                prefix.push(("PUSH i:0".into(), json!({"Push": {"Int": 0}})));
                prefix.push(("DIV".into(), json!("Div")));
            }
            3 => prefix.push(("PUSH i:2".into(), json!({"Push": {"Int": 2}}))),
            _ => {}
        }
    }
    let n = prefix.len() + 1 + rng.below(8);
    let mut wire = format!("c:{}", n);
    let mut js = Vec::new();
    let np = prefix.len();
    for (w, j) in prefix.into_iter() {
        wire.push(' ');
        wire.push_str(&w);
        js.push(j);
    }
    for pc in np..n {
        let pick = if np > 0 && pc == np { 9 + rng.below(4) } else { rng.below(17) };
        let first_after_prefix = class < 9 && pc == np;
        let dist = |rng: &mut Rng| -> i64 {
            let after = pc as i64 + 1;
            let lenr = n as i64 - after;
            let cands: [i64; 9] = [0, 1, lenr, lenr + 1, -after, -after - 1, -1, i32::MAX as i64, i32::MIN as i64];
            let d = cands[rng.below(9)];
            // backward jumps that stay inside the block can loop forever in the real VM (outside the property);
            // backward jumps that leave the block are one-shot and are kept for the jump right after the prefix
            if d < 0 && (forward_only && !first_after_prefix || after + d >= 0) {
                0
            } else {
                d
            }
        };
        let (w, j): (String, serde_json::Value) = match pick {
            0 | 1 => { let v = rng.range(-2, 3); (format!("PUSH i:{}", v), json!({"Push": {"Int": v}})) }
            2 => ("PUSH b:1".into(), json!({"Push": {"Bool": true}})),
            3 => ("PUSH b:0".into(), json!({"Push": {"Bool": false}})),
            4 => ("POP".into(), json!("Pop")),
            5 => ("DUP".into(), json!("Dup")),
            6 => ("ADD".into(), json!("Add")),
            7 => ("TEST".into(), json!("Test")),
            8 => ("NOT".into(), json!("Not")),
            9 | 10 | 11 | 12 => {
                let d = dist(rng);
                let after = pc as i64 + 1;
                let out_of_range = after + d < 0 || after + d > n as i64;
                let (taken, w, j): (Option<bool>, String, serde_json::Value) = match pick {
                    9 | 10 => (Some(true), format!("JMP:{}", d), json!({"Jmp": d})),
                    11 => (match class { 0 => Some(true), 1 | 2 => Some(false), _ => None }, format!("JT:{}", d), json!({"JmpCond": {"when": "True", "dist": d}})),
                    _ => (match class { 0 => Some(false), 1 | 2 => Some(true), _ => None }, format!("JF:{}", d), json!({"JmpCond": {"when": "False", "dist": d}})),
                };
                if first_after_prefix {
                    // the property's statement for the VM: an out-of-range jump that is taken is rejected with an error
                    if taken == Some(true) && out_of_range && (class < 3 || pick <= 10 && class == 3) {
                        must_err = Some(format!("jump at pc {} (condition class {}) is taken and leaves the block", pc, ["true", "false", "failing", "int", "empty stack"][class]));
                    } else if pick > 10 && class >= 3 {
                        must_err = Some(format!("conditional jump at pc {} on {}", pc, if class == 3 { "a non-boolean" } else { "an empty stack" }));
                    }
                }
                (w, j)
            }
            13 => { let k = rng.below(3); (format!("MKLIST:{}", k), json!({"MkList": k})) }
            14 => ("OR".into(), json!("Or")),
            16 => ("DIV".into(), json!("Div")),
            _ => ("LT".into(), json!("Lt")),
        };
        wire.push(' ');
        wire.push_str(&w);
        js.push(j);
    }
    (wire, json!({"details": {"source": null, "params": []}, "bytecode": {"inner": js}}), must_err)
}

pub fn run(opts: &Opts) -> Report {
    let mut rep = Report::new(
        "C10",
        "generated programs (every operator, nested || && ?: match, calls, macros, f-strings) compiled by the real compiler; the proved checker wfBlock \
         runs on the real bytecode incl. every nested block; model VM vs real VM on the same bytecode; plus random instruction vectors injected through serde for the jump bounds check; \
         non-trivial = program compiled, distinct by source + bindings",
    );
    let mut pending: Vec<Pending> = Vec::new();
    let n = if opts.thorough { 150_000 } else { 6_000 };
    let cases = generate(opts, n, |_g| {});
    run_cases(&mut rep, &mut pending, &cases, true, 1);
    // hand-written nesting shapes
    let shapes = [
        "a || b || c", "a && b && c", "a ? b : c ? d : e", "(a ? b : c) ? d : e", "a || (b && (c || d))", "a ? (b || c) : (d && e)",
        "match a { case 1: b, case > 2: c || d, case _: e ? 1 : 2 }", "f'{a || b}{c ? d : e}'", "[a || b, c ? d : e].map(v, v && a)",
        "size([a ? b : c])", "has(a.b) || coalesce(a, b ? c : d)", "[1,2].reduce(acc, v, acc + (v > 1 ? v : 0), 0)", "!(!a || !!b)", "-(-x)",
        "match x { }", "match x { case int: 1 }", "{'k': a || b}.k", "a[b ? 0 : 1]",
    ];
    let shape_cases: Vec<_> = shapes.iter().map(|s| crate::facets::vmrun::Case { src: s.to_string(), binds_variant: 0 }).collect();
    run_cases(&mut rep, &mut pending, &shape_cases, true, 1);
    // stack neutrality on the real VM (model-free): whatever an expression does, it leaves exactly one value, so a
    // sentinel pushed before it is still in place afterwards — also when the expression fails (a list may hold a failed
    // element) — and a sentinel pushed after it sits directly on top of it
    {
        let users = vec![("tick".to_string(), crate::api::UserFn::Arg0)];
        for c in cases.iter().chain(shape_cases.iter()) {
            if crate::api::compile(&c.src).is_err() {
                continue;
            }
            let binds = crate::gen::std_bindings(c.binds_variant);
            for (wrapped, what) in [(format!("[424242, ({})][0]", c.src), "below"), (format!("[({}), 424242][1]", c.src), "above")] {
                let out = match crate::api::compile(&wrapped) {
                    Ok(p) => crate::api::exec_full(&[("main".to_string(), p)], "main", &binds, &users).obs,
                    Err(e) => format!("compile:{}", e),
                };
                rep.count(None);
                rep.bump("stack-neutrality");
                if out != "i:424242" {
                    rep.oracle_fail(&format!("{} [bindings variant {}]", wrapped, c.binds_variant), &out, "i:424242", &format!("the sentinel {} the expression was disturbed: the expression did not leave exactly one value on the stack", what));
                }
            }
        }
    }
    // VM bounds: arbitrary bytecode through serde
    let mut rng = Rng::new(opts.seed ^ 0xC10);
    let m = if opts.thorough { 100_000 } else { 8_000 };
    for i in 0..m {
        // arbitrary backward jumps can loop forever in the real VM (outside the property): forward-only here,
        // with out-of-range forward and backward-out-of-range distances only in one-shot positions
        let (wire, js, must_err) = random_bytecode(&mut rng, true);
        let obs = crate::report::guarded(|| {
            let p: Program = match serde_json::from_value(js.clone()) {
                Ok(p) => p,
                Err(e) => return format!("deser-error {}", e),
            };
            let mut ctx = CelContext::new();
            ctx.add_program("main", p);
            let b = BindContext::new();
            crate::wire::show_result(&ctx.exec("main", &b))
        });
        rep.count(Some(&wire));
        rep.bump(&format!("injected:{}", if obs.starts_with("e:") { obs.as_str() } else if obs == "P" { "panic" } else { "value" }));
        if i < 3 {
            rep.sample(json!({"injected_bytecode": wire, "impl": obs}));
        }
        if let Some(why) = must_err {
            rep.bump("injected:oracle-must-fail");
            if !obs.starts_with("e:") {
                rep.oracle_fail(&wire, &obs, "E", &format!("the VM must reject this with an error: {}", why));
            }
        }
        if obs == "P" || obs.starts_with("deser-error") {
            rep.oracle_fail(&wire, &obs, "value or error", "VM panicked (or program not injectable) on arbitrary forward-jumping bytecode");
        }
        pending.push(Pending { request: format!("vm P:0 G:0 U:0 {}", wire), implementation: format!("{} L:0", obs), level: 9, input: format!("injected {}", wire) });
    }
    rep.compare_with_model(&opts.driver, &pending);
    // a wfBlock rejection of real compiler output is a definite violation (proved checker, real artefact)
    let mut moved = Vec::new();
    rep.disagreements.retain(|d| {
        if d.input.starts_with("wfBlock on bytecode") {
            moved.push(d.clone());
            false
        } else {
            true
        }
    });
    for d in moved {
        rep.oracle_fail(&d.input, &d.expected, "wf:ok", &format!("the compiler emitted bytecode the proved checker rejects; {}", d.why));
    }
    rep
}
