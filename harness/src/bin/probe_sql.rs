// C20 probing: real to_sql on the lines of stdin
use rscel::Program;
use rscel_to_sql::IntoSqlBuilder;
use std::io::BufRead;
fn main() {
    for line in std::io::stdin().lock().lines() {
        let src = line.unwrap();
        let src = src.replace("\\n", "\n");
        let r = std::panic::catch_unwind(|| match Program::from_source(&src) {
            Err(e) => format!("SYNTAX {:?}", e),
            Ok(p) => match p.ast().unwrap().into_sql_builder() {
                Err(e) => format!("ERR(builder) {:?}", e),
                Ok(b) => match b.to_sql() {
                    Ok(s) => format!("OK  {}", s),
                    Err(e) => format!("ERR {:?}", e),
                },
            },
        });
        println!("{:40} => {}", src, r.unwrap_or("PANIC".into()));
    }
}
