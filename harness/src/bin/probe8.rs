// chrono / serde_with boundaries for the C19 codec model
use chrono::{DateTime, TimeDelta, Utc};
use rscel::{ByteCode, CelValue, Program, ProgramDetails};
fn prog(v: CelValue) -> Program { Program::new(ProgramDetails::new(), vec![ByteCode::Push(v)].into()) }
fn main() {
    println!("MIN_UTC ms {} MAX_UTC ms {}", DateTime::<Utc>::MIN_UTC.timestamp_millis(), DateTime::<Utc>::MAX_UTC.timestamp_millis());
    let lo = DateTime::<Utc>::MIN_UTC.timestamp_millis(); let hi = DateTime::<Utc>::MAX_UTC.timestamp_millis();
    for ms in [lo - 1, lo, hi, hi + 1] { println!("from_timestamp_millis({}) = {:?}", ms, DateTime::<Utc>::from_timestamp_millis(ms).map(|d| d.timestamp_millis())); }
    println!("TimeDelta MAX ms {} MIN ms {}", TimeDelta::MAX.num_milliseconds(), TimeDelta::MIN.num_milliseconds());
    for n in [0i64, 1, 499_999, 500_000, 500_001, 999_999, 1_000_000, 1_499_999, 1_500_000, -1, -499_999, -500_000, -500_001, -999_999, -1_500_000, -1_499_999] {
        let p = prog(CelValue::Duration(TimeDelta::nanoseconds(n)));
        let j = serde_json::to_string(&p).unwrap();
        let b = bincode::serialize(&p).unwrap();
        println!("dur {} ns -> json {} bin tail {:?}", n, j, &b[b.len()-8..]);
        let t = prog(CelValue::TimeStamp(DateTime::<Utc>::from_timestamp_nanos(n)));
        println!("ts  {} ns -> json {}", n, serde_json::to_string(&t).unwrap());
    }
    for d in [TimeDelta::MAX, TimeDelta::MIN] {
        let p = prog(CelValue::Duration(d));
        println!("dur extreme json {:?} bin {:?}", serde_json::to_string(&p), bincode::serialize(&p).map(|b| b.len()));
    }
    for t in [DateTime::<Utc>::MIN_UTC, DateTime::<Utc>::MAX_UTC] {
        let p = prog(CelValue::TimeStamp(t));
        let j = serde_json::to_string(&p);
        println!("ts extreme json {:?} back {:?}", j, j.as_ref().ok().map(|j| serde_json::from_str::<Program>(j).map(|q| q.dumps_bc())));
    }
    for js in [r#"{"details":{"source":null,"params":[]},"bytecode":{"inner":[{"Push":{"Duration":-9223372036854775808}}]}}"#,
               r#"{"details":{"source":null,"params":[]},"bytecode":{"inner":[{"Push":{"Duration":-9223372036854775807}}]}}"#,
               r#"{"details":{"source":null,"params":[]},"bytecode":{"inner":[{"Push":{"TimeStamp":8210266876799999}}]}}"#,
               r#"{"details":{"source":null,"params":[]},"bytecode":{"inner":[{"Push":{"TimeStamp":8210266876800000}}]}}"#,
               r#"{"details":{"source":null,"params":[],"extra":1},"bytecode":{"inner":[{"Push":{"Float":5}}]}}"#] {
        println!("{} => {:?}", js, serde_json::from_str::<Program>(js).map(|q| q.dumps_bc()));
    }
    let p = Program::from_source("x + {'a':1,'b':2,'c':3}.a + y").unwrap();
    println!("{}", serde_json::to_string(&p).unwrap());
    println!("{:?}", bincode::serialize(&p).unwrap());
    let mut bytes = bincode::serialize(&p).unwrap(); bytes.extend_from_slice(&[1,2,3]);
    println!("trailing bytes ok: {}", bincode::deserialize::<Program>(&bytes).is_ok());
}
