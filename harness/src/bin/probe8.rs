// long flat chains (C01 probing): compile, run, drop
use rscel::{BindContext, CelContext};
fn main() {
    let args: Vec<String> = std::env::args().collect();
    let n: usize = args[1].parse().unwrap();
    let piece = args.get(2).cloned().unwrap_or(" + 1".to_string());
    let head = args.get(3).cloned().unwrap_or("1".to_string());
    let src = format!("{}{}", head, piece.repeat(n));
    let mut ctx = CelContext::new();
    let r = ctx.add_program_str("m", &src);
    println!("compiled: {:?}", r.is_ok());
    let b = BindContext::new();
    let v = ctx.exec("m", &b);
    println!("exec: {}", format!("{:?}", v).chars().take(60).collect::<String>());
    drop(ctx);
    println!("dropped");
}
