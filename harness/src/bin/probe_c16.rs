// C16 probing: which getDayOfWeek forms exist and what they return
use rscel::{BindContext, CelContext, CelValue};
fn run(src: &str) -> String {
    let mut ctx = CelContext::new();
    if let Err(e) = ctx.add_program_str("main", src) {
        return format!("compile error {:?}", e);
    }
    let b = BindContext::new();
    match std::panic::catch_unwind(std::panic::AssertUnwindSafe(|| ctx.exec("main", &b))) {
        Ok(r) => format!("{:?}", r),
        Err(_) => "PANIC".to_string(),
    }
}
fn main() {
    let _ = CelValue::Null;
    for a in std::env::args().skip(1) {
        println!("{} => {}", a, run(&a));
    }
}
