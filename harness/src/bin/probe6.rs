// serde round trips of compiled programs (C19 probing)
use rscel::{BindContext, CelContext, Program};
fn show(r: &rscel::CelResult<rscel::CelValue>) -> String { format!("{:?}", r).chars().take(100).collect() }
fn main() {
    let srcs: Vec<String> = std::env::args().skip(1).collect();
    for s in srcs {
        let p = match Program::from_source(&s) { Ok(p) => p, Err(e) => { println!("{} => compile error {:?}", s, e); continue } };
        let exec = |p: &Program| { let mut c = CelContext::new(); c.add_program("m", p.clone()); let b = BindContext::new(); show(&c.exec("m", &b)) };
        let orig = exec(&p);
        let j = serde_json::to_string(&p);
        let jr = match &j { Ok(t) => match serde_json::from_str::<Program>(t) { Ok(q) => exec(&q), Err(e) => format!("JSON-DESER-ERR {}", e) }, Err(e) => format!("JSON-SER-ERR {}", e) };
        let b = bincode::serialize(&p);
        let br = match &b { Ok(t) => match bincode::deserialize::<Program>(t) { Ok(q) => exec(&q), Err(e) => format!("BIN-DESER-ERR {}", e) }, Err(e) => format!("BIN-SER-ERR {}", e) };
        println!("{}\n   orig {}\n   json {}\n   binc {}", s, orig, jr, br);
        println!("   bytecode {}", p.dumps_bc().replace('\n', " ; "));
    }
}
