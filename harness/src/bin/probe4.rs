use rscel::Program;
fn main() {
    let args: Vec<String> = std::env::args().collect();
    let p = Program::from_source(&args[1]).unwrap();
    println!("{}", serde_json::to_string(p.ast().unwrap()).unwrap());
}
