use rscel::{BindContext, CelContext, CelValue};
fn main() {
    let args: Vec<String> = std::env::args().collect();
    let mut ctx = CelContext::new();
    match ctx.add_program_str("main", &args[1]) { Ok(_) => {}, Err(e) => { println!("compile error: {:?}", e); return; } }
    let mut b = BindContext::new();
    let mut i = 2;
    while i + 1 < args.len() {
        let v: serde_json::Value = serde_json::from_str(&args[i+1]).unwrap();
        b.bind_param(&args[i], CelValue::from(v));
        i += 2;
    }
    println!("{}", ctx.get_program("main").unwrap().dumps_bc().replace("\n", "; "));
    println!("params {:?}", ctx.get_program("main").unwrap().params());
    println!("{:?}", ctx.exec("main", &b));
}
