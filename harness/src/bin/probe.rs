use rscel::Program;
fn try_depth(n: usize, kind: &str) -> bool {
    let src = match kind {
        "paren" => format!("{}1{}", "(".repeat(n), ")".repeat(n)),
        "list" => format!("{}1{}", "[".repeat(n), "]".repeat(n)),
        "not" => format!("{}true", "!".repeat(n)),
        "tern" => format!("{}1", "true ? 1 : ".repeat(n)),
        _ => unreachable!(),
    };
    Program::from_source(&src).is_ok()
}
fn main() {
    let args: Vec<String> = std::env::args().collect();
    let kind = args[1].clone();
    let n: usize = args[2].parse().unwrap();
    let stack: usize = args[3].parse().unwrap();
    let h = std::thread::Builder::new().stack_size(stack).spawn(move || try_depth(n, &kind)).unwrap();
    println!("{:?}", h.join().is_ok());
}
