use rscel::{Program, CelError};
fn main() {
    let args: Vec<String> = std::env::args().collect();
    for a in &args[1..] {
        let src = a.replace("\\n", "\n").replace("\\t", "\t");
        match Program::from_source(&src) {
            Ok(p) => {
                let mut ps: Vec<_> = p.params().into_iter().map(|s| s.to_string()).collect();
                ps.sort();
                println!("{:?} => ok params={:?}\n  ast={}", src, ps, serde_json::to_string(p.ast().unwrap()).unwrap());
            }
            Err(CelError::Syntax(e)) => println!("{:?} => syntax {}:{} {:?}", src, e.loc().line(), e.loc().col(), e.message()),
            Err(e) => println!("{:?} => other {:?}", src, e),
        }
    }
}
