// does serde_json round trip f64 exactly? (C19 probing)
fn main() {
    let mut x: u64 = 0x9E3779B97F4A7C15; let mut bad = 0u64; let n = 2_000_000u64;
    for _ in 0..n {
        x ^= x << 13; x ^= x >> 7; x ^= x << 17;
        let f = f64::from_bits(x);
        if !f.is_finite() { continue }
        let t = serde_json::to_string(&f).unwrap();
        let g: f64 = serde_json::from_str(&t).unwrap();
        if g.to_bits() != f.to_bits() { bad += 1; if bad < 4 { println!("{} -> {:e} vs {:e}", t, f, g) } }
    }
    println!("mismatches {} of {}", bad, n);
}
