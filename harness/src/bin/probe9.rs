use rscel::{BindContext, CelContext, CelValue};
fn main() {
    let args: Vec<String> = std::env::args().collect();
    for src in &args[1..] {
        let mut ctx = CelContext::new();
        match ctx.add_program_str("main", src) {
            Err(e) => { println!("{} => compile error {:?}", src, e); continue; }
            Ok(_) => {}
        }
        let mut b = BindContext::new();
        b.bind_param("x", CelValue::from_int(7));
        b.bind_param("l", CelValue::from_list(vec![CelValue::from_int(1)]));
        b.bind_param("s", CelValue::from_string("abc".to_string()));
        println!("{} => {:?}", src, ctx.exec("main", &b));
    }
}
