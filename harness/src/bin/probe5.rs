#[path = "../api.rs"] mod api;
#[path = "../wire.rs"] mod wire;
#[path = "../report.rs"] mod report;
#[path = "../model.rs"] mod model;
fn main() {
    let args: Vec<String> = std::env::args().collect();
    println!("{}", api::lex_obs(&args[1]));
    println!("lex {}", wire::hex(args[1].as_bytes()));
}
