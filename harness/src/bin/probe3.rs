use rscel::{BindContext, CelContext};
fn main() {
    let args: Vec<String> = std::env::args().collect();
    let mut ctx = CelContext::new();
    let mut i = 1;
    while i + 1 < args.len() {
        ctx.add_program_str(&args[i], &args[i + 1]).unwrap();
        i += 2;
    }
    let b = BindContext::new();
    println!("{:?}", ctx.exec(&args[1], &b));
}
