//! Per-run report: counts, input distribution, samples, oracle failures (implementation breaks the
//! property) and model disagreements (model and implementation differ) — kept separate.
use crate::model::run_model;
use serde_json::{json, Value};
use std::collections::{BTreeMap, HashSet};

#[derive(Clone, Debug)]
pub struct Failure {
    pub input: String,
    pub implementation: String,
    pub expected: String,
    pub why: String,
}

pub struct Report {
    pub facet: String,
    pub evaluations: u64,
    pub distinct: HashSet<u64>,
    pub samples: Vec<Value>,
    pub dist: BTreeMap<String, u64>,
    pub oracle_failures: Vec<Failure>,
    pub disagreements: Vec<Failure>,
    pub model_requests: u64,
    pub model_error: Option<String>,
    pub rule: String,
    pub notes: Vec<String>,
    pub exhaustive: bool,
}

fn fnv(s: &str) -> u64 {
    let mut h: u64 = 0xcbf29ce484222325;
    for b in s.bytes() {
        h ^= b as u64;
        h = h.wrapping_mul(0x100000001b3);
    }
    h
}

/// Canonical form of an observation at a comparison level.
pub fn canon(level: u8, x: &str) -> String {
    match level {
        0 | 1 => crate::wire::l1(x),
        3 => {
            // L1 on the result token, call log verbatim
            match x.split_once(' ') {
                Some((head, rest)) => format!("{} {}", crate::wire::l1(head), rest),
                None => crate::wire::l1(x),
            }
        }
        2 => {
            // value | absent-class error (Binding / Attribute) | other error, call log verbatim
            // (failures stored inside a list / map value: any kind)
            x.split(' ')
                .enumerate()
                .map(|(i, t)| if i == 0 { crate::wire::l2_absent(t) } else if t.starts_with("e:") { "e:*".to_string() } else { t.to_string() })
                .collect::<Vec<_>>()
                .join(" ")
        }
        7 => {
            // L1 on the result token; failures stored inside a list / map value: any kind; call log verbatim
            x.split(' ')
                .enumerate()
                .map(|(i, t)| if i == 0 { crate::wire::l1(t) } else if t.starts_with("e:") { "e:*".to_string() } else { t.to_string() })
                .collect::<Vec<_>>()
                .join(" ")
        }
        12 => {
            // L1 on the result, the call log (the trailing ` L:<n> ..`) is ignored
            match x.rfind(" L:") {
                Some(i) => crate::wire::l1(&x[..i]),
                None => crate::wire::l1(x),
            }
        }
        6 => {
            // outputs of a whole history joined by " | ": each compared at L1, call logs ignored
            x.split(" | ")
                .map(|part| match part.rfind(" L:") {
                    Some(i) => crate::wire::l1(&part[..i]),
                    None => crate::wire::l1(part),
                })
                .collect::<Vec<_>>()
                .join(" | ")
        }
        8 => {
            // outcome class only: a value ("ok") or a failure ("E")
            let head = x.split(' ').next().unwrap_or("");
            if head == "ok" || head == "E" {
                head.to_string()
            } else if head.starts_with("e:") {
                "E".to_string()
            } else {
                "ok".to_string()
            }
        }
        5 => {
            // AST: syntax errors compare by class, trees as JSON values
            if x.starts_with('E') {
                "E".to_string()
            } else {
                x.to_string()
            }
        }
        4 => {
            // JSON documents: compare as values
            // (no depth limit here: the deepest programs the parser accepts exceed serde_json's default of 128)
            let mut de = serde_json::Deserializer::from_str(x);
            de.disable_recursion_limit();
            match <serde_json::Value as serde::Deserialize>::deserialize(&mut de) {
                Ok(v) => v.to_string(),
                Err(_) => x.to_string(),
            }
        }
        _ => x.to_string(),
    }
}

/// A pending comparison with the model.
pub struct Pending {
    pub request: String,
    pub implementation: String,
    pub level: u8,
    pub input: String,
}

impl Report {
    pub fn new(facet: &str, rule: &str) -> Report {
        Report {
            facet: facet.to_string(),
            evaluations: 0,
            distinct: HashSet::new(),
            samples: Vec::new(),
            dist: BTreeMap::new(),
            oracle_failures: Vec::new(),
            disagreements: Vec::new(),
            model_requests: 0,
            model_error: None,
            rule: rule.to_string(),
            notes: Vec::new(),
            exhaustive: false,
        }
    }

    /// Count one evaluation; `nontrivial_key` is Some(key) when the case is non-trivial by the facet's rule.
    pub fn count(&mut self, nontrivial_key: Option<&str>) {
        self.evaluations += 1;
        if let Some(k) = nontrivial_key {
            self.distinct.insert(fnv(k));
        }
    }

    pub fn bump(&mut self, key: &str) {
        *self.dist.entry(key.to_string()).or_insert(0) += 1;
    }

    pub fn sample(&mut self, v: Value) {
        if self.samples.len() < 12 {
            self.samples.push(v);
        }
    }

    pub fn oracle_fail(&mut self, input: &str, implementation: &str, expected: &str, why: &str) {
        if self.oracle_failures.len() < 200 {
            self.oracle_failures.push(Failure {
                input: input.to_string(),
                implementation: implementation.to_string(),
                expected: expected.to_string(),
                why: why.to_string(),
            });
        }
    }

    /// Send all pending requests to the model and record disagreements.
    pub fn compare_with_model(&mut self, driver: &str, pending: &[Pending]) {
        let reqs: Vec<String> = pending.iter().map(|p| p.request.clone()).collect();
        self.model_requests += reqs.len() as u64;
        match run_model(driver, &reqs) {
            Err(e) => self.model_error = Some(e),
            Ok(answers) => self.compare_answers(pending, &answers),
        }
    }

    /// Diff the model's answers against the pending observations at each request's level.
    pub fn compare_answers(&mut self, pending: &[Pending], answers: &[String]) {
        for (p, a) in pending.iter().zip(answers.iter()) {
            let (i, m) = (canon(p.level, &p.implementation), canon(p.level, a));
            if i != m && self.disagreements.len() < 200 {
                self.disagreements.push(Failure {
                    input: p.input.clone(),
                    implementation: p.implementation.clone(),
                    expected: a.clone(),
                    why: format!("model request: {}", p.request),
                });
            }
        }
    }

    /// Like `compare_with_model`, with the requests spread over `n` driver processes.
    pub fn compare_with_model_par(&mut self, driver: &str, pending: &[Pending], n: usize) {
        if pending.len() < 2000 || n <= 1 {
            return self.compare_with_model(driver, pending);
        }
        let chunk = (pending.len() + n - 1) / n;
        let answers: Vec<Result<Vec<String>, String>> = std::thread::scope(|sc| {
            let hs: Vec<_> = pending
                .chunks(chunk)
                .map(|c| {
                    let reqs: Vec<String> = c.iter().map(|p| p.request.clone()).collect();
                    sc.spawn(move || run_model(driver, &reqs))
                })
                .collect();
            hs.into_iter().map(|h| h.join().unwrap_or_else(|_| Err("model thread panicked".to_string()))).collect()
        });
        for (c, a) in pending.chunks(chunk).zip(answers.into_iter()) {
            match a {
                Err(e) => self.model_error = Some(e),
                Ok(lines) => {
                    self.model_requests += c.len() as u64;
                    self.compare_answers(c, &lines)
                }
            }
        }
    }

    /// Fold the counts and findings of a partial report (one worker's share) into this one.
    pub fn merge(&mut self, other: Report) {
        self.evaluations += other.evaluations;
        self.distinct.extend(other.distinct);
        for s in other.samples {
            self.sample(s);
        }
        for (k, v) in other.dist {
            *self.dist.entry(k).or_insert(0) += v;
        }
        for f in other.oracle_failures {
            if self.oracle_failures.len() < 200 {
                self.oracle_failures.push(f);
            }
        }
        for f in other.disagreements {
            if self.disagreements.len() < 200 {
                self.disagreements.push(f);
            }
        }
        self.model_requests += other.model_requests;
        if self.model_error.is_none() {
            self.model_error = other.model_error;
        }
        self.notes.extend(other.notes);
    }

    pub fn to_json(&self) -> Value {
        let f = |v: &Vec<Failure>| -> Vec<Value> {
            v.iter()
                .map(|x| json!({"input": x.input, "implementation": x.implementation, "expected": x.expected, "why": x.why}))
                .collect()
        };
        json!({
            "facet": self.facet,
            "evaluations": self.evaluations,
            "distinct_nontrivial": self.distinct.len(),
            "rule": self.rule,
            "samples": self.samples,
            "distribution": self.dist,
            "oracle_failures": f(&self.oracle_failures),
            "model_disagreements": f(&self.disagreements),
            "model_requests": self.model_requests,
            "model_error": self.model_error,
            "notes": self.notes,
            "exhaustive": self.exhaustive,
        })
    }
}

thread_local! {
    pub static IN_GUARD: std::cell::Cell<bool> = std::cell::Cell::new(false);
}

/// Run `f` under catch_unwind; a panic becomes the observation "P".
pub fn guarded<F: FnOnce() -> String>(f: F) -> String {
    let prev = IN_GUARD.with(|g| g.replace(true));
    let r = std::panic::catch_unwind(std::panic::AssertUnwindSafe(f));
    IN_GUARD.with(|g| g.set(prev));
    match r {
        Ok(s) => s,
        Err(_) => "P".to_string(),
    }
}
