//! Boundary pools taken from the model's case splits (DESIGN.md §6).
use crate::rng::Rng;
use chrono::{DateTime, TimeDelta, Utc};
use rscel::CelValue;
use std::collections::HashMap;

pub fn ints() -> Vec<i64> {
    let mut v = vec![
        0,
        1,
        -1,
        2,
        -2,
        3,
        7,
        10,
        -10,
        (1 << 31) - 1,
        -(1 << 31) + 1,
        1 << 31,
        -(1 << 31),
        1 << 32,
        -(1 << 32),
        (1 << 53) - 1,
        -(1 << 53) + 1,
        1 << 53,
        -(1 << 53),
        (1 << 53) + 1,
        -(1 << 53) - 1,
        3037000499,
        3037000500,
        -3037000500,
        i64::MAX - 1,
        i64::MAX,
        i64::MIN,
        i64::MIN + 1,
        i64::MAX / 2,
        i64::MAX / 2 + 1,
        i64::MIN / 2,
        i64::MIN / 2 - 1,
    ];
    v.dedup();
    v
}

pub fn uints() -> Vec<u64> {
    vec![
        0,
        1,
        2,
        3,
        10,
        1 << 31,
        1 << 32,
        (1 << 32) - 1,
        4294967296,
        (1 << 53) - 1,
        1 << 53,
        (1 << 53) + 1,
        (1 << 63) - 1,
        1 << 63,
        (1 << 63) + 1,
        u64::MAX - 1,
        u64::MAX,
        u64::MAX / 2,
        u64::MAX / 2 + 1,
    ]
}

pub fn floats() -> Vec<f64> {
    let mut v = vec![
        0.0,
        -0.0,
        f64::from_bits(1),
        -f64::from_bits(1),
        f64::MIN_POSITIVE,
        -f64::MIN_POSITIVE,
        1.0,
        -1.0,
        0.5,
        -0.5,
        1.5,
        -1.5,
        2.5,
        -2.5,
        0.1,
        3.0,
        9007199254740991.0,
        9007199254740992.0,
        9007199254740994.0,
        -9007199254740992.0,
        9223372036854775807.0,
        -9223372036854775808.0,
        9223372036854774784.0,
        18446744073709551615.0,
        18446744073709549568.0,
        4294967296.0,
        f64::MAX,
        f64::MIN,
        f64::INFINITY,
        f64::NEG_INFINITY,
        f64::NAN,
        1e19,
        -1e19,
        1e300,
    ];
    v.dedup_by(|a, b| a.to_bits() == b.to_bits());
    v
}

pub fn strings() -> Vec<&'static str> {
    vec![
        "", "a", "b", "ab", "abc", "A", "é", "日本", "𝄞", "İ", "ß", "a b", " ", "\n", "'", "\"", "\\", "{", "}", "aa",
        "ba", "0", "1", "true",
    ]
}

/// Strings that mean something to a built-in: unit names (with the degree sign), zone names, duration and
/// timestamp text, a broken and a valid regular expression.
pub fn dictionary() -> Vec<&'static str> {
    vec!["°C", "°", "kg", "US/Pacific", "1h30m", "(a", "a+", "2024-02-29T12:00:00+01:00", "a(b)?c", "ac", "(a)|(b)"]
}

pub fn bytes() -> Vec<Vec<u8>> {
    vec![
        vec![],
        vec![0],
        vec![1],
        vec![0x61],
        vec![0x61, 0x62],
        vec![0xff],
        vec![0xc3, 0xa9],
        vec![0x80],
        vec![0, 0],
        vec![0x61, 0],
    ]
}

pub fn timestamps() -> Vec<DateTime<Utc>> {
    let mk = |s: i64, n: u32| DateTime::<Utc>::from_timestamp(s, n).unwrap();
    vec![
        mk(0, 0),
        mk(1, 0),
        mk(-1, 0),
        mk(0, 1),
        mk(-1, 999_999_999),
        mk(951782400, 0),
        mk(951868800, 0),
        mk(1709164800, 500_000_000),
        mk(4102444800, 0),
        mk(-2208988800, 0),
        DateTime::<Utc>::MIN_UTC,
        DateTime::<Utc>::MAX_UTC,
        mk(8210266876799, 0),
        mk(-8334601228800, 1),
    ]
}

pub fn durations() -> Vec<TimeDelta> {
    vec![
        TimeDelta::zero(),
        TimeDelta::nanoseconds(1),
        TimeDelta::nanoseconds(-1),
        TimeDelta::milliseconds(1),
        TimeDelta::milliseconds(-1),
        TimeDelta::seconds(1),
        TimeDelta::seconds(-1),
        TimeDelta::seconds(3600),
        TimeDelta::seconds(86400),
        TimeDelta::seconds(-86400),
        TimeDelta::milliseconds(1500),
        TimeDelta::milliseconds(-1500),
        TimeDelta::MAX,
        TimeDelta::MIN,
        TimeDelta::new(16544868105599, 999_999_999).unwrap(),
        TimeDelta::new(-16544868105600, 0).unwrap(),
    ]
}

pub fn numerics() -> Vec<CelValue> {
    let mut v: Vec<CelValue> = Vec::new();
    v.extend(ints().into_iter().map(CelValue::Int));
    v.extend(uints().into_iter().map(CelValue::UInt));
    v.extend(floats().into_iter().map(CelValue::Float));
    v.push(CelValue::Bool(true));
    v.push(CelValue::Bool(false));
    v
}

pub fn map_of(entries: &[(&str, CelValue)]) -> CelValue {
    let mut m = HashMap::new();
    for (k, v) in entries {
        m.insert(k.to_string(), v.clone());
    }
    CelValue::Map(m)
}

/// Non-numeric values of every other variant.
pub fn others() -> Vec<CelValue> {
    let mut v: Vec<CelValue> = Vec::new();
    v.extend(strings().into_iter().take(12).map(|s| CelValue::String(s.to_string())));
    v.extend(dictionary().into_iter().map(|s| CelValue::String(s.to_string())));
    v.extend(bytes().into_iter().take(6).map(CelValue::from_bytes));
    v.push(CelValue::Null);
    v.push(CelValue::List(vec![]));
    v.push(CelValue::List(vec![CelValue::Int(1)]));
    v.push(CelValue::List(vec![CelValue::Int(1), CelValue::UInt(2)]));
    v.push(CelValue::List(vec![CelValue::String("a".into()), CelValue::Null]));
    v.push(CelValue::List(vec![CelValue::List(vec![CelValue::Float(1.0)])]));
    v.push(map_of(&[]));
    v.push(map_of(&[("a", CelValue::Int(1))]));
    v.push(map_of(&[("a", CelValue::Int(1)), ("b", CelValue::Null)]));
    v.push(map_of(&[("a", CelValue::UInt(1))]));
    v.push(CelValue::Type("int".into()));
    v.push(CelValue::Type("string".into()));
    v.extend(timestamps().into_iter().map(CelValue::TimeStamp));
    v.extend(durations().into_iter().map(CelValue::Duration));
    v.push(CelValue::from_err(rscel::CelError::DivideByZero));
    v.push(CelValue::from_err(rscel::CelError::value("x")));
    v
}

pub fn all_values() -> Vec<CelValue> {
    let mut v = numerics();
    v.extend(others());
    v
}

pub fn random_numeric(rng: &mut Rng) -> CelValue {
    match rng.below(4) {
        0 => CelValue::Int(rng.interesting_u64() as i64),
        1 => CelValue::UInt(rng.interesting_u64()),
        2 => {
            let f = if rng.chance(1, 2) {
                f64::from_bits(rng.next_u64())
            } else {
                (rng.interesting_u64() as i64) as f64 * [1.0, 0.5, 1.5, 1e-3, 1e3][rng.below(5)]
            };
            CelValue::Float(f)
        }
        _ => CelValue::Bool(rng.chance(1, 2)),
    }
}

pub fn type_tag(v: &CelValue) -> &'static str {
    match v {
        CelValue::Int(_) => "int",
        CelValue::UInt(_) => "uint",
        CelValue::Float(_) => "double",
        CelValue::Bool(_) => "bool",
        CelValue::String(_) => "string",
        CelValue::Bytes(_) => "bytes",
        CelValue::List(_) => "list",
        CelValue::Map(_) => "map",
        CelValue::Null => "null",
        CelValue::Ident(_) => "ident",
        CelValue::Type(_) => "type",
        CelValue::TimeStamp(_) => "timestamp",
        CelValue::Duration(_) => "duration",
        CelValue::ByteCode(_) => "bytecode",
        CelValue::Err(_) => "err",
        _ => "other",
    }
}

/// Indices into `all_values()` of a curated subset for the quick tier: every type with its boundary members
/// (so that e.g. a multi-byte string meets the offsets 1, 2, 3 and an int meets MIN / -1 / 0).
pub fn quick_indices() -> Vec<usize> {
    let all = all_values();
    let want = |v: &CelValue| -> bool {
        match v {
            CelValue::Int(i) => [0, 1, -1, 2, 3, i64::MIN, i64::MAX].contains(i),
            CelValue::UInt(u) => [0, 2, u64::MAX].contains(u),
            CelValue::Float(f) => f.is_nan() || f.is_infinite() || [0.0, -1.0, 1.5, 1e300].contains(f),
            CelValue::Bool(_) | CelValue::Null | CelValue::Type(_) | CelValue::Err(_) => true,
            CelValue::String(s) => ["", "a", "ab", "é", "日本", "a b"].contains(&s.as_str()) || dictionary().contains(&s.as_str()),
            CelValue::Bytes(b) => b.len() <= 1 && (b.len() == 0 || b.as_slice()[0] == 0xff || b.as_slice()[0] == 0x61),
            CelValue::List(l) => l.len() <= 1 || matches!(l[0], CelValue::String(_)),
            CelValue::Map(m) => m.len() <= 1 && !m.values().any(|v| matches!(v, CelValue::UInt(_))),
            CelValue::TimeStamp(t) => (t.timestamp() == 0 && t.timestamp_subsec_nanos() == 0) || *t == chrono::DateTime::<Utc>::MIN_UTC || *t == chrono::DateTime::<Utc>::MAX_UTC,
            CelValue::Duration(d) => d.is_zero() || *d == TimeDelta::MAX || *d == TimeDelta::MIN || *d == TimeDelta::milliseconds(-1500),
            _ => false,
        }
    };
    (0..all.len()).filter(|i| want(&all[*i])).collect()
}
