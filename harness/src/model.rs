//! Runs the Lean driver on a batch of request lines and returns one response per line.
use std::io::Write;
use std::process::{Command, Stdio};

pub fn run_model(driver: &str, requests: &[String]) -> Result<Vec<String>, String> {
    if requests.is_empty() {
        return Ok(Vec::new());
    }
    let mut child = Command::new(driver)
        .stdin(Stdio::piped())
        .stdout(Stdio::piped())
        .stderr(Stdio::inherit())
        .spawn()
        .map_err(|e| format!("cannot start model driver {}: {}", driver, e))?;
    let mut stdin = child.stdin.take().unwrap();
    let payload = requests.join("\n") + "\n";
    let writer = std::thread::spawn(move || {
        let _ = stdin.write_all(payload.as_bytes());
    });
    let out = child
        .wait_with_output()
        .map_err(|e| format!("model driver failed: {}", e))?;
    let _ = writer.join();
    if !out.status.success() {
        return Err(format!("model driver exited with {:?}", out.status));
    }
    let text = String::from_utf8_lossy(&out.stdout);
    let lines: Vec<String> = text.lines().map(|s| s.to_string()).collect();
    if lines.len() != requests.len() {
        return Err(format!(
            "model driver answered {} lines for {} requests",
            lines.len(),
            requests.len()
        ));
    }
    Ok(lines)
}
