//! Thin wrappers around the public rscel API, each under catch_unwind.
use crate::report::guarded;
use crate::wire::show_result;
use rscel::{BindContext, CelContext, CelValue};

/// Compile `src` as program "main" and run it with the bindings; observation string.
pub fn exec_src(src: &str, binds: &[(String, CelValue)]) -> String {
    let src = src.to_string();
    let binds: Vec<(String, CelValue)> = binds.to_vec();
    guarded(move || {
        let mut ctx = CelContext::new();
        if let Err(e) = ctx.add_program_str("main", &src) {
            return format!("e:{}", crate::wire::err_kind(&e));
        }
        let mut b = BindContext::new();
        for (k, v) in binds.iter() {
            b.bind_param(k, v.clone());
        }
        show_result(&ctx.exec("main", &b))
    })
}

/// Render a value as CEL source text when it can be spelled (numbers, bools, strings, bytes, null, lists, maps).
pub fn literal(v: &CelValue) -> Option<String> {
    Some(match v {
        CelValue::Int(i) => {
            if *i == i64::MIN {
                "(-9223372036854775807 - 1)".to_string()
            } else if *i < 0 {
                format!("(-{})", -(*i as i128))
            } else {
                format!("{}", i)
            }
        }
        CelValue::UInt(u) => format!("{}u", u),
        CelValue::Float(f) => {
            if f.is_nan() {
                "(0.0/0.0)".to_string()
            } else if *f == f64::INFINITY {
                "(1.0/0.0)".to_string()
            } else if *f == f64::NEG_INFINITY {
                "(-1.0/0.0)".to_string()
            } else if f.is_sign_negative() {
                format!("(-{:?})", -f)
            } else {
                format!("{:?}", f)
            }
        }
        CelValue::Bool(b) => format!("{}", b),
        CelValue::Null => "null".to_string(),
        CelValue::String(s) => {
            let mut o = String::from("'");
            for c in s.chars() {
                match c {
                    '\'' => o.push_str("\\'"),
                    '\\' => o.push_str("\\\\"),
                    '\n' => o.push_str("\\n"),
                    c => o.push(c),
                }
            }
            o.push('\'');
            o
        }
        CelValue::Bytes(b) => {
            let mut o = String::from("b'");
            for x in b.as_slice() {
                o.push_str(&format!("\\x{:02x}", x));
            }
            o.push('\'');
            o
        }
        CelValue::List(l) => {
            let mut parts = Vec::new();
            for x in l {
                parts.push(literal(x)?);
            }
            format!("[{}]", parts.join(", "))
        }
        CelValue::Map(m) => {
            let mut keys: Vec<&String> = m.keys().collect();
            keys.sort();
            let mut parts = Vec::new();
            for k in keys {
                parts.push(format!(
                    "{}: {}",
                    literal(&CelValue::String(k.clone()))?,
                    literal(&m[k])?
                ));
            }
            format!("{{{}}}", parts.join(", "))
        }
        _ => return None,
    })
}
