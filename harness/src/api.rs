//! Thin wrappers around the public rscel API, each under catch_unwind.
use crate::report::guarded;
use crate::wire::show_result;
use rscel::{BindContext, CelContext, CelValue};

/// Compile `src` as program "main" and run it with the bindings; observation string.
pub fn exec_src(src: &str, binds: &[(String, CelValue)]) -> String {
    let src = src.to_string();
    let binds: Vec<(String, CelValue)> = binds.to_vec();
    guarded(move || {
        let mut ctx = CelContext::new();
        if let Err(e) = ctx.add_program_str("main", &src) {
            return format!("e:{}", crate::wire::err_kind(&e));
        }
        let mut b = BindContext::new();
        for (k, v) in binds.iter() {
            b.bind_param(k, v.clone());
        }
        show_result(&ctx.exec("main", &b))
    })
}

/// Render a value as CEL source text when it can be spelled (numbers, bools, strings, bytes, null, lists, maps).
pub fn literal(v: &CelValue) -> Option<String> {
    Some(match v {
        CelValue::Int(i) => {
            if *i == i64::MIN {
                "(-9223372036854775807 - 1)".to_string()
            } else if *i < 0 {
                format!("(-{})", -(*i as i128))
            } else {
                format!("{}", i)
            }
        }
        CelValue::UInt(u) => format!("{}u", u),
        CelValue::Float(f) => {
            if f.is_nan() {
                "(0.0/0.0)".to_string()
            } else if *f == f64::INFINITY {
                "(1.0/0.0)".to_string()
            } else if *f == f64::NEG_INFINITY {
                "(-1.0/0.0)".to_string()
            } else if f.is_sign_negative() {
                format!("(-{:?})", -f)
            } else {
                format!("{:?}", f)
            }
        }
        CelValue::Bool(b) => format!("{}", b),
        CelValue::Null => "null".to_string(),
        CelValue::String(s) => {
            let mut o = String::from("'");
            for c in s.chars() {
                match c {
                    '\'' => o.push_str("\\'"),
                    '\\' => o.push_str("\\\\"),
                    '\n' => o.push_str("\\n"),
                    c => o.push(c),
                }
            }
            o.push('\'');
            o
        }
        CelValue::Bytes(b) => {
            let mut o = String::from("b'");
            for x in b.as_slice() {
                o.push_str(&format!("\\x{:02x}", x));
            }
            o.push('\'');
            o
        }
        CelValue::List(l) => {
            let mut parts = Vec::new();
            for x in l {
                parts.push(literal(x)?);
            }
            format!("[{}]", parts.join(", "))
        }
        CelValue::Map(m) => {
            let mut keys: Vec<&String> = m.keys().collect();
            keys.sort();
            let mut parts = Vec::new();
            for k in keys {
                parts.push(format!(
                    "{}: {}",
                    literal(&CelValue::String(k.clone()))?,
                    literal(&m[k])?
                ));
            }
            format!("{{{}}}", parts.join(", "))
        }
        _ => return None,
    })
}

use rscel::Program;
use std::cell::RefCell;

/// A user function kind for `bind_func`, mirrored by the model's `UserFn`.
#[derive(Clone)]
pub enum UserFn {
    Arg0,
    Const(CelValue),
    Fail,
}

pub struct ExecOut {
    pub obs: String,
    pub log: String,
}

/// Full-featured execution: several named programs, bindings, logged user functions.
/// Returns the observation of `exec(main)` and the call log in wire form.
pub fn exec_full(progs: &[(String, Program)], main: &str, binds: &[(String, CelValue)], users: &[(String, UserFn)]) -> ExecOut {
    let log: std::rc::Rc<RefCell<Vec<String>>> = std::rc::Rc::new(RefCell::new(Vec::new()));
    let obs = {
        let log = log.clone();
        guarded(move || {
            let mut ctx = CelContext::new();
            for (n, p) in progs.iter() {
                ctx.add_program(n, p.clone());
            }
            let closures: Vec<Box<dyn Fn(CelValue, Vec<CelValue>) -> CelValue>> = users
                .iter()
                .map(|(name, kind)| {
                    let name = name.clone();
                    let kind = kind.clone();
                    let log = log.clone();
                    Box::new(move |this: CelValue, args: Vec<CelValue>| {
                        log.borrow_mut().push(format!(
                            "{} {} {}",
                            crate::wire::hex(name.as_bytes()),
                            crate::wire::show_val(&this),
                            crate::wire::show_val(&CelValue::List(args.clone()))
                        ));
                        match &kind {
                            UserFn::Arg0 => args.get(0).cloned().unwrap_or(CelValue::Null),
                            UserFn::Const(v) => v.clone(),
                            UserFn::Fail => CelValue::from_err(rscel::CelError::value("user function failed")),
                        }
                    }) as Box<dyn Fn(CelValue, Vec<CelValue>) -> CelValue>
                })
                .collect();
            let mut b = BindContext::new();
            for (k, v) in binds.iter() {
                b.bind_param(k, v.clone());
            }
            for ((name, _), c) in users.iter().zip(closures.iter()) {
                b.bind_func(name, c.as_ref());
            }
            show_result(&ctx.exec(main, &b))
        })
    };
    let entries = log.borrow().clone();
    ExecOut { obs, log: format!("L:{}{}{}", entries.len(), if entries.is_empty() { "" } else { " " }, entries.join(" ")) }
}

/// Wire form of an environment for the model's `vm` command.
pub fn env_wire(progs: &[(String, Program)], binds: &[(String, CelValue)], users: &[(String, UserFn)]) -> String {
    let mut s = format!("P:{}", binds.len());
    for (k, v) in binds {
        s.push_str(&format!(" {} {}", crate::wire::hex(k.as_bytes()), crate::wire::show_val(v)));
    }
    s.push_str(&format!(" G:{}", progs.len()));
    for (k, p) in progs {
        s.push_str(&format!(" {} {}", crate::wire::hex(k.as_bytes()), code_wire(p)));
    }
    s.push_str(&format!(" U:{}", users.len()));
    for (k, u) in users {
        s.push_str(&format!(" {} ", crate::wire::hex(k.as_bytes())));
        match u {
            UserFn::Arg0 => s.push_str("arg0"),
            UserFn::Const(v) => s.push_str(&format!("const {}", crate::wire::show_val(v))),
            UserFn::Fail => s.push_str("fail value"),
        }
    }
    s
}

pub fn code_wire(p: &Program) -> String {
    let bc = p.bytecode();
    let mut out = format!("c:{}", bc.len());
    for i in bc.iter() {
        out.push(' ');
        crate::wire::write_instr(i, &mut out);
    }
    out
}

/// Compile under catch_unwind.
pub fn compile(src: &str) -> Result<Program, String> {
    let src = src.to_string();
    let mut out: Option<Program> = None;
    let r = {
        let out = &mut out;
        guarded(move || match Program::from_source(&src) {
            Ok(p) => {
                *out = Some(p);
                "ok".to_string()
            }
            Err(e) => format!("e:{}", crate::wire::err_kind(&e)),
        })
    };
    match out {
        Some(p) => Ok(p),
        None => Err(r),
    }
}
