//! Thin wrappers around the public rscel API, each under catch_unwind.
use crate::report::guarded;
use crate::wire::show_result;
use rscel::{BindContext, CelContext, CelValue};

/// Compile `src` as program "main" and run it with the bindings; observation string.
pub fn exec_src(src: &str, binds: &[(String, CelValue)]) -> String {
    let src = src.to_string();
    let binds: Vec<(String, CelValue)> = binds.to_vec();
    guarded(move || {
        let mut ctx = CelContext::new();
        if let Err(e) = ctx.add_program_str("main", &src) {
            return format!("e:{}", crate::wire::err_kind(&e));
        }
        let mut b = BindContext::new();
        for (k, v) in binds.iter() {
            b.bind_param(k, v.clone());
        }
        show_result(&ctx.exec("main", &b))
    })
}

/// Render a value as CEL source text when it can be spelled (numbers, bools, strings, bytes, null, lists, maps).
pub fn literal(v: &CelValue) -> Option<String> {
    Some(match v {
        CelValue::Int(i) => {
            if *i == i64::MIN {
                "(-9223372036854775807 - 1)".to_string()
            } else if *i < 0 {
                format!("(-{})", -(*i as i128))
            } else {
                format!("{}", i)
            }
        }
        CelValue::UInt(u) => format!("{}u", u),
        CelValue::Float(f) => {
            if f.is_nan() {
                "(0.0/0.0)".to_string()
            } else if *f == f64::INFINITY {
                "(1.0/0.0)".to_string()
            } else if *f == f64::NEG_INFINITY {
                "(-1.0/0.0)".to_string()
            } else if f.is_sign_negative() {
                format!("(-{:?})", -f)
            } else {
                format!("{:?}", f)
            }
        }
        CelValue::Bool(b) => format!("{}", b),
        CelValue::Null => "null".to_string(),
        CelValue::String(s) => {
            let mut o = String::from("'");
            for c in s.chars() {
                match c {
                    '\'' => o.push_str("\\'"),
                    '\\' => o.push_str("\\\\"),
                    '\n' => o.push_str("\\n"),
                    c => o.push(c),
                }
            }
            o.push('\'');
            o
        }
        CelValue::Bytes(b) => {
            let mut o = String::from("b'");
            for x in b.as_slice() {
                o.push_str(&format!("\\x{:02x}", x));
            }
            o.push('\'');
            o
        }
        CelValue::List(l) => {
            let mut parts = Vec::new();
            for x in l {
                parts.push(literal(x)?);
            }
            format!("[{}]", parts.join(", "))
        }
        CelValue::Map(m) => {
            let mut keys: Vec<&String> = m.keys().collect();
            keys.sort();
            let mut parts = Vec::new();
            for k in keys {
                parts.push(format!(
                    "{}: {}",
                    literal(&CelValue::String(k.clone()))?,
                    literal(&m[k])?
                ));
            }
            format!("{{{}}}", parts.join(", "))
        }
        _ => return None,
    })
}

use rscel::Program;
use std::cell::RefCell;

/// A user function kind for `bind_func`, mirrored by the model's `UserFn`.
#[derive(Clone)]
pub enum UserFn {
    Arg0,
    Const(CelValue),
    Fail,
}

pub struct ExecOut {
    pub obs: String,
    pub log: String,
}

/// Full-featured execution: several named programs, bindings, logged user functions.
/// Returns the observation of `exec(main)` and the call log in wire form.
pub fn exec_full(progs: &[(String, Program)], main: &str, binds: &[(String, CelValue)], users: &[(String, UserFn)]) -> ExecOut {
    let log: std::rc::Rc<RefCell<Vec<String>>> = std::rc::Rc::new(RefCell::new(Vec::new()));
    let obs = {
        let log = log.clone();
        guarded(move || {
            let mut ctx = CelContext::new();
            for (n, p) in progs.iter() {
                ctx.add_program(n, p.clone());
            }
            let closures: Vec<Box<dyn Fn(CelValue, Vec<CelValue>) -> CelValue>> = users
                .iter()
                .map(|(name, kind)| {
                    let name = name.clone();
                    let kind = kind.clone();
                    let log = log.clone();
                    Box::new(move |this: CelValue, args: Vec<CelValue>| {
                        log.borrow_mut().push(format!(
                            "{} {} {}",
                            crate::wire::hex(name.as_bytes()),
                            crate::wire::show_val(&this),
                            crate::wire::show_val(&CelValue::List(args.clone()))
                        ));
                        match &kind {
                            UserFn::Arg0 => args.get(0).cloned().unwrap_or(CelValue::Null),
                            UserFn::Const(v) => v.clone(),
                            UserFn::Fail => CelValue::from_err(rscel::CelError::value("user function failed")),
                        }
                    }) as Box<dyn Fn(CelValue, Vec<CelValue>) -> CelValue>
                })
                .collect();
            let mut b = BindContext::new();
            for (k, v) in binds.iter() {
                b.bind_param(k, v.clone());
            }
            for ((name, _), c) in users.iter().zip(closures.iter()) {
                b.bind_func(name, c.as_ref());
            }
            show_result(&ctx.exec(main, &b))
        })
    };
    let entries = log.borrow().clone();
    ExecOut { obs, log: format!("L:{}{}{}", entries.len(), if entries.is_empty() { "" } else { " " }, entries.join(" ")) }
}

/// Like `exec_full`, but hands back the value itself (for oracles that fold over results) and the log entries.
pub fn exec_val(progs: &[(String, Program)], main: &str, binds: &[(String, CelValue)], users: &[(String, UserFn)]) -> (Result<CelValue, String>, Vec<String>) {
    let log: std::rc::Rc<RefCell<Vec<String>>> = std::rc::Rc::new(RefCell::new(Vec::new()));
    let val: std::rc::Rc<RefCell<Option<CelValue>>> = std::rc::Rc::new(RefCell::new(None));
    let obs = {
        let log = log.clone();
        let val = val.clone();
        guarded(move || {
            let mut ctx = CelContext::new();
            for (n, p) in progs.iter() {
                ctx.add_program(n, p.clone());
            }
            let closures: Vec<Box<dyn Fn(CelValue, Vec<CelValue>) -> CelValue>> = users
                .iter()
                .map(|(name, kind)| {
                    let name = name.clone();
                    let kind = kind.clone();
                    let log = log.clone();
                    Box::new(move |this: CelValue, args: Vec<CelValue>| {
                        log.borrow_mut().push(format!(
                            "{} {} {}",
                            crate::wire::hex(name.as_bytes()),
                            crate::wire::show_val(&this),
                            crate::wire::show_val(&CelValue::List(args.clone()))
                        ));
                        match &kind {
                            UserFn::Arg0 => args.get(0).cloned().unwrap_or(CelValue::Null),
                            UserFn::Const(v) => v.clone(),
                            UserFn::Fail => CelValue::from_err(rscel::CelError::value("user function failed")),
                        }
                    }) as Box<dyn Fn(CelValue, Vec<CelValue>) -> CelValue>
                })
                .collect();
            let mut b = BindContext::new();
            for (k, v) in binds.iter() {
                b.bind_param(k, v.clone());
            }
            for ((name, _), c) in users.iter().zip(closures.iter()) {
                b.bind_func(name, c.as_ref());
            }
            let r = ctx.exec(main, &b);
            if let Ok(v) = &r {
                *val.borrow_mut() = Some(v.clone());
            }
            show_result(&r)
        })
    };
    let entries = log.borrow().clone();
    let v = val.borrow_mut().take();
    match v {
        Some(v) => (Ok(v), entries),
        None => (Err(obs), entries),
    }
}

/// Wire form of an environment for the model's `vm` command.
pub fn env_wire(progs: &[(String, Program)], binds: &[(String, CelValue)], users: &[(String, UserFn)]) -> String {
    let mut s = format!("P:{}", binds.len());
    for (k, v) in binds {
        s.push_str(&format!(" {} {}", crate::wire::hex(k.as_bytes()), crate::wire::show_val(v)));
    }
    s.push_str(&format!(" G:{}", progs.len()));
    for (k, p) in progs {
        s.push_str(&format!(" {} {}", crate::wire::hex(k.as_bytes()), code_wire(p)));
    }
    s.push_str(&format!(" U:{}", users.len()));
    for (k, u) in users {
        s.push_str(&format!(" {} ", crate::wire::hex(k.as_bytes())));
        match u {
            UserFn::Arg0 => s.push_str("arg0"),
            UserFn::Const(v) => s.push_str(&format!("const {}", crate::wire::show_val(v))),
            UserFn::Fail => s.push_str("fail value"),
        }
    }
    s
}

pub fn code_wire(p: &Program) -> String {
    let bc = p.bytecode();
    let mut out = format!("c:{}", bc.len());
    for i in bc.iter() {
        out.push(' ');
        crate::wire::write_instr(i, &mut out);
    }
    out
}

/// Compile under catch_unwind.
pub fn compile(src: &str) -> Result<Program, String> {
    let src = src.to_string();
    let mut out: Option<Program> = None;
    let r = {
        let out = &mut out;
        guarded(move || match Program::from_source(&src) {
            Ok(p) => {
                *out = Some(p);
                "ok".to_string()
            }
            Err(e) => format!("e:{}", crate::wire::err_kind(&e)),
        })
    };
    match out {
        Some(p) => Ok(p),
        None => Err(r),
    }
}

/// Undo Rust's `{:?}` escaping of a string literal body (without the surrounding quotes).
fn unescape_debug(s: &str) -> String {
    let mut out = String::new();
    let mut it = s.chars().peekable();
    while let Some(c) = it.next() {
        if c != '\\' {
            out.push(c);
            continue;
        }
        match it.next() {
            Some('n') => out.push('\n'),
            Some('r') => out.push('\r'),
            Some('t') => out.push('\t'),
            Some('0') => out.push('\0'),
            Some('\\') => out.push('\\'),
            Some('"') => out.push('"'),
            Some('\'') => out.push('\''),
            Some('u') => {
                let mut hex = String::new();
                it.next(); // {
                while let Some(&h) = it.peek() {
                    it.next();
                    if h == '}' {
                        break;
                    }
                    hex.push(h);
                }
                if let Some(ch) = u32::from_str_radix(&hex, 16).ok().and_then(char::from_u32) {
                    out.push(ch)
                }
            }
            Some(o) => out.push(o),
            None => {}
        }
    }
    out
}

/// Split the top-level items of a Debug list body `A("x"), B("y")` at commas outside quotes.
fn split_debug_items(s: &str) -> Vec<String> {
    let mut items = Vec::new();
    let mut cur = String::new();
    let mut in_str = false;
    let mut esc = false;
    for c in s.chars() {
        if in_str {
            cur.push(c);
            if esc {
                esc = false
            } else if c == '\\' {
                esc = true
            } else if c == '"' {
                in_str = false
            }
        } else if c == '"' {
            in_str = true;
            cur.push(c)
        } else if c == ',' {
            items.push(cur.trim().to_string());
            cur = String::new()
        } else {
            cur.push(c)
        }
    }
    if !cur.trim().is_empty() {
        items.push(cur.trim().to_string())
    }
    items
}

pub fn token_wire(dbg: &str) -> String {
    let simple = [
        ("Question", "?"), ("Colon", ":"), ("Add", "+"), ("Minus", "-"), ("Multiply", "*"), ("Divide", "/"), ("Mod", "%"),
        ("Not", "!"), ("Dot", "."), ("Comma", ","), ("LBracket", "["), ("RBracket", "]"), ("LBrace", "{"), ("RBrace", "}"),
        ("LParen", "("), ("RParen", ")"), ("LessThan", "<"), ("GreaterThan", ">"), ("OrOr", "||"), ("AndAnd", "&&"),
        ("LessEqual", "<="), ("GreaterEqual", ">="), ("EqualEqual", "=="), ("NotEqual", "!="), ("In", "in"), ("Null", "null"),
        ("Match", "match"), ("Case", "case"),
    ];
    for (k, v) in simple.iter() {
        if dbg == *k {
            return v.to_string();
        }
    }
    let inner = |prefix: &str| -> Option<&str> { dbg.strip_prefix(prefix).and_then(|r| r.strip_suffix(')')) };
    if let Some(b) = inner("BoolLit(") {
        return b.to_string();
    }
    if let Some(n) = inner("IntLit(") {
        return format!("int:{}", n);
    }
    if let Some(n) = inner("UIntLit(") {
        return format!("uint:{}", n);
    }
    if let Some(f) = inner("FloatLit(") {
        let v: f64 = f.parse().unwrap_or(f64::NAN);
        return if v.is_nan() { "float:nan".to_string() } else { format!("float:{:016x}", v.to_bits()) };
    }
    if let Some(s) = inner("StringLit(\"").and_then(|r| r.strip_suffix('"')) {
        return format!("str:{}", crate::wire::hex(unescape_debug(s).as_bytes()));
    }
    if let Some(s) = inner("Ident(\"").and_then(|r| r.strip_suffix('"')) {
        return format!("id:{}", crate::wire::hex(unescape_debug(s).as_bytes()));
    }
    if let Some(b) = inner("ByteStringLit(CelBytes { inner: [").and_then(|r| r.strip_suffix("] }")) {
        let bytes: Vec<u8> = b.split(',').filter_map(|x| x.trim().parse().ok()).collect();
        return format!("bytes:{}", crate::wire::hex(&bytes));
    }
    if let Some(l) = inner("FStringLit([").and_then(|r| r.strip_suffix(']')) {
        let items: Vec<String> = split_debug_items(l)
            .into_iter()
            .map(|it| {
                if let Some(s) = it.strip_prefix("Lit(\"").and_then(|r| r.strip_suffix("\")")) {
                    format!("L{}", crate::wire::hex(unescape_debug(s).as_bytes()))
                } else if let Some(s) = it.strip_prefix("Expr(\"").and_then(|r| r.strip_suffix("\")")) {
                    format!("E{}", crate::wire::hex(unescape_debug(s).as_bytes()))
                } else {
                    format!("?{}", it)
                }
            })
            .collect();
        return format!("fstr:{}", items.join(","));
    }
    format!("unknown:{}", dbg)
}

/// Token stream of the real `StringTokenizer` in the model's `lex` output format.
pub fn lex_obs(src: &str) -> String {
    use rscel::{StringTokenizer, Tokenizer};
    let src = src.to_string();
    guarded(move || {
        let mut t = StringTokenizer::with_input(&src);
        let mut toks = Vec::new();
        loop {
            match t.next() {
                Ok(Some(tok)) => {
                    let loc = tok.loc;
                    toks.push(format!(
                        "{}@{}:{}-{}:{}",
                        token_wire(&format!("{:?}", tok.token)),
                        loc.start().line(),
                        loc.start().col(),
                        loc.end().line(),
                        loc.end().col()
                    ));
                }
                Ok(None) => break,
                Err(e) => return format!("E {}:{}", e.loc().line(), e.loc().col()),
            }
            if toks.len() > 100_000 {
                return "runaway".to_string();
            }
        }
        if toks.is_empty() {
            "T:0".to_string()
        } else {
            format!("T:{} {}", toks.len(), toks.join(" "))
        }
    })
}

/// Replace every `{"FloatingLit": x}` by `{"FloatingLit": "<hex bits>"}` so doubles compare exactly.
fn canon_floats(v: &mut serde_json::Value) {
    match v {
        serde_json::Value::Object(m) => {
            if let Some(f) = m.get_mut("FloatingLit") {
                let bits = match f {
                    serde_json::Value::Number(n) => n.as_f64().map(|x| x.to_bits()),
                    _ => None,
                };
                *f = match bits {
                    Some(b) if !f64::from_bits(b).is_nan() => serde_json::Value::String(format!("{:016x}", b)),
                    _ => serde_json::Value::String("nonfinite".to_string()),
                };
            }
            for (_, x) in m.iter_mut() {
                canon_floats(x)
            }
        }
        serde_json::Value::Array(a) => {
            for x in a.iter_mut() {
                canon_floats(x)
            }
        }
        _ => {}
    }
}

/// The real AST as canonical JSON text ("E" for a syntax error, "P" for a panic).
pub fn ast_obs(src: &str) -> String {
    ast_obs_value(src).0
}

/// `ast_obs` together with the JSON value it was printed from (deep trees exceed the recursion limit of
/// `serde_json::from_str`, so consumers that walk the tree take the value).
pub fn ast_obs_value(src: &str) -> (String, Option<serde_json::Value>) {
    match compile(src) {
        Err(e) => {
            if e == "P" {
                ("P".to_string(), None)
            } else {
                ("E".to_string(), None)
            }
        }
        Ok(p) => match p.ast() {
            None => ("no-ast".to_string(), None),
            Some(a) => {
                let mut v = serde_json::to_value(a).unwrap_or(serde_json::Value::Null);
                canon_floats(&mut v);
                (v.to_string(), Some(v))
            }
        },
    }
}
