//! Canonical text form of values / bytecode shared with the Lean driver (see Driver/Wire.lean).
use rscel::{ByteCode, CelError, CelResult, CelValue};

pub fn hex(bytes: &[u8]) -> String {
    if bytes.is_empty() {
        // the empty string is written `_` so that it survives splitting on spaces
        return "_".to_string();
    }
    let mut s = String::with_capacity(bytes.len() * 2);
    for b in bytes {
        s.push_str(&format!("{:02x}", b));
    }
    s
}

pub fn err_kind(e: &CelError) -> &'static str {
    match e {
        CelError::Misc(_) => "misc",
        CelError::Syntax(_) => "syntax",
        CelError::Value(_) => "value",
        CelError::Argument(_) => "argument",
        CelError::InvalidOp(_) => "invalidOp",
        CelError::Runtime(_) => "runtime",
        CelError::Binding { .. } => "binding",
        CelError::Attribute { .. } => "attribute",
        CelError::DivideByZero => "divZero",
        CelError::Internal(_) => "internal",
    }
}

pub fn show_val(v: &CelValue) -> String {
    let mut out = String::new();
    write_val(v, &mut out);
    out
}

fn write_val(v: &CelValue, out: &mut String) {
    match v {
        CelValue::Int(i) => out.push_str(&format!("i:{}", i)),
        CelValue::UInt(u) => out.push_str(&format!("u:{}", u)),
        CelValue::Float(f) => {
            if f.is_nan() {
                out.push_str("f:nan")
            } else {
                out.push_str(&format!("f:{:016x}", f.to_bits()))
            }
        }
        CelValue::Bool(b) => out.push_str(if *b { "b:1" } else { "b:0" }),
        CelValue::String(s) => out.push_str(&format!("s:{}", hex(s.as_bytes()))),
        CelValue::Bytes(b) => out.push_str(&format!("y:{}", hex(b.as_slice()))),
        CelValue::List(l) => {
            out.push_str(&format!("l:{}", l.len()));
            for x in l {
                out.push(' ');
                write_val(x, out);
            }
        }
        CelValue::Map(m) => {
            let mut keys: Vec<&String> = m.keys().collect();
            keys.sort();
            out.push_str(&format!("m:{}", keys.len()));
            for k in keys {
                out.push(' ');
                out.push_str(&hex(k.as_bytes()));
                out.push(' ');
                write_val(&m[k], out);
            }
        }
        CelValue::Null => out.push('n'),
        CelValue::Ident(s) => out.push_str(&format!("id:{}", hex(s.as_bytes()))),
        CelValue::Type(s) => out.push_str(&format!("t:{}", hex(s.as_bytes()))),
        CelValue::TimeStamp(t) => {
            let n = t.timestamp() as i128 * 1_000_000_000 + t.timestamp_subsec_nanos() as i128;
            out.push_str(&format!("ts:{}", n))
        }
        CelValue::Duration(d) => {
            let n = d.num_seconds() as i128 * 1_000_000_000 + d.subsec_nanos() as i128;
            out.push_str(&format!("d:{}", n))
        }
        CelValue::ByteCode(bc) => {
            out.push_str(&format!("c:{}", bc.len()));
            for i in bc.iter() {
                out.push(' ');
                write_instr(i, out);
            }
        }
        CelValue::Err(e) => out.push_str(&format!("e:{}", err_kind(e))),
        _ => out.push_str("unsupported"),
    }
}

pub fn write_instr(i: &ByteCode, out: &mut String) {
    use ByteCode::*;
    match i {
        Push(v) => {
            out.push_str("PUSH ");
            write_val(v, out)
        }
        Pop => out.push_str("POP"),
        Test => out.push_str("TEST"),
        Dup => out.push_str("DUP"),
        Or => out.push_str("OR"),
        And => out.push_str("AND"),
        Not => out.push_str("NOT"),
        Neg => out.push_str("NEG"),
        Add => out.push_str("ADD"),
        Sub => out.push_str("SUB"),
        Mul => out.push_str("MUL"),
        Div => out.push_str("DIV"),
        Mod => out.push_str("MOD"),
        Lt => out.push_str("LT"),
        Le => out.push_str("LE"),
        Eq => out.push_str("EQ"),
        Ne => out.push_str("NE"),
        Ge => out.push_str("GE"),
        Gt => out.push_str("GT"),
        In => out.push_str("IN"),
        Jmp(d) => out.push_str(&format!("JMP:{}", d)),
        JmpCond { when, dist } => out.push_str(&format!(
            "{}:{}",
            if when.as_bool() { "JT" } else { "JF" },
            dist
        )),
        MkList(n) => out.push_str(&format!("MKLIST:{}", n)),
        MkDict(n) => out.push_str(&format!("MKDICT:{}", n)),
        Index => out.push_str("INDEX"),
        Access => out.push_str("ACCESS"),
        Call(n) => out.push_str(&format!("CALL:{}", n)),
        FmtString(n) => out.push_str(&format!("FMT:{}", n)),
    }
}

pub fn show_result(r: &CelResult<CelValue>) -> String {
    match r {
        Ok(v) => show_val(v),
        Err(e) => format!("e:{}", err_kind(e)),
    }
}

/// L1 canonicalisation: any error ↦ "E".
pub fn l1(s: &str) -> String {
    if s.starts_with("e:") {
        "E".to_string()
    } else {
        s.to_string()
    }
}

/// C08 canonicalisation: a value, an absence failure (Binding / Attribute), or any other failure.
pub fn l2_absent(s: &str) -> String {
    if s == "e:binding" || s == "e:attribute" {
        "E:absent".to_string()
    } else if s.starts_with("e:") {
        "E:other".to_string()
    } else {
        s.to_string()
    }
}
