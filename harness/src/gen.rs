//! Typed random expression generator over rscel's grammar (DESIGN.md §6).
//! Produces mostly well-typed source text over a fixed set of variable names, with a small
//! rate of deliberately ill-typed / failing / unbound sub-expressions.
use crate::rng::Rng;
use rscel::CelValue;

#[derive(Clone, Copy, PartialEq, Debug)]
pub enum Ty {
    Int,
    UInt,
    Double,
    Str,
    Bool,
    List,
    Map,
    Any,
}

pub struct Gen<'a> {
    pub rng: &'a mut Rng,
    pub macros: bool,
    pub calls: bool,
    pub fstrings: bool,
    pub matches: bool,
    pub doubles: bool,
    pub ticks: bool,
    pub noise: u64, // per-mille rate of type noise
    pub loop_vars: Vec<String>,
}

const INT_VARS: [&str; 3] = ["x", "y", "z"];
const LIST_VARS: [&str; 2] = ["l", "e"];

/// The standard bindings the generated programs are run under (variant `k` perturbs the values).
pub fn std_bindings(k: u64) -> Vec<(String, CelValue)> {
    let mut r = Rng::new(k.wrapping_mul(7919).wrapping_add(13));
    let ints: [i64; 8] = [7, -3, 0, 1, 2, i64::MAX, i64::MIN, 100];
    let pick = |r: &mut Rng, base: i64| if k == 0 { base } else { ints[r.below(8)] };
    let x = pick(&mut r, 7);
    let y = pick(&mut r, -3);
    let z = pick(&mut r, 0);
    let mut inner = std::collections::HashMap::new();
    inner.insert("c".to_string(), CelValue::Int(2));
    let mut m = std::collections::HashMap::new();
    m.insert("a".to_string(), CelValue::Int(1));
    m.insert("b".to_string(), CelValue::Map(inner));
    m.insert("k".to_string(), CelValue::Null);
    vec![
        ("x".into(), CelValue::Int(x)),
        ("y".into(), CelValue::Int(y)),
        ("z".into(), CelValue::Int(z)),
        ("u".into(), CelValue::UInt(if k % 3 == 2 { u64::MAX } else { 5 })),
        ("d".into(), CelValue::Float(if k % 4 == 3 { f64::NAN } else { 2.5 })),
        ("s".into(), CelValue::String("héllo".into())),
        ("t".into(), CelValue::String("".into())),
        ("b".into(), CelValue::Bool(true)),
        ("f".into(), CelValue::Bool(k % 2 == 1)),
        ("l".into(), CelValue::List(vec![CelValue::Int(1), CelValue::Int(2), CelValue::Int(3)])),
        ("e".into(), CelValue::List(vec![])),
        ("m".into(), CelValue::Map(m)),
        ("n".into(), CelValue::Null),
    ]
}

impl<'a> Gen<'a> {
    pub fn new(rng: &'a mut Rng) -> Gen<'a> {
        Gen { rng, macros: true, calls: true, fstrings: true, matches: true, doubles: false, ticks: true, noise: 40, loop_vars: Vec::new() }
    }

    fn noisy(&mut self) -> bool {
        self.rng.chance(self.noise, 1000)
    }

    pub fn expr(&mut self, depth: u32, want: Ty) -> String {
        let want = if self.noisy() { *self.rng.pick(&[Ty::Int, Ty::Str, Ty::Bool, Ty::List, Ty::Map, Ty::UInt]) } else { want };
        if depth == 0 {
            return self.atom(want);
        }
        match want {
            Ty::Int => self.int_expr(depth),
            Ty::UInt => self.uint_expr(depth),
            Ty::Double => self.double_expr(depth),
            Ty::Str => self.str_expr(depth),
            Ty::Bool => self.bool_expr(depth),
            Ty::List => self.list_expr(depth),
            Ty::Map => self.map_expr(depth),
            Ty::Any => {
                let t = *self.rng.pick(&[Ty::Int, Ty::Int, Ty::Str, Ty::Bool, Ty::Bool, Ty::List, Ty::Map, Ty::UInt]);
                self.expr(depth, t)
            }
        }
    }

    pub fn atom(&mut self, want: Ty) -> String {
        let lv = if !self.loop_vars.is_empty() && self.rng.chance(1, 3) { Some(self.rng.pick(&self.loop_vars.clone()).clone()) } else { None };
        match want {
            Ty::Int => match self.rng.below(9) {
                0..=2 => self.rng.pick(&INT_VARS).to_string(),
                3 => lv.unwrap_or_else(|| "x".into()),
                4 => "0".into(),
                5 => format!("{}", self.rng.below(10)),
                6 => "q".into(), // unbound
                7 => "(1/0)".into(),
                _ => format!("{}", self.rng.range(-5, 40)).replace('-', "-"),
            },
            Ty::UInt => match self.rng.below(3) {
                0 => "u".into(),
                1 => format!("{}u", self.rng.below(10)),
                _ => "0u".into(),
            },
            Ty::Double => match self.rng.below(3) {
                0 => "d".into(),
                1 => "1.5".into(),
                _ => "0.0".into(),
            },
            Ty::Str => match self.rng.below(6) {
                0 => "s".into(),
                1 => "t".into(),
                2 => "'a'".into(),
                3 => "\"b c\"".into(),
                4 => "''".into(),
                _ => "'é'".into(),
            },
            Ty::Bool => match self.rng.below(6) {
                0 => "b".into(),
                1 => "f".into(),
                2 => "true".into(),
                3 => "false".into(),
                4 => lv.unwrap_or_else(|| "b".into()),
                _ => "q".into(),
            },
            Ty::List => match self.rng.below(4) {
                0 => "l".into(),
                1 => "e".into(),
                2 => "[]".into(),
                _ => "[1, 2]".into(),
            },
            Ty::Map => match self.rng.below(3) {
                0 => "m".into(),
                1 => "{}".into(),
                _ => "{'a': 1}".into(),
            },
            Ty::Any => {
                if self.rng.chance(1, 6) {
                    "null".into()
                } else if self.rng.chance(1, 6) {
                    "n".into()
                } else {
                    let t = *self.rng.pick(&[Ty::Int, Ty::Str, Ty::Bool, Ty::List, Ty::Map, Ty::UInt]);
                    self.atom(t)
                }
            }
        }
    }

    fn tick(&mut self, inner: String) -> String {
        if self.ticks && self.rng.chance(1, 6) {
            format!("tick({})", inner)
        } else {
            inner
        }
    }

    fn int_expr(&mut self, depth: u32) -> String {
        let d = depth - 1;
        let r = match self.rng.below(14) {
            0 | 1 => format!("({} + {})", self.expr(d, Ty::Int), self.expr(d, Ty::Int)),
            2 => format!("({} - {})", self.expr(d, Ty::Int), self.expr(d, Ty::Int)),
            3 => format!("({} * {})", self.expr(d, Ty::Int), self.expr(d, Ty::Int)),
            4 => format!("({} / {})", self.expr(d, Ty::Int), self.expr(d, Ty::Int)),
            5 => format!("({} % {})", self.expr(d, Ty::Int), self.expr(d, Ty::Int)),
            6 => format!("-{}", self.expr(d, Ty::Int)),
            7 => format!("({} ? {} : {})", self.expr(d, Ty::Bool), self.expr(d, Ty::Int), self.expr(d, Ty::Int)),
            8 => format!("{}[{}]", self.expr(d, Ty::List), self.small_index()),
            9 if self.calls => match self.rng.below(4) {
                0 => format!("int({})", self.expr(d, Ty::UInt)),
                1 => format!("min({}, {})", self.expr(d, Ty::Int), self.expr(d, Ty::Int)),
                2 => format!("max({}, {}, {})", self.expr(d, Ty::Int), self.expr(d, Ty::Int), self.expr(d, Ty::Int)),
                _ => format!("int({})", self.expr(d, Ty::Str)),
            },
            10 if self.macros => {
                let v = self.fresh_var();
                self.loop_vars.push(v.clone());
                let acc = "acc".to_string();
                self.loop_vars.push(acc.clone());
                let body = self.expr(d, Ty::Int);
                self.loop_vars.pop();
                self.loop_vars.pop();
                format!("{}.reduce({}, {}, {}, {})", self.expr(d, Ty::List), acc, v, body, self.expr(d, Ty::Int))
            }
            11 => format!("m.a"),
            12 if self.matches => format!(
                "(match {} {{ case {}: {}, case int: {}, case _: {} }})",
                self.expr(d, Ty::Any),
                self.match_pattern(d),
                self.expr(d, Ty::Int),
                self.expr(d, Ty::Int),
                self.expr(d, Ty::Int)
            ),
            _ => self.atom(Ty::Int),
        };
        self.tick(r)
    }

    fn match_pattern(&mut self, d: u32) -> String {
        match self.rng.below(6) {
            0 => format!("== {}", self.expr(d.min(1), Ty::Int)),
            1 => format!("> {}", self.expr(d.min(1), Ty::Int)),
            2 => format!("<= {}", self.expr(d.min(1), Ty::Int)),
            3 => "string".into(),
            4 => "bool".into(),
            _ => format!("{}", self.expr(d.min(1), Ty::Any)),
        }
    }

    fn small_index(&mut self) -> String {
        match self.rng.below(6) {
            0 => "0".into(),
            1 => "1".into(),
            2 => "-1".into(),
            3 => "5".into(),
            4 => "1u".into(),
            _ => self.expr(1, Ty::Int),
        }
    }

    fn uint_expr(&mut self, depth: u32) -> String {
        let d = depth - 1;
        match self.rng.below(6) {
            0 => format!("({} + {})", self.expr(d, Ty::UInt), self.expr(d, Ty::UInt)),
            1 => format!("({} * {})", self.expr(d, Ty::UInt), self.expr(d, Ty::UInt)),
            2 if self.calls => format!("size({})", self.expr(d, Ty::List)),
            3 if self.calls => format!("{}.size()", self.expr(d, Ty::Str)),
            4 if self.calls => format!("uint({})", self.expr(d, Ty::Int)),
            _ => self.atom(Ty::UInt),
        }
    }

    fn double_expr(&mut self, depth: u32) -> String {
        let d = depth - 1;
        match self.rng.below(4) {
            0 => format!("({} + {})", self.expr(d, Ty::Double), self.expr(d, Ty::Int)),
            1 => format!("({} * {})", self.expr(d, Ty::Double), self.expr(d, Ty::Double)),
            2 if self.calls => format!("double({})", self.expr(d, Ty::Int)),
            _ => self.atom(Ty::Double),
        }
    }

    fn str_expr(&mut self, depth: u32) -> String {
        let d = depth - 1;
        match self.rng.below(8) {
            0 | 1 => format!("({} + {})", self.expr(d, Ty::Str), self.expr(d, Ty::Str)),
            2 if self.calls => format!("string({})", self.expr(d, Ty::Int)),
            3 if self.fstrings => {
                let e1 = self.expr(d.min(2), Ty::Int);
                let e2 = self.expr(d.min(1), Ty::Str);
                format!("f'a{{{}}}b{{{{}}}}{{{}}}'", e1.replace('\'', "\""), e2.replace('\'', "\""))
            }
            4 => format!("({} ? {} : {})", self.expr(d, Ty::Bool), self.expr(d, Ty::Str), self.expr(d, Ty::Str)),
            5 if self.calls => format!("string({})", self.expr(d, Ty::UInt)),
            _ => self.atom(Ty::Str),
        }
    }

    fn fresh_var(&mut self) -> String {
        // sometimes shadow an outer variable or re-use an enclosing loop variable's name
        match self.rng.below(5) {
            0 => "x".into(),
            1 if !self.loop_vars.is_empty() => self.loop_vars[0].clone(),
            _ => format!("v{}", self.loop_vars.len()),
        }
    }

    fn bool_expr(&mut self, depth: u32) -> String {
        let d = depth - 1;
        let r = match self.rng.below(18) {
            0 | 1 => format!("({} || {})", self.expr(d, Ty::Bool), self.expr(d, Ty::Bool)),
            2 | 3 => format!("({} && {})", self.expr(d, Ty::Bool), self.expr(d, Ty::Bool)),
            4 => format!("!{}", self.expr(d, Ty::Bool)),
            5 => {
                let op = *self.rng.pick(&["<", "<=", ">", ">=", "==", "!="]);
                format!("({} {} {})", self.expr(d, Ty::Int), op, self.expr(d, Ty::Int))
            }
            6 => format!("({} == {})", self.expr(d, Ty::Any), self.expr(d, Ty::Any)),
            7 => format!("({} in {})", self.expr(d, Ty::Int), self.expr(d, Ty::List)),
            8 => format!("({} in {})", self.expr(d, Ty::Str), self.expr(d, Ty::Map)),
            9 => format!("({} ? {} : {})", self.expr(d, Ty::Any), self.expr(d, Ty::Bool), self.expr(d, Ty::Bool)),
            10 if self.macros => {
                let v = self.fresh_var();
                self.loop_vars.push(v.clone());
                let body = self.expr(d, Ty::Bool);
                self.loop_vars.pop();
                let m = *self.rng.pick(&["all", "exists", "exists_one"]);
                format!("{}.{}({}, {})", self.expr(d, Ty::List), m, v, body)
            }
            11 if self.macros => match self.rng.below(4) {
                0 => "has(m.a)".into(),
                1 => "has(m.b.c)".into(),
                2 => "has(m.zz.c)".into(),
                _ => format!("has({})", self.expr(d, Ty::Any)),
            },
            12 if self.calls => format!("bool({})", self.expr(d, Ty::Any)),
            13 => format!("({} < {})", self.expr(d, Ty::Str), self.expr(d, Ty::Str)),
            14 => format!("({} || {} || {})", self.expr(d, Ty::Bool), self.expr(d, Ty::Any), self.expr(d, Ty::Bool)),
            15 => format!("({} && {} && {})", self.expr(d, Ty::Bool), self.expr(d, Ty::Any), self.expr(d, Ty::Bool)),
            _ => self.atom(Ty::Bool),
        };
        self.tick(r)
    }

    fn list_expr(&mut self, depth: u32) -> String {
        let d = depth - 1;
        match self.rng.below(9) {
            0 | 1 => {
                let n = self.rng.below(4);
                let items: Vec<String> = (0..n).map(|_| self.expr(d, Ty::Int)).collect();
                format!("[{}]", items.join(", "))
            }
            2 => format!("({} + {})", self.expr(d, Ty::List), self.expr(d, Ty::List)),
            3 if self.macros => {
                let v = self.fresh_var();
                self.loop_vars.push(v.clone());
                let body = self.expr(d, Ty::Int);
                self.loop_vars.pop();
                format!("{}.map({}, {})", self.expr(d, Ty::List), v, body)
            }
            4 if self.macros => {
                let v = self.fresh_var();
                self.loop_vars.push(v.clone());
                let body = self.expr(d, Ty::Bool);
                self.loop_vars.pop();
                format!("{}.filter({}, {})", self.expr(d, Ty::List), v, body)
            }
            5 if self.macros => {
                let v = self.fresh_var();
                self.loop_vars.push(v.clone());
                let p = self.expr(d, Ty::Bool);
                let body = self.expr(d, Ty::Any);
                self.loop_vars.pop();
                format!("{}.map({}, {}, {})", self.expr(d, Ty::List), v, p, body)
            }
            6 if self.calls => format!("{}.sort()", self.expr(d, Ty::List)),
            7 if self.macros => {
                let v = self.fresh_var();
                format!("{}.map({}, {})", self.expr(d, Ty::Map), v, v)
            }
            _ => self.atom(Ty::List),
        }
    }

    fn map_expr(&mut self, depth: u32) -> String {
        let d = depth - 1;
        match self.rng.below(5) {
            0 | 1 => {
                let n = self.rng.below(4);
                let items: Vec<String> = (0..n)
                    .map(|i| {
                        // mostly string keys (with repeats); now and then a key that is not a string, never first:
                        // the map is then a failure, and the VM must still consume every entry
                        let k = if i > 0 && self.rng.chance(1, 12) { *self.rng.pick(&["1", "x", "n", "true", "[1]"]) } else { *self.rng.pick(&["'a'", "'b'", "'a'", "s", "'k'"]) };
                        format!("{}: {}", k, self.expr(d, Ty::Any))
                    })
                    .collect();
                format!("{{{}}}", items.join(", "))
            }
            2 => "m.b".into(),
            3 if self.macros => format!("coalesce(n, m.zz, {})", self.expr(d, Ty::Map)),
            _ => self.atom(Ty::Map),
        }
    }
}
