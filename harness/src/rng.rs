//! Deterministic PRNG (splitmix64); every random choice in the harness derives from one seed.
#[derive(Clone)]
pub struct Rng(pub u64);

impl Rng {
    pub fn new(seed: u64) -> Rng {
        Rng(seed ^ 0x9E37_79B9_7F4A_7C15)
    }
    pub fn next_u64(&mut self) -> u64 {
        self.0 = self.0.wrapping_add(0x9E37_79B9_7F4A_7C15);
        let mut z = self.0;
        z = (z ^ (z >> 30)).wrapping_mul(0xBF58_476D_1CE4_E5B9);
        z = (z ^ (z >> 27)).wrapping_mul(0x94D0_49BB_1331_11EB);
        z ^ (z >> 31)
    }
    pub fn below(&mut self, n: usize) -> usize {
        if n == 0 {
            0
        } else {
            (self.next_u64() % n as u64) as usize
        }
    }
    pub fn range(&mut self, lo: i64, hi: i64) -> i64 {
        lo + (self.next_u64() % ((hi - lo + 1) as u64)) as i64
    }
    pub fn chance(&mut self, num: u64, den: u64) -> bool {
        self.next_u64() % den < num
    }
    pub fn pick<'a, T>(&mut self, xs: &'a [T]) -> &'a T {
        &xs[self.below(xs.len())]
    }
    /// 64-bit value with a bias towards boundaries and small magnitudes.
    pub fn interesting_u64(&mut self) -> u64 {
        match self.below(6) {
            0 => self.next_u64(),
            1 => self.next_u64() >> self.below(64),
            2 => (1u64 << self.below(64)).wrapping_add(self.range(-2, 2) as u64),
            3 => u64::MAX - (self.next_u64() >> self.below(64).max(40)),
            4 => self.below(16) as u64,
            _ => (i64::MAX as u64).wrapping_add(self.range(-3, 3) as u64),
        }
    }
}
