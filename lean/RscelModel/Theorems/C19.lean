import RscelModel.Lemmas.SerdeBin
import RscelModel.Lemmas.SerdeJson
import RscelModel.Model.Builtins
/-
C19 — a compiled program serialised to JSON or to bincode and read back behaves exactly like the original.

Model: `Model/Serde.lean` (the serde image `CProg` of `Program`, `encBin`/`decBin` for bincode 1.3 defaults,
`encJ`/`decJ` for the `serde_json::Value` tree, the enum layouts with the index written and the index
accepted, the projection `vmCode` to the VM model).

  1. `layout_consistent` — for every variant of `CelValue`, `ByteCode`, `CelError`, `JmpWhen` that is
     serialised, the index written is the index the derived deserialiser maps back to that variant, and the
     name written is the name it maps back; `pinned_layout_inconsistent`: with `Err` declared after the
     skipped variants (the pinned tree) the index written for `Err` selects no variant.
  2. `bin_roundtrip`, `json_roundtrip` — decoding the encoding of any program whose components are within
     the ranges of their Rust types yields the program with its time constants at millisecond resolution
     (and, for JSON, NaN payloads collapsed); for all programs: every value variant, every instruction,
     error constants with payload, arbitrarily nested lists, maps and code blocks.
  3. `msTrunc_id` — nothing changes for a program whose time constants are whole milliseconds.
  4. `bin_same_behaviour`, `json_same_behaviour` — such a program reads back with the same source, the same
     parameters and bytecode that the VM model evaluates to the same result and call log in every
     environment.

Serialisation cannot fail in the model because `CVal` has no `Dyn`/`Message`/`Enum` variant; that the real
compiler never folds such a constant is checked on every generated program by the harness (serialisation
must succeed), not proved.
-/
namespace Rscel
namespace C19
open Rscel.Serde

/-! ### 1. Layout -/

/-- The index written for a variant is the index the derived deserialiser resolves to the same variant, and
    likewise the name (JSON), for all variants that are not skipped — of all four enums. -/
theorem layout_consistent :
    (∀ v ∈ valueLayout, v.skipSer = false →
      deTag valueLayout (declIdx valueLayout v.tag) = some v.tag ∧
      tagOfName valueLayout (nameOf valueLayout v.tag) = some v.tag) ∧
    (∀ v ∈ instrLayout, v.skipSer = false →
      deTag instrLayout (declIdx instrLayout v.tag) = some v.tag ∧
      tagOfName instrLayout (nameOf instrLayout v.tag) = some v.tag) ∧
    (∀ v ∈ errLayout, v.skipSer = false →
      deTag errLayout (declIdx errLayout v.tag) = some v.tag ∧
      tagOfName errLayout (nameOf errLayout v.tag) = some v.tag) ∧
    (∀ v ∈ whenLayout, v.skipSer = false →
      deTag whenLayout (declIdx whenLayout v.tag) = some v.tag ∧
      tagOfName whenLayout (nameOf whenLayout v.tag) = some v.tag) := by
  decide

/-- No skipped variant is ever asked for: the serialised values have none (`CVal` is the image). -/
theorem skipped_are_last :
    (valueLayout.map (·.skipDe)) = List.replicate 15 false ++ List.replicate 3 true := by decide

/-- The pinned declaration order (`Err` after `Message`, `Enum`, `Dyn`): `Err` is written with index 17,
    the deserialiser knows 15 indices and expects `Err` at 14 — a program holding an error constant cannot
    be read back from bincode. -/
theorem pinned_layout_inconsistent :
    declIdx valueLayoutPinned .vErr = 17 ∧
    deTag valueLayoutPinned (declIdx valueLayoutPinned .vErr) = none ∧
    deTag valueLayoutPinned 14 = some .vErr := by
  decide

/-! ### 2. Round trips -/

/-- bincode: every program within the ranges of its Rust types reads back as itself, time constants at
    millisecond resolution. -/
theorem bin_roundtrip (p : CProg) (h : p.fits = true) : decBin (encBin p) = some (msTrunc p) := by
  have hf : depthIs p.code ≤ (encBin p).length := by
    have := depthIs_le_len p.code
    simp only [encBin, List.length_append]; omega
  have := decProg_enc p h (encBin p).length hf []
  simpa [decBin] using this

/-- `bincode::deserialize` ignores trailing bytes. -/
theorem bin_roundtrip_trailing (p : CProg) (h : p.fits = true) (extra : List UInt8) :
    decBin (encBin p ++ extra) = some (msTrunc p) := by
  have hf : depthIs p.code ≤ (encBin p ++ extra).length := by
    have := depthIs_le_len p.code
    simp only [encBin, List.length_append]; omega
  exact decProg_enc p h _ hf extra

/-- JSON value tree: as above, and every NaN reads back as the one NaN. -/
theorem json_roundtrip (p : CProg) (h : p.fits = true) : decJ (encJ p) = some (jsonNorm p) :=
  decJProg_enc p h _ (encJ_size p)

/-! ### 3. Millisecond resolution is a fixed point -/

theorem tsMs_id (n : Int) (h : n % 1000000 = 0) : tsMs n * 1000000 = n := by
  unfold tsMs; omega

theorem durMs_id (n : Int) (h : n % 1000000 = 0) : durMs n * 1000000 = n := by
  unfold durMs; split <;> omega

mutual
theorem msV_id : ∀ v : CVal, msResV v = true → msV v = v
  | .ts n, h => by simp only [msResV, decide_eq_true_eq] at h; simp [msV, tsMs_id n h]
  | .dur n, h => by simp only [msResV, decide_eq_true_eq] at h; simp [msV, durMs_id n h]
  | .list l, h => by simp only [msResV] at h; simp [msV, msVs_id l h]
  | .map m, h => by simp only [msResV] at h; simp [msV, msEs_id m h]
  | .code c, h => by simp only [msResV] at h; simp [msV, msIs_id c h]
  | .int _, _ | .uint _, _ | .float _, _ | .bool _, _ | .str _, _ | .bytes _, _ | .null, _ | .ident _, _
  | .type _, _ | .err _, _ => by simp [msV]
theorem msVs_id : ∀ l : List CVal, msResVs l = true → msVs l = l
  | [], _ => rfl
  | v :: vs, h => by
    simp only [msResVs, Bool.and_eq_true] at h
    simp [msVs, msV_id v h.1, msVs_id vs h.2]
theorem msEs_id : ∀ m : List (Str × CVal), msResEs m = true → msEs m = m
  | [], _ => rfl
  | (k, v) :: es, h => by
    simp only [msResEs, Bool.and_eq_true] at h
    simp [msEs, msV_id v h.1, msEs_id es h.2]
theorem msI_id : ∀ i : CInstr, msResI i = true → msI i = i
  | .push v, h => by simp only [msResI] at h; simp [msI, msV_id v h]
  | .pop, _ | .test, _ | .dup, _ | .or, _ | .and, _ | .not, _ | .neg, _ | .add, _ | .sub, _ | .mul, _
  | .div, _ | .mod, _ | .lt, _ | .le, _ | .eq, _ | .ne, _ | .ge, _ | .gt, _ | .in_, _ | .index, _
  | .access, _ | .jmp _, _ | .jmpCond _ _, _ | .mkList _, _ | .mkDict _, _ | .call _, _ | .fmt _, _ => by
    simp [msI]
theorem msIs_id : ∀ c : List CInstr, msResIs c = true → msIs c = c
  | [], _ => rfl
  | i :: is, h => by
    simp only [msResIs, Bool.and_eq_true] at h
    simp [msIs, msI_id i h.1, msIs_id is h.2]
end

/-- A program whose time constants are whole milliseconds is unchanged by the truncation. -/
theorem msTrunc_id (p : CProg) (h : p.msRes = true) : msTrunc p = p := by
  simp only [CProg.msRes] at h
  simp [msTrunc, msIs_id p.code h]

/-! ### 4. Same behaviour -/

theorem canonF_idem (b : UInt64) : canonF (canonF b) = canonF b := by
  unfold canonF
  by_cases h : F.isNaN b = true
  · have : F.isNaN F.canonNaN = true := by decide
    simp [h, this]
  · simp [h]

mutual
theorem toVal_nan : ∀ v : CVal, toVal (nanV v) = toVal v
  | .float b => by simp [nanV, toVal, canonF_idem]
  | .list l => by simp [nanV, toVal, toVals_nan l]
  | .map m => by simp [nanV, toVal, toEntries_nan m]
  | .code c => by simp [nanV, toVal, toInstrs_nan c]
  | .int _ | .uint _ | .bool _ | .str _ | .bytes _ | .null | .ident _ | .type _ | .ts _ | .dur _
  | .err _ => by simp [nanV]
theorem toVals_nan : ∀ l : List CVal, toVals (nanVs l) = toVals l
  | [] => rfl
  | v :: vs => by simp [nanVs, toVals, toVal_nan v, toVals_nan vs]
theorem toEntries_nan : ∀ m : List (Str × CVal), toEntries (nanEs m) = toEntries m
  | [] => rfl
  | (k, v) :: es => by simp [nanEs, toEntries, toVal_nan v, toEntries_nan es]
theorem toInstr_nan : ∀ i : CInstr, toInstr (nanI i) = toInstr i
  | .push v => by simp [nanI, toInstr, toVal_nan v]
  | .pop | .test | .dup | .or | .and | .not | .neg | .add | .sub | .mul | .div | .mod | .lt | .le | .eq | .ne
  | .ge | .gt | .in_ | .index | .access | .jmp _ | .jmpCond _ _ | .mkList _ | .mkDict _ | .call _ | .fmt _ => by
    simp [nanI]
theorem toInstrs_nan : ∀ c : List CInstr, toInstrs (nanIs c) = toInstrs c
  | [] => rfl
  | i :: is => by simp [nanIs, toInstrs, toInstr_nan i, toInstrs_nan is]
end

/-- The bytecode the VM model runs is the same after the JSON normalisation of a millisecond-resolution
    program (the VM model has one NaN). -/
theorem vmCode_jsonNorm (p : CProg) (h : p.msRes = true) : (jsonNorm p).vmCode = p.vmCode := by
  simp only [CProg.msRes] at h
  simp [jsonNorm, CProg.vmCode, msIs_id p.code h, toInstrs_nan]

/-- bincode: a program with millisecond-resolution time constants reads back as a program with the same
    source, the same parameters and the same evaluation — result and call log — in every environment. -/
theorem bin_same_behaviour (p : CProg) (hf : p.fits = true) (hm : p.msRes = true) :
    ∃ q, decBin (encBin p) = some q ∧ q.source = p.source ∧ q.params = p.params ∧
      ∀ (B : Builtins) (env : Env), execProg B env q.vmCode = execProg B env p.vmCode := by
  refine ⟨p, ?_, rfl, rfl, fun _ _ => rfl⟩
  rw [bin_roundtrip p hf, msTrunc_id p hm]

/-- JSON: likewise. -/
theorem json_same_behaviour (p : CProg) (hf : p.fits = true) (hm : p.msRes = true) :
    ∃ q, decJ (encJ p) = some q ∧ q.source = p.source ∧ q.params = p.params ∧
      ∀ (B : Builtins) (env : Env), execProg B env q.vmCode = execProg B env p.vmCode := by
  refine ⟨jsonNorm p, json_roundtrip p hf, rfl, rfl, fun B env => ?_⟩
  rw [vmCode_jsonNorm p hm]

/-- Reading back twice changes nothing more: the image of a round trip is a fixed point of it (bincode). -/
theorem msTrunc_idem (p : CProg) : (msTrunc p).msRes = true → msTrunc (msTrunc p) = msTrunc p :=
  msTrunc_id (msTrunc p)

/-! ### Non-vacuity: a program with every kind of constant, nested blocks and sub-millisecond time -/

def sample : CProg :=
  { source := some "x".toList,
    params := ["y".toList, "x".toList],
    code := [.push (.err .divZero), .push (.err (.value "é".toList)), .push (.err (.syn 1 2 none)),
             .push (.map [("b".toList, .float 0xfff8000000000000), ("a".toList, .dur 1500000)]),
             .push (.code [.push (.list [.int (-9223372036854775808), .uint 18446744073709551615, .bytes [255, 0]]),
                           .push (.ts (-1)), .push (.type "int".toList), .push .null, .push (.bool true)]),
             .push (.ident "f".toList), .call 1, .jmpCond false (-3), .jmp 2147483647, .mkList 0, .fmt 4294967295] }

/-- the same with whole milliseconds -/
def sampleMs : CProg :=
  { sample with code := [.push (.err .divZero), .push (.dur 2000000), .push (.ts (-1000000)),
                         .push (.code [.push (.float 0xfff8000000000000)]), .jmpCond true 1] }

example : sample.fits = true := by decide
example : sampleMs.fits = true ∧ sampleMs.msRes = true := by decide
example : decBin (encBin sample) = some (msTrunc sample) := bin_roundtrip sample (by decide)
example : decJ (encJ sample) = some (jsonNorm sample) := json_roundtrip sample (by decide)
/-- sub-millisecond constants do change: the hypothesis of `msTrunc_id` is needed -/
example : sample.msRes = false ∧ (msTrunc sample).msRes = true := by decide
example : (CProg.mk none [] [.push (.dur 1499999)]).msRes = false ∧
    (match (msTrunc (CProg.mk none [] [.push (.dur 1499999)])).code with | [.push (.dur n)] => n | _ => 7) = 1000000 := by
  decide
example : msTrunc sampleMs = sampleMs := msTrunc_id sampleMs (by decide)
example : ∃ q, decBin (encBin sampleMs) = some q ∧ q.source = sampleMs.source ∧ q.params = sampleMs.params ∧
    ∀ (B : Builtins) (env : Env), execProg B env q.vmCode = execProg B env sampleMs.vmCode :=
  bin_same_behaviour sampleMs (by decide) (by decide)
example : ∃ q, decJ (encJ sampleMs) = some q ∧ q.source = sampleMs.source ∧ q.params = sampleMs.params ∧
    ∀ (B : Builtins) (env : Env), execProg B env q.vmCode = execProg B env sampleMs.vmCode :=
  json_same_behaviour sampleMs (by decide) (by decide)
/-- the JSON normalisation is not the identity: a NaN payload is lost (invisible to the VM model) -/
example : (match (jsonNorm (CProg.mk none [] [.push (.float 0xfff8000000000000)])).code with
      | [.push (.float b)] => b | _ => 7) = 0x7ff8000000000000 ∧
    (jsonNorm sampleMs).vmCode = sampleMs.vmCode := by
  refine ⟨by decide, vmCode_jsonNorm sampleMs (by decide)⟩
/-- out-of-range components are rejected by `fits` (and do not round-trip: 2^64 is written as 0) -/
example : (CProg.mk none [] [.push (.uint 18446744073709551616)]).fits = false ∧
    (decBin (encBin (CProg.mk none [] [.push (.uint 18446744073709551616)]))).map (·.code.length) = some 1 := by
  decide
/-- the first bytes of a real program (`probe8`: `x + {'a':1,'b':2,'c':3}.a + y` starts `[1, 29, 0, …]`) -/
example : (encBin (CProg.mk (some "ab".toList) [] [])).take 11 = [1, 2, 0, 0, 0, 0, 0, 0, 0, 97, 98] := by decide

end C19
end Rscel
