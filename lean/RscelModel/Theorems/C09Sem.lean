import RscelModel.Theorems.C17Sem
import RscelModel.Lemmas.SpecSubst
/-
C09, the end-to-end half — "replacing a variable by a literal of its bound value (or a literal by a variable
bound to that value) does not change the result, so a program means the same whether a subexpression was
evaluated by the compiler or by the VM" — proved on the fragment of the language for which the
compiler-correctness theorem exists (`InFragment` / `InFragmentM`, `Model/Spec.lean`;
`Theorems/C05Compile.lean`).

* `subst_evalSpec` — the substitution theorem of the declarative semantics: if `x` is bound to the value of
  the literal `l` (and is not a type name), `evalSpec (substLit x l e) env = evalSpec e env`
  (`Lemmas/SpecSubst.lean`, induction over `Frag`); `substLit_fragment(_match)`: the fragment is preserved;
* `literal_for_variable_invisible` — the property's statement about **compiled programs**:
  `execProg B env (compileProgram B (substLit x l e)) = execProg B env (compileProgram B e)`.
  The two programs are different instruction sequences: on the left the compiler sees constants where the
  right has `PUSH ident`, and folds every operator, list, `?:` whose operands became constant (possibly the
  whole program), on the right the VM computes them.  The theorem says that no environment can tell them
  apart — value or failure, and call log.  Failing sub-expressions and `?:` conditions are part of the
  fragment (`x / 0`, `x ? a : b`).
* `variable_for_literal_invisible`, `fresh_variable_for_literal` — the converse reading (literal → variable
  bound to it);
* `literals_for_variables_invisible` — any number of variables at once (all subsets, as the check's
  metamorphic run does: apply it to the sub-list);
* `replacement_invisible` — more generally any primary of the fragment that has the variable's value in the
  environment at hand may stand for the variable (another spelling of the literal, e.g. the harness's
  `(-9223372036854775807 - 1)`; another variable bound to the same value);
* `unbound_at_compile_time` — **variables unbound at compile time**: `compileProgram B e` has no
  environment argument at all — the compiler's own `BindContext::for_compile()` is the built-in table `B` —
  so the compiled program cannot depend on bindings; in every theorem here the two programs are fixed
  first and the environment is quantified afterwards (`unbound_at_compile_time` states the main theorem in
  exactly that order: `let p := …; let q := …; ∀ env, …`).  Variables that are *still* unbound at run time
  are covered too: nothing is assumed about the names other than `x`, both programs then fail alike.

NOT covered here (`…` on the fragment only; `Theorems/C09Sem2.lean` has the statement on the larger fragment
`Frag2`, with calls, macros, map literals, f-strings, index / field access, type patterns): map literals (duplicate keys: `C06.compile_time_map_eq_run_time_map`),
f-strings, member access / index / calls of built-ins and macros over partly constant arguments, type
patterns of `match`, stored programs; list- and map-valued bindings (no literal primary denotes them —
a list *literal* is an expression and is covered as one).  For those the metamorphic run of the facet (all
2^|V| literal/variable variants must agree on the real code) remains the evidence; the per-operator
agreement theorems and the clock theorems are in `Theorems/C09.lean`.
-/
namespace Rscel
namespace C09Sem
open Rscel.Seq Rscel.C05Compile Rscel.C17Sem

theorem resolve_bound {env : Env} {x : Str} {v : Val} (ht : env.getType x = none) (hv : env.getParam x = some v) :
    resolveIdent env x = v := by
  simp [resolveIdent, ht, hv]

/-! ## the declarative semantics -/

/-- **Substitution** (fragment).  `x` is a variable (not a type name) bound to the value of the literal `l`:
    the tree with the literal in place of every `x` has the same value — a failure included. -/
theorem subst_evalSpec {B : Builtins} {e : Ast} (h : InFragmentM e) {x : Str} {l : Lit} (hl : l.InRange) {env : Env}
    (ht : env.getType x = none) (hv : env.getParam x = some l.val) :
    evalSpec B (substLit x l e) env = evalSpec B e env :=
  SpecSubst.subst_eval h (fun sp => SpecSubst.lit_prim_ne_min l _ sp)
    ((SpecSubst.lit_prim_val l hl _ env).trans (resolve_bound ht hv).symm)

/-- `substLit` stays inside the fragment. -/
theorem substLit_fragment {e : Ast} (h : InFragment e) (x : Str) (l : Lit) : InFragment (substLit x l e) :=
  SpecSubst.frag_subst h (fun sp => SpecSubst.lit_prim_frag false l _ sp)

theorem substLit_fragment_match {e : Ast} (h : InFragmentM e) (x : Str) (l : Lit) : InFragmentM (substLit x l e) :=
  SpecSubst.frag_subst h (fun sp => SpecSubst.lit_prim_frag true l _ sp)

/-- After `substLit x l`, the name `x` is not reported any more. -/
theorem substLit_removes {e : Ast} (h : InFragmentM e) (x : Str) (l : Lit) : x ∉ params (substLit x l e) :=
  fun hx => SpecSubst.subst_removes h (SpecSubst.lit_prim_closed l _) (C17.mem_dedup.mp hx)

/-! ## compiled programs -/

/-- **A literal for a variable is invisible.**  For every expression of the fragment, every environment
    without stored programs in which `x` is bound to the value of the literal `l`: the program compiled
    from the expression with the literal in place of `x` — partly or wholly constant-folded — gives the
    result of the program compiled from the expression with the variable. -/
theorem literal_for_variable_invisible (B : Builtins) {e : Ast} (h : InFragment e) (x : Str) {l : Lit}
    (hl : l.InRange) {env : Env} (hnp : NoProgs env) (ht : env.getType x = none)
    (hv : env.getParam x = some l.val) :
    execProg B env (compileProgram B (substLit x l e)) = execProg B env (compileProgram B e) := by
  show run B env (substLit x l e) = run B env e
  rw [exec_correct_partial hnp (substLit_fragment h x l), exec_correct_partial hnp h,
    subst_evalSpec (frag_mono h) hl ht hv]

/-- The same with `match` (`_` and comparison patterns); as in `exec_correct_match_partial`, no parameter is
    bound to an identifier value. -/
theorem literal_for_variable_invisible_match (B : Builtins) {e : Ast} (h : InFragmentM e) (x : Str) {l : Lit}
    (hl : l.InRange) {env : Env} (hnp : NoProgs env) (hpp : PlainParams env) (ht : env.getType x = none)
    (hv : env.getParam x = some l.val) :
    execProg B env (compileProgram B (substLit x l e)) = execProg B env (compileProgram B e) := by
  show run B env (substLit x l e) = run B env e
  rw [exec_correct_match_partial hnp hpp (substLit_fragment_match h x l), exec_correct_match_partial hnp hpp h,
    subst_evalSpec h hl ht hv]

/-- **Variables unbound at compile time.**  The order of events, spelled out: both programs are compiled
    first — `compileProgram` takes the built-in table and the tree, no bindings — and only then does an
    environment appear; whatever it is, if it binds `x` to the literal's value the two fixed instruction
    sequences give the same result.  (Names other than `x` may be bound or not.) -/
theorem unbound_at_compile_time (B : Builtins) {e : Ast} (h : InFragment e) (x : Str) {l : Lit} (hl : l.InRange) :
    let withVariable := compileProgram B e
    let withLiteral := compileProgram B (substLit x l e)
    ∀ env : Env, NoProgs env → env.getType x = none → env.getParam x = some l.val →
      execProg B env withLiteral = execProg B env withVariable :=
  fun _ hnp ht hv => literal_for_variable_invisible B h x hl hnp ht hv

/-- **A variable for a literal is invisible** (the converse reading).  `substLit y l e` is a program with the
    literal; `e` is the same program with the variable `y` in place of (some or all of) its occurrences.
    Running the literal form in `env` gives what the variable form gives in an environment that differs from
    `env` only in binding `y` to the literal's value.  `y` need not be fresh for `env`. -/
theorem variable_for_literal_invisible (B : Builtins) {e : Ast} (h : InFragment e) (y : Str) {l : Lit}
    (hl : l.InRange) {env env' : Env} (hnp : NoProgs env) (hnp' : NoProgs env')
    (hd : DifferOnlyAt y env' env) (ht : env'.getType y = none) (hv : env'.getParam y = some l.val) :
    execProg B env' (compileProgram B e) = execProg B env (compileProgram B (substLit y l e)) := by
  rw [← literal_for_variable_invisible B h y hl hnp' ht hv]
  exact exec_agree_on_params B hnp' hnp (substLit_fragment h y l)
    (fun n hn => hd n (fun hny => substLit_removes (frag_mono h) y l (hny ▸ hn)))

/-- … with `bind_param`: the literal form in `env` = the variable form in `env` with `y` bound. -/
theorem fresh_variable_for_literal (B : Builtins) {e : Ast} (h : InFragment e) (y : Str) {l : Lit}
    (hl : l.InRange) {env : Env} (hnp : NoProgs env) (hb : env.hasBinds = true) (ht : env.getType y = none) :
    execProg B (env.bind y l.val) (compileProgram B e) = execProg B env (compileProgram B (substLit y l e)) :=
  variable_for_literal_invisible B h y hl hnp (noProgs_bind hnp y _) (differ_bind env y _) ht
    (by simp [Env.getParam, Env.bind, lookup, hb])

/-- Every listed variable is bound to the value of the literal listed for it. -/
def BoundTo (env : Env) (xs : List (Str × Lit)) : Prop :=
  ∀ p ∈ xs, p.2.InRange ∧ env.getType p.1 = none ∧ env.getParam p.1 = some p.2.val

theorem substLits_fragment {e : Ast} (h : InFragment e) : ∀ xs : List (Str × Lit), InFragment (substLits xs e)
    := by
  intro xs
  induction xs generalizing e with
  | nil => exact h
  | cons p rest ih => exact ih (substLit_fragment h p.1 p.2)

/-- **Any set of variables at once.** -/
theorem literals_for_variables_invisible (B : Builtins) {e : Ast} (h : InFragment e) {env : Env}
    (hnp : NoProgs env) (xs : List (Str × Lit)) (hxs : BoundTo env xs) :
    execProg B env (compileProgram B (substLits xs e)) = execProg B env (compileProgram B e) := by
  induction xs generalizing e with
  | nil => rfl
  | cons p rest ih =>
    obtain ⟨hl, ht, hv⟩ := hxs p (List.mem_cons_self ..)
    show execProg B env (compileProgram B (substLits rest (substLit p.1 p.2 e))) = _
    rw [ih (substLit_fragment h p.1 p.2) (fun q hq => hxs q (List.mem_cons_of_mem _ hq))]
    exact literal_for_variable_invisible B h p.1 hl hnp ht hv

/-- **Any primary with the variable's value.**  `r` is a primary of the fragment (a literal in another
    spelling, a parenthesised constant expression, another variable …) that, in `env`, has the value `x`
    resolves to, and is not the bare token `int i64Min`: the program compiled with `r` in place of `x` gives
    the result of the program compiled with `x`. -/
theorem replacement_invisible (B : Builtins) {e : Ast} (h : InFragment e) (x : Str) {r : Prim}
    (hr : ∀ sp, InFragment (.member sp r [])) (hr0 : ∀ sp, r ≠ .int sp i64Min) {env : Env} (hnp : NoProgs env)
    (hv : evalSpecPrim B r env = resolveIdent env x) :
    execProg B env (compileProgram B (substIdent x r e)) = execProg B env (compileProgram B e) := by
  show run B env (substIdent x r e) = run B env e
  rw [exec_correct_partial hnp (SpecSubst.frag_subst h hr), exec_correct_partial hnp h,
    SpecSubst.subst_eval h hr0 hv]

/-! ## non-vacuity

`ex` is `x + 1 * 2 > y || false` (`Theorems/C17Sem.lean`): `1 * 2` and `false` are constants for the compiler,
the rest is code.  With `5` for `x` the compiler also folds `5 + 2`; with `3` for `y` as well, the left operand
of `||` is the single instruction `PUSH true` (the `||` chain itself is always emitted as code); the program
`x + 1 * 2 > y` (`exG`) is folded wholly. -/

section
variable (B : Builtins)

def l5 : Lit := .int 5
def l3 : Lit := .int 3
def lm : Lit := .int (-7)

theorem boundA_x : envA.getType "x".toList = none ∧ envA.getParam "x".toList = some l5.val := ⟨rfl, rfl⟩
theorem boundA_y : envA.getType "y".toList = none ∧ envA.getParam "y".toList = some l3.val := ⟨rfl, rfl⟩
theorem inRange_small (i : Int) (h : i64Min ≤ i ∧ i ≤ i64Max := by decide) : (Lit.int i).InRange := h

/-- `x + 1 * 2 > y` -/
def exG : Ast := .bin sp0 .gt (.bin sp0 .add vx (.bin sp0 .mul (lit 1) (lit 2))) vy
theorem exG_frag : InFragment exG :=
  .bin _ _ _ _ (.bin _ _ _ _ (var_frag _) (.bin _ _ _ _ (lit_frag _) (lit_frag _))) (var_frag _)

-- the three programs are three different instruction sequences …
example : compileProgram B ex =
    [.push (.ident "x".toList), .push (.int 2), .add, .push (.ident "y".toList), .gt,
     .test, .dup, .jmpCond true 2, .push (.bool false), .or] := by
  simp [compileProgram, compile, compileX, compilePrim, compileOps, ex, vx, vy, var, lit, chainTail, CP.toCode]
  (repeat' apply And.intro) <;> rfl
example : compileProgram B (substLit "x".toList l5 ex) =
    [.push (.int 7), .push (.ident "y".toList), .gt, .test, .dup, .jmpCond true 2, .push (.bool false), .or] := by
  simp [compileProgram, compile, compileX, compilePrim, compileOps, ex, vx, vy, var, lit, chainTail, CP.toCode,
    substLit, substIdent, substIdentPrim, substIdentOps, l5, Lit.prim]
  (repeat' apply And.intro) <;> rfl
example : compileProgram B (substLits [("x".toList, l5), ("y".toList, l3)] ex) =
    [.push (.bool true), .test, .dup, .jmpCond true 2, .push (.bool false), .or] := by
  simp [compileProgram, compile, compileX, compilePrim, compileOps, ex, vx, vy, var, lit, chainTail, CP.toCode,
    substLits, substLit, substIdent, substIdentPrim, substIdentOps, l5, l3, Lit.prim]
  (repeat' apply And.intro) <;> rfl
-- (an `||` / `&&` chain is always emitted as code; its left operand `x + 1 * 2 > y` alone is wholly folded)
example : compileProgram B (substLits [("x".toList, l5), ("y".toList, l3)] exG) = [.push (.bool true)] := by
  simp [compileProgram, compile, compileX, compilePrim, compileOps, exG, vx, vy, var, lit, CP.toCode,
    substLits, substLit, substIdent, substIdentPrim, substIdentOps, l5, l3, Lit.prim]
  rfl
example : execProg B envA (compileProgram B (substLits [("x".toList, l5), ("y".toList, l3)] exG)) =
    execProg B envA (compileProgram B exG) :=
  literals_for_variables_invisible B exG_frag npA _ (by
    intro p hp
    simp only [List.mem_cons, List.mem_nil_iff, or_false] at hp
    rcases hp with rfl | rfl
    · exact ⟨inRange_small 5, boundA_x⟩
    · exact ⟨inRange_small 3, boundA_y⟩)
-- … with one result (subst_evalSpec, literal_for_variable_invisible, unbound_at_compile_time,
-- literals_for_variables_invisible)
example : evalSpec B (substLit "x".toList l5 ex) envA = evalSpec B ex envA :=
  subst_evalSpec (frag_mono ex_frag) (inRange_small 5) boundA_x.1 boundA_x.2
example : execProg B envA (compileProgram B (substLit "x".toList l5 ex)) = execProg B envA (compileProgram B ex) :=
  literal_for_variable_invisible B ex_frag _ (inRange_small 5) npA boundA_x.1 boundA_x.2
example : execProg B envA (compileProgram B (substLit "x".toList l5 ex)) = execProg B envA (compileProgram B ex) :=
  unbound_at_compile_time B ex_frag _ (inRange_small 5) envA npA boundA_x.1 boundA_x.2
example : execProg B envA (compileProgram B (substLits [("x".toList, l5), ("y".toList, l3)] ex)) =
    execProg B envA (compileProgram B ex) :=
  literals_for_variables_invisible B ex_frag npA _ (by
    intro p hp
    simp only [List.mem_cons, List.mem_nil_iff, or_false] at hp
    rcases hp with rfl | rfl
    · exact ⟨inRange_small 5, boundA_x⟩
    · exact ⟨inRange_small 3, boundA_y⟩)
-- the other variable unbound at run time as well: envX binds only `x`; both forms fail with the Binding
-- failure of `y`
example : execProg B envX (compileProgram B (substLit "x".toList l5 ex)) = execProg B envX (compileProgram B ex) :=
  literal_for_variable_invisible B ex_frag _ (inRange_small 5) npX rfl rfl
example : evalSpec B ex envX = .err .binding := by rfl
-- failures and `?:` conditions: `x ? 1 / (x - 5) : y` with x = 5 — the literal form is folded to the
-- division-by-zero failure at compile time, the variable form fails at run time
def exT : Ast :=
  .tern sp0 vx (.bin sp0 .div (lit 1) (.member sp0 (.parens sp0 (.bin sp0 .sub vx (lit 5))) [])) vy
theorem exT_frag : InFragment exT :=
  .tern _ _ _ _ (var_frag _)
    (.bin _ _ _ _ (lit_frag _) (.parens _ _ _ (.bin _ _ _ _ (var_frag _) (lit_frag _)))) (var_frag _)
example : compileProgram B (substLit "x".toList l5 exT) = [.push (.err .divZero)] := by
  simp [compileProgram, compile, compileX, compilePrim, compileOps, exT, vx, vy, var, lit, CP.toCode,
    substLit, substIdent, substIdentPrim, substIdentOps, l5, Lit.prim]
  rfl
example : execProg B envA (compileProgram B (substLit "x".toList l5 exT)) = execProg B envA (compileProgram B exT) :=
  literal_for_variable_invisible B exT_frag _ (inRange_small 5) npA boundA_x.1 boundA_x.2
-- a negative value is spelled `(-7)`
def envN : Env := { params := [("x".toList, .int (-7)), ("y".toList, .int 3)] }
example : substLit "x".toList lm vx =
    .member sp0 (.parens default (.negRun default [default] (.member default (.int default 7) []))) [] := by
  simp [substLit, substIdent, substIdentPrim, substIdentOps, vx, var, lm, Lit.prim, i64Min]
example : execProg B envN (compileProgram B (substLit "x".toList lm ex)) = execProg B envN (compileProgram B ex) :=
  literal_for_variable_invisible B ex_frag _ (inRange_small (-7)) (noProgs_of_nil rfl) rfl rfl
-- variable_for_literal_invisible / fresh_variable_for_literal: `5 + 1 * 2 > y || false` in envY (no `x`)
-- = `x + 1 * 2 > y || false` with x := 5
def envY : Env := { params := [("y".toList, .int 3)] }
example : execProg B (envY.bind "x".toList l5.val) (compileProgram B ex) =
    execProg B envY (compileProgram B (substLit "x".toList l5 ex)) :=
  fresh_variable_for_literal B ex_frag _ (inRange_small 5) (noProgs_of_nil rfl) rfl rfl
def envXY : Env := { params := [("x".toList, .int 5), ("y".toList, .int 3)] }
example : execProg B envXY (compileProgram B ex) = execProg B envY (compileProgram B (substLit "x".toList l5 ex)) :=
  variable_for_literal_invisible B ex_frag _ (inRange_small 5) (noProgs_of_nil rfl) (noProgs_of_nil rfl)
    (by
      intro n hn
      refine ⟨rfl, ?_⟩
      have hx : ¬ ("x".toList = n) := fun h => hn h.symm
      simp only [Env.getParam, envXY, envY, lookup, hx, if_false])
    rfl rfl

-- literal_for_variable_invisible_match: `match x { case > y: 1, case _: z }` (C17Sem.exM) with 5 for `x`
example : execProg B envA (compileProgram B (substLit "x".toList l5 exM)) = execProg B envA (compileProgram B exM) :=
  literal_for_variable_invisible_match B exM_frag _ (inRange_small 5) npA ppA boundA_x.1 boundA_x.2

/-! ### `i64::MIN`, and why the bare token `int i64Min` is not a spelling

`-x` with `x = i64::MIN` fails (the negation overflows).  The literal form `-(-9223372036854775808)` fails
alike; but pasting the *token* `9223372036854775808` behind the minus sign gives `-9223372036854775808`, the
literal `i64::MIN` itself — another program.  `Lit.prim` never produces the bare token
(`SpecSubst.lit_prim_ne_min`), `replacement_invisible` excludes it. -/

def envMin : Env := { params := [("x".toList, .int i64Min)] }
def negX : Ast := .negRun sp0 [sp0] vx
theorem negX_frag : InFragment negX := .negRun _ _ _ (var_frag _)

theorem bare_min_literal_is_not_a_spelling :
    evalSpec B negX envMin = .err .value ∧
    evalSpec B (substIdent "x".toList (.int sp0 i64Min) negX) envMin = .int i64Min ∧
    evalSpec B (substLit "x".toList (.int i64Min) negX) envMin = .err .value := ⟨rfl, rfl, rfl⟩

example : execProg B envMin (compileProgram B (substLit "x".toList (.int i64Min) negX)) =
    execProg B envMin (compileProgram B negX) :=
  literal_for_variable_invisible B negX_frag _ (inRange_small i64Min) (noProgs_of_nil rfl) rfl rfl
-- replacement_invisible: the harness's spelling `(-9223372036854775807 - 1)` of `i64::MIN`
def minSpelled : Prim :=
  .parens sp0 (.bin sp0 .sub (.negRun sp0 [sp0] (lit 9223372036854775807)) (lit 1))
example : execProg B envMin (compileProgram B (substIdent "x".toList minSpelled ex)) =
    execProg B envMin (compileProgram B ex) :=
  replacement_invisible B ex_frag _
    (fun _ => .parens _ _ _ (.bin _ _ _ _ (.negRun _ _ _ (lit_frag _)) (lit_frag _)))
    (fun _ h => by cases h) (noProgs_of_nil rfl) rfl
-- replacement_invisible: another variable bound to the same value (`z` for `x` in envA' where both are 5)
def envZ : Env := { params := [("x".toList, .int 5), ("y".toList, .int 3), ("z".toList, .int 5)] }
example : execProg B envZ (compileProgram B (substIdent "x".toList (.ident sp0 "z".toList) ex)) =
    execProg B envZ (compileProgram B ex) :=
  replacement_invisible B ex_frag _ (fun _ => .ident ..) (fun _ h => by cases h) (noProgs_of_nil rfl) rfl
-- replacement_invisible: a list literal for a variable bound to that list, `x + [3]` with x = [1, 2]
def envL : Env := { params := [("x".toList, .list [.int 1, .int 2])] }
def exL : Ast := .bin sp0 .add vx (.member sp0 (.list sp0 [lit 3]) [])
theorem frag_lits (sp : Span) (is : List Int) : InFragment (.member sp (.list sp0 (is.map lit)) []) :=
  .list _ _ _ (fun e he => by obtain ⟨i, _, rfl⟩ := List.mem_map.mp he; exact lit_frag i)
example : execProg B envL (compileProgram B (substIdent "x".toList (.list sp0 ([1, 2].map lit)) exL)) =
    execProg B envL (compileProgram B exL) :=
  replacement_invisible B (.bin _ _ _ _ (var_frag _) (frag_lits _ [3])) _ (fun sp => frag_lits sp [1, 2])
    (fun _ h => by cases h) (noProgs_of_nil rfl) rfl
example : evalSpec B exL envL = .list [.int 1, .int 2, .int 3] := by rfl
-- a negative double is spelled `(-1.5)`
example : (Lit.float 0xBFF8000000000000).prim sp0 =
    .parens sp0 (.negRun sp0 [sp0] (.member sp0 (.float sp0 0x3FF8000000000000) [])) := by rfl
example : evalSpecPrim B ((Lit.float 0xBFF8000000000000).prim sp0) env0 = .float 0xBFF8000000000000 :=
  SpecSubst.lit_prim_val (.float 0xBFF8000000000000) trivial _ _

end

end C09Sem
end Rscel
