import RscelModel.Model.VM
/-
C08 — `has()` and `coalesce()` distinguish absent data from every other failure.

The two macros are the model's `callMacro … "has"` / `callMacro … "coalesce"` (`Model/VM.lean`,
mirroring `default_macros/has.rs`, `coalesce.rs`).  Every theorem is stated for an *arbitrary*
nested-run callback `rec` (how an argument block evaluates, what it appends to the call log), an
arbitrary environment and arbitrary argument blocks: nothing about the arguments is assumed.

* `absent` — the definition of "fails because data is absent": the failure is a Binding error
  (unbound variable) or an Attribute error (missing field / key); `absent_iff`.
* `has_spec`, `has_false_iff`, `has_true_iff`, `has_propagates`, `has_arity`.
* `coalesce_chosen`, `coalesce_fails`, `coalesce_none` (each: the decomposition forces result *and*
  call log), `coalesce_spec` (one of the three always applies), `coalesce_ignores_rest` (arguments after
  the chosen one have no influence: they are not run), `coalesce_empty`.
* `context_independent` — both macros depend on the environment and the callback only, not on where
  they are called from (`this`, the fresh-interpreter callback used for loop variables).
* `path_eval`, `has_path` — how a field path `r.f₁.….fₙ` of any length evaluates on the VM model: Binding
  for an unbound root, Attribute for a missing key or a non-map intermediate, the value (also `null`)
  otherwise (`field_present`, `field_missing_key`, `field_not_a_map`, `readPath_root_unbound`).
-/
namespace Rscel
namespace C08

/-- A failed evaluation counts as *absent data* exactly when it is a Binding error (unbound variable) or
    an Attribute error (missing field or key). -/
def absent : Abort → Bool
  | .err .binding => true
  | .err .attribute => true
  | _ => false

theorem absent_iff (a : Abort) : absent a = true ↔ a = .err .binding ∨ a = .err .attribute := by
  cases a with
  | err k => cases k <;> simp [absent]
  | _ => simp [absent]

/-- Division by zero, type errors (`value`, `invalidOp`), bad indices (`value`), argument errors, runtime
    errors, exceeded call depth … are not absence. -/
theorem other_failures_not_absent :
    absent (.err .divZero) = false ∧ absent (.err .value) = false ∧ absent (.err .invalidOp) = false ∧
    absent (.err .argument) = false ∧ absent (.err .runtime) = false ∧ absent (.err .internal) = false ∧
    absent (.err .misc) = false ∧ absent (.err .syntax) = false ∧ absent .depth = false ∧
    absent .underflow = false ∧ absent .badJump = false ∧ absent .fuel = false := by
  simp [absent]

/-- The kind reported for an absent failure is again Binding or Attribute — and vice versa, so looking
    at the reported kind (what the harness observes) is the same as looking at the abort. -/
theorem absent_kind (a : Abort) : absent a = true ↔ a.kind = .binding ∨ a.kind = .attribute := by
  cases a with
  | err k => cases k <;> simp [absent, Abort.kind]
  | _ => simp [absent, Abort.kind]

variable (rec recTop : Rec)

/-! ### `has` -/

/-- `has(e)`: `true` when the argument evaluates (to anything, `null` included), `false` when it fails
    with an absence failure, otherwise the same failure.  The call log is the argument's. -/
theorem has_spec (env : Env) (this : Val) (a : List Instr) (log : Log) :
    callMacro rec recTop env "has".toList this [a] log =
      ((match (rec env a true log).res with
        | .ok _ => Val.bool true
        | .error e => if absent e then .bool false else .err e.kind),
       (rec env a true log).log) := by
  unfold callMacro
  rw [if_pos rfl]
  dsimp only
  cases h : (rec env a true log).res with
  | ok v => rfl
  | error e =>
    cases e with
    | err k => cases k <;> rfl
    | _ => rfl

/-- `false` *exactly* when the argument fails with Binding or Attribute. -/
theorem has_false_iff (env : Env) (this : Val) (a : List Instr) (log : Log) :
    (callMacro rec recTop env "has".toList this [a] log).1 = .bool false ↔
      (rec env a true log).res = .error (.err .binding) ∨ (rec env a true log).res = .error (.err .attribute) := by
  rw [has_spec]
  cases h : (rec env a true log).res with
  | ok v => simp
  | error e =>
    cases e with
    | err k => cases k <;> simp [absent]
    | _ => simp [absent]

/-- `true` exactly when the argument evaluates. -/
theorem has_true_iff (env : Env) (this : Val) (a : List Instr) (log : Log) :
    (callMacro rec recTop env "has".toList this [a] log).1 = .bool true ↔
      ∃ v, (rec env a true log).res = .ok v := by
  rw [has_spec]
  cases h : (rec env a true log).res with
  | ok v => simp
  | error e =>
    cases e with
    | err k => cases k <;> simp [absent]
    | _ => simp [absent]

/-- Every other failure propagates with its kind. -/
theorem has_propagates (env : Env) (this : Val) (a : List Instr) (log : Log) (e : Abort)
    (h : (rec env a true log).res = .error e) (hna : absent e = false) :
    callMacro rec recTop env "has".toList this [a] log = (.err e.kind, (rec env a true log).log) := by
  rw [has_spec, h]; simp [hna]

/-- Any other number of arguments is an Argument error; nothing is evaluated. -/
theorem has_arity (env : Env) (this : Val) (args : List (List Instr)) (log : Log) (h : args.length ≠ 1) :
    callMacro rec recTop env "has".toList this args log = (.err .argument, log) := by
  unfold callMacro
  rw [if_pos rfl]
  match args, h with
  | [], _ => rfl
  | _ :: _ :: _, _ => rfl

/-! ### `coalesce` -/

/-- An argument's outcome is passed over: it is `null` or an absence failure. -/
def skipped (o : Out) : Bool :=
  match o.res with
  | .ok .null => true
  | .ok _ => false
  | .error e => absent e

/-- The call log after evaluating the blocks `as` one after the other, starting from `log`. -/
def logAfter (env : Env) : List (List Instr) → Log → Log
  | [], log => log
  | a :: as, log => logAfter env as (rec env a true log).log

/-- Every block of `as`, evaluated left to right (each starting from the log its predecessor left),
    comes out `null` or absent. -/
def allSkipped (env : Env) : List (List Instr) → Log → Bool
  | [], _ => true
  | a :: as, log => skipped (rec env a true log) && allSkipped env as (rec env a true log).log

theorem coalesce_is_loop (env : Env) (this : Val) (args : List (List Instr)) (log : Log) :
    callMacro rec recTop env "coalesce".toList this args log = coalesceLoop rec env args log := by
  unfold callMacro
  rw [if_neg (by decide), if_pos rfl]

/-- One unfolding of the loop in terms of `skipped`. -/
theorem loop_cons (env : Env) (a : List Instr) (as : List (List Instr)) (log : Log) :
    coalesceLoop rec env (a :: as) log =
      if skipped (rec env a true log) then coalesceLoop rec env as (rec env a true log).log
      else match (rec env a true log).res with
        | .ok v => (v, (rec env a true log).log)
        | .error e => (.err e.kind, (rec env a true log).log) := by
  rw [coalesceLoop]
  unfold skipped
  cases h : (rec env a true log).res with
  | ok v => cases v <;> simp
  | error e =>
    cases e with
    | err k => cases k <;> simp [absent]
    | _ => simp [absent]

theorem loop_skip_prefix (env : Env) (pre rest : List (List Instr)) (log : Log)
    (h : allSkipped rec env pre log = true) :
    coalesceLoop rec env (pre ++ rest) log = coalesceLoop rec env rest (logAfter rec env pre log) := by
  induction pre generalizing log with
  | nil => rfl
  | cons a as ih =>
    simp only [allSkipped, Bool.and_eq_true] at h
    rw [List.cons_append, loop_cons, if_pos h.1, ih _ h.2, logAfter]

/-- **Chosen argument.** If the arguments before `a` are all `null`/absent and `a` evaluates to a
    non-null value `v`, the result is `v`, and the call log is the one left by evaluating exactly
    `pre` and then `a` — nothing of `post` is evaluated. -/
theorem coalesce_chosen (env : Env) (this : Val) (pre post : List (List Instr)) (a : List Instr) (log : Log)
    (v : Val) (hpre : allSkipped rec env pre log = true)
    (ha : (rec env a true (logAfter rec env pre log)).res = .ok v) (hv : v ≠ .null) :
    callMacro rec recTop env "coalesce".toList this (pre ++ a :: post) log =
      (v, (rec env a true (logAfter rec env pre log)).log) := by
  rw [coalesce_is_loop, loop_skip_prefix rec env pre _ log hpre, loop_cons]
  have : skipped (rec env a true (logAfter rec env pre log)) = false := by
    unfold skipped; rw [ha]; cases v <;> simp_all
  rw [this, ha]; rfl

/-- **Other failures propagate.** If the arguments before `a` are all `null`/absent and `a` fails with a
    failure that is not absence, the macro fails with that kind; nothing of `post` is evaluated. -/
theorem coalesce_fails (env : Env) (this : Val) (pre post : List (List Instr)) (a : List Instr) (log : Log)
    (e : Abort) (hpre : allSkipped rec env pre log = true)
    (ha : (rec env a true (logAfter rec env pre log)).res = .error e) (he : absent e = false) :
    callMacro rec recTop env "coalesce".toList this (pre ++ a :: post) log =
      (.err e.kind, (rec env a true (logAfter rec env pre log)).log) := by
  rw [coalesce_is_loop, loop_skip_prefix rec env pre _ log hpre, loop_cons]
  have : skipped (rec env a true (logAfter rec env pre log)) = false := by
    unfold skipped; rw [ha]; exact he
  rw [this, ha]; rfl

/-- **Nothing qualifies.** All arguments `null`/absent: the result is `null`, every argument was
    evaluated once, in order. -/
theorem coalesce_none (env : Env) (this : Val) (args : List (List Instr)) (log : Log)
    (h : allSkipped rec env args log = true) :
    callMacro rec recTop env "coalesce".toList this args log = (.null, logAfter rec env args log) := by
  rw [coalesce_is_loop]
  have := loop_skip_prefix rec env args [] log h
  rw [List.append_nil] at this
  rw [this]; rfl

theorem coalesce_empty (env : Env) (this : Val) (log : Log) :
    callMacro rec recTop env "coalesce".toList this [] log = (.null, log) :=
  coalesce_none rec recTop env this [] log rfl

/-- **Specification.** For every argument list exactly the three situations above occur: a first
    argument that is neither `null` nor absent is returned (or, if it fails otherwise, its failure),
    else `null`.  With `coalesce_chosen`, `coalesce_fails`, `coalesce_none` this determines result and call
    log completely. -/
theorem coalesce_spec (env : Env) (args : List (List Instr)) (log : Log) :
    (∃ pre a post v, args = pre ++ a :: post ∧ allSkipped rec env pre log = true ∧
        (rec env a true (logAfter rec env pre log)).res = .ok v ∧ v ≠ .null) ∨
    (∃ pre a post e, args = pre ++ a :: post ∧ allSkipped rec env pre log = true ∧
        (rec env a true (logAfter rec env pre log)).res = .error e ∧ absent e = false) ∨
    allSkipped rec env args log = true := by
  induction args generalizing log with
  | nil => exact .inr (.inr rfl)
  | cons a as ih =>
    by_cases hs : skipped (rec env a true log) = true
    · rcases ih (rec env a true log).log with ⟨pre, b, post, v, h1, h2, h3, h4⟩ | ⟨pre, b, post, e, h1, h2, h3, h4⟩ | h
      · exact .inl ⟨a :: pre, b, post, v, by rw [h1]; rfl, by simp [allSkipped, hs, h2], h3, h4⟩
      · exact .inr (.inl ⟨a :: pre, b, post, e, by rw [h1]; rfl, by simp [allSkipped, hs, h2], h3, h4⟩)
      · exact .inr (.inr (by simp [allSkipped, hs, h]))
    · cases hr : (rec env a true log).res with
      | ok v =>
        refine .inl ⟨[], a, as, v, rfl, rfl, hr, ?_⟩
        intro hv; subst hv; simp [skipped, hr] at hs
      | error e =>
        refine .inr (.inl ⟨[], a, as, e, rfl, rfl, hr, ?_⟩)
        simpa [skipped, hr] using hs

/-- Arguments after the chosen (or failing) one have no influence on result or call log. -/
theorem coalesce_ignores_rest (env : Env) (this : Val) (pre post post' : List (List Instr)) (a : List Instr)
    (log : Log) (hpre : allSkipped rec env pre log = true)
    (ha : skipped (rec env a true (logAfter rec env pre log)) = false) :
    callMacro rec recTop env "coalesce".toList this (pre ++ a :: post) log =
      callMacro rec recTop env "coalesce".toList this (pre ++ a :: post') log := by
  rw [coalesce_is_loop, coalesce_is_loop, loop_skip_prefix rec env pre _ log hpre,
    loop_skip_prefix rec env pre _ log hpre, loop_cons, loop_cons, ha]
  rfl

/-! ### The same everywhere -/

/-- Neither macro looks at the receiver or at the fresh-interpreter callback (used by the comprehension
    macros for their loop variable): the outcome is a function of the environment, the argument blocks,
    the incoming log and how blocks evaluate — the same at top level and inside a macro body whose
    environment is `env`. -/
theorem context_independent (recTop' : Rec) (env : Env) (this this' : Val) (args : List (List Instr)) (log : Log) :
    callMacro rec recTop env "has".toList this args log = callMacro rec recTop' env "has".toList this' args log ∧
    callMacro rec recTop env "coalesce".toList this args log =
      callMacro rec recTop' env "coalesce".toList this' args log := by
  constructor
  · unfold callMacro; rw [if_pos rfl, if_pos rfl]
  · rw [coalesce_is_loop, coalesce_is_loop]

/-- `has` and `coalesce` are not available to the compile-time folder (`BindContext::for_compile`), so a
    call is never pre-evaluated. -/
theorem never_folded (e : Env) (h : e.compileMode = true) :
    e.isMacro "has".toList = false ∧ e.isMacro "coalesce".toList = false := by
  simp [Env.isMacro, h, compileMacros]

theorem macro_free_runAt (B : Builtins) (b : Nat) (env : Env) (code : List Instr) (resolve : Bool) (log : Log) :
    runAt B (b + 1) env code resolve log =
      match loop B (runAt B b) (runFresh B) env code (blockFuel code) 0 { stack := [], log := log } with
      | .fail a l => { res := .error a, log := l }
      | .ok _ s => finish (runAt B b) env resolve s := rfl

/-! ### Field paths on the VM model

How `r.f₁.….fₙ` — the code `PUSH r; PUSH f₁; ACCESS; …; PUSH fₙ; ACCESS` the compiler emits — evaluates,
for a path of any length over any bound data: Binding for an unbound root, Attribute for a missing key
or a non-map intermediate, the failure itself when an intermediate already failed, the value (`null`
included) otherwise.  Together with `has_spec` this classifies `has(path)`. -/

/-- Reading one field of a value. -/
def field (obj : Val) (f : Str) : Val :=
  match obj with
  | .map m => (match Map.get m f with | some v => v | none => .err .attribute)
  | .err k => .err k
  | _ => .err .attribute

/-- What the root identifier denotes: a type, a bound variable, or a Binding failure. -/
def rootVal (env : Env) (r : Str) : Val :=
  match env.getType r with
  | some t => t
  | none => match env.getParam r with | some v => v | none => .err .binding

/-- The value of the path: the fields read one after the other. -/
def readPath (env : Env) (r : Str) (fs : List Str) : Val := fs.foldl field (rootVal env r)

def fieldsCode (fs : List Str) : List Instr := fs.flatMap fun f => [.push (.ident f), .access]
def pathCode (r : Str) (fs : List Str) : List Instr := .push (.ident r) :: fieldsCode fs

theorem fieldsCode_length : ∀ fs : List Str, (fieldsCode fs).length = 2 * fs.length
  | [] => rfl
  | f :: fs => by
    have : fieldsCode (f :: fs) = .push (.ident f) :: .access :: fieldsCode fs := by simp [fieldsCode]
    rw [this]; simp [fieldsCode_length fs]; omega

/-- No value met along the path is itself an identifier (identifiers are not data). -/
def PathOk : Val → List Str → Prop
  | _, [] => True
  | v, f :: fs => (∀ s, field v f ≠ .ident s) ∧ PathOk (field v f) fs

section path
variable {B : Builtins} {recTop : Rec} {rec : Rec}

/-- what a stack token denotes when popped -/
def tokVal (env : Env) : Val → Val
  | .ident n => rootVal env n
  | v => v

theorem popV_tok (env : Env) (htr : env.trackUnres = false) (t : Val) (st : List SVal) (log : Log)
    (ht : (∃ r, t = .ident r ∧ env.getProg r = none) ∨ (∀ s, t ≠ .ident s)) :
    popV rec env { stack := .val t :: st, log := log } = .ok (tokVal env t) { stack := st, log := log } := by
  rcases ht with ⟨r, rfl, hp⟩ | hni
  · unfold popV popS
    simp only [tokVal, rootVal, hp, markUnres_untracked htr]
    cases h1 : env.getType r with
    | some ty => rfl
    | none =>
      cases h2 : env.getParam r with
      | some v => rfl
      | none => rfl
  · unfold popV popS
    cases t <;> first | rfl | exact absurd rfl (hni _)

theorem getElem?_at (pre : List Instr) (x : Instr) (rest : List Instr) :
    (pre ++ x :: rest)[pre.length]? = some x := by simp

theorem getElem?_at1 (pre : List Instr) (x y : Instr) (rest : List Instr) :
    (pre ++ x :: y :: rest)[pre.length + 1]? = some y := by
  rw [List.getElem?_append_right (by omega)]; simp

/-- `PUSH f; ACCESS` on a stack holding one token: the field of what the token denotes. -/
theorem access_steps (env : Env) (hb : env.hasBinds = true) (htr : env.trackUnres = false) (pre rest : List Instr) (f : Str) (t : Val)
    (fuel : Nat) (log : Log) (hc : env.callable B f = none)
    (ht : (∃ r, t = .ident r ∧ env.getProg r = none) ∨ (∀ s, t ≠ .ident s)) :
    loop B rec recTop env (pre ++ .push (.ident f) :: .access :: rest) (fuel + 2) pre.length
        { stack := [.val t], log := log } =
      loop B rec recTop env (pre ++ .push (.ident f) :: .access :: rest) fuel (pre.length + 2)
        { stack := [.val (field (tokVal env t) f)], log := log } := by
  rw [loop]
  simp only [getElem?_at]
  rw [step]
  simp only [pushV]
  rw [loop]
  simp only [getElem?_at1]
  rw [step]
  simp only [popRaw, popV_tok env htr t [] log ht]
  cases hv : tokVal env t with
  | map m =>
    simp only [field]
    cases Map.get m f with
    | some v => rfl
    | none => simp only [hc, markUnres_untracked htr]; rfl
  | err k => simp [field, hb, hc, Val.isErr, pushV]
  | _ => simp [field, hb, hc, Val.isErr, pushV, markUnres_untracked htr]

def endTok (env : Env) : Val → List Str → Val
  | t, [] => t
  | t, f :: fs => endTok env (field (tokVal env t) f) fs

theorem run_fields (env : Env) (hb : env.hasBinds = true) (htr : env.trackUnres = false) :
    ∀ (fs : List Str) (pre : List Instr) (t : Val) (fuel : Nat) (log : Log),
      2 * fs.length ≤ fuel → (∀ f ∈ fs, env.callable B f = none) →
      ((∃ r, t = .ident r ∧ env.getProg r = none) ∨ (∀ s, t ≠ .ident s)) → PathOk (tokVal env t) fs →
      loop B rec recTop env (pre ++ fieldsCode fs) fuel pre.length { stack := [.val t], log := log } =
        .ok () { stack := [.val (endTok env t fs)], log := log }
  | [], pre, t, fuel, log, _, _, _, _ => by
    simp only [fieldsCode, List.flatMap_nil, List.append_nil, endTok]
    cases fuel with
    | zero => rw [loop]; simp
    | succ n => rw [loop]; simp
  | f :: fs, pre, t, fuel, log, hf, hc, ht, hok => by
    obtain ⟨n, rfl⟩ : ∃ n, fuel = n + 2 := ⟨fuel - 2, by simp at hf; omega⟩
    have hcode : pre ++ fieldsCode (f :: fs) = pre ++ .push (.ident f) :: .access :: fieldsCode fs := by
      simp [fieldsCode]
    rw [hcode, access_steps env hb htr pre (fieldsCode fs) f t n log (hc f (by simp)) ht]
    have hcode' : pre ++ .push (.ident f) :: .access :: fieldsCode fs =
        (pre ++ [.push (.ident f), .access]) ++ fieldsCode fs := by simp
    have hlen : pre.length + 2 = (pre ++ [Instr.push (.ident f), Instr.access]).length := by simp
    rw [hcode', hlen]
    have hni : ∀ s, field (tokVal env t) f ≠ .ident s := hok.1
    have := run_fields env hb htr fs (pre ++ [.push (.ident f), .access]) (field (tokVal env t) f) n log
      (by simp at hf; omega) (fun g hg => hc g (by simp [hg])) (.inr hni)
      (by
        have : tokVal env (field (tokVal env t) f) = field (tokVal env t) f := by
          cases h : field (tokVal env t) f <;> first | rfl | exact absurd h (hni _)
        rw [this]; exact hok.2)
    rw [this]; rfl

theorem endTok_val (env : Env) : ∀ (fs : List Str) (t : Val), PathOk (tokVal env t) fs →
    tokVal env (endTok env t fs) = fs.foldl field (tokVal env t)
  | [], _, _ => rfl
  | f :: fs, t, hok => by
    have hni : ∀ s, field (tokVal env t) f ≠ .ident s := hok.1
    have h1 : tokVal env (field (tokVal env t) f) = field (tokVal env t) f := by
      cases h : field (tokVal env t) f <;> first | rfl | exact absurd h (hni _)
    rw [endTok, List.foldl_cons, endTok_val env fs _ (by rw [h1]; exact hok.2), h1]

theorem endTok_tok (env : Env) (r : Str) (hp : env.getProg r = none) : ∀ (fs : List Str),
    PathOk (rootVal env r) fs →
    ((∃ r', endTok env (.ident r) fs = .ident r' ∧ env.getProg r' = none) ∨ (∀ s, endTok env (.ident r) fs ≠ .ident s))
  | [], _ => .inl ⟨r, rfl, hp⟩
  | f :: fs, hok => by
    right
    have hni : ∀ s, field (rootVal env r) f ≠ .ident s := hok.1
    -- after the first field no token is an identifier any more
    have key : ∀ (gs : List Str) (v : Val), (∀ s, v ≠ .ident s) → PathOk v gs → ∀ s, endTok env v gs ≠ .ident s := by
      intro gs
      induction gs with
      | nil => intro v hv _; exact hv
      | cons g gs ih =>
        intro v hv hk
        have hv' : tokVal env v = v := by cases h : v <;> first | rfl | exact absurd h (hv _)
        rw [endTok, hv']
        exact ih _ hk.1 hk.2
    exact key fs _ hni hok.2

/-- **A field path evaluates to what the data says.**  For a root that is not a stored program, field
    names that are not function or macro names, and data without identifier values, at any depth budget
    ≥ 1: the outcome is the value of the path, a failing value being the failure; the call log is untouched.
    (`htr`: a run-time environment — every interpreter but the one of the compiler's `check_for_const`, whose
    log also records that a name was not resolved, `markUnres`.) -/
theorem path_eval (b : Nat) (env : Env) (r : Str) (fs : List Str) (log : Log)
    (hb : env.hasBinds = true) (htr : env.trackUnres = false) (hp : env.getProg r = none)
    (hc : ∀ f ∈ fs, env.callable B f = none) (hok : PathOk (rootVal env r) fs) :
    runAt B (b + 1) env (pathCode r fs) true log =
      { res := (match readPath env r fs with
                | .err k => .error (.err k)
                | v => .ok v),
        log := log } := by
  have hrun := run_fields (B := B) (recTop := runFresh B) (rec := runAt B b) env hb htr fs [.push (.ident r)]
    (.ident r) (blockFuel (pathCode r fs) - 1) log
    (by simp only [blockFuel, pathCode, List.length_cons, fieldsCode_length]; omega) hc (.inl ⟨r, rfl, hp⟩) hok
  have hfirst : loop B (runAt B b) (runFresh B) env (pathCode r fs) (blockFuel (pathCode r fs)) 0
      { stack := [], log := log } =
      loop B (runAt B b) (runFresh B) env ([.push (.ident r)] ++ fieldsCode fs) (blockFuel (pathCode r fs) - 1) 1
        { stack := [.val (.ident r)], log := log } := by
    have : blockFuel (pathCode r fs) = (blockFuel (pathCode r fs) - 1) + 1 := by simp [blockFuel]
    rw [this, loop]
    simp [pathCode, step, pushV]
  rw [macro_free_runAt, hfirst]
  simp only [List.length_singleton] at hrun
  rw [hrun]
  -- the final pop
  have hv := endTok_val env fs (.ident r) hok
  have ht := endTok_tok env r hp fs hok
  unfold finish
  simp only [if_true]
  have hpop : popS (runAt B b) env { stack := [.val (endTok env (.ident r) fs)], log := log } =
      .ok (.val (tokVal env (endTok env (.ident r) fs))) { stack := [], log := log } := by
    have := popV_tok (rec := runAt B b) env htr (endTok env (.ident r) fs) [] log ht
    unfold popV at this
    split at this
    · rename_i v s' h; cases this; exact h
    · cases this
    · cases this
  rw [hpop, hv]
  show _ = _
  unfold readPath
  simp only [tokVal]
  cases List.foldl field (rootVal env r) fs <;> rfl

/-- **`has(path)`** on the VM model: `true` when the path has a value, `false` when the root is unbound
    or a field is missing, the failure itself when an intermediate value had already failed otherwise. -/
theorem has_path (b : Nat) (env : Env) (this : Val) (r : Str) (fs : List Str) (log : Log)
    (hb : env.hasBinds = true) (htr : env.trackUnres = false) (hp : env.getProg r = none)
    (hc : ∀ f ∈ fs, env.callable B f = none) (hok : PathOk (rootVal env r) fs) :
    callMacro (runAt B (b + 1)) recTop env "has".toList this [pathCode r fs] log =
      ((match readPath env r fs with
        | .err .binding => .bool false
        | .err .attribute => .bool false
        | .err k => .err k
        | _ => .bool true), log) := by
  rw [has_spec, path_eval b env r fs log hb htr hp hc hok]
  cases readPath env r fs with
  | err k => cases k <;> rfl
  | _ => rfl

/-- The four data situations, per level. -/
theorem field_present (m : VMap) (f : Str) (v : Val) (h : Map.get m f = some v) : field (.map m) f = v := by
  simp [field, h]

theorem field_missing_key (m : VMap) (f : Str) (h : Map.get m f = none) : field (.map m) f = .err .attribute := by
  simp [field, h]

theorem field_not_a_map (v : Val) (f : Str) (hm : ∀ m, v ≠ .map m) (he : v.isErr = false) :
    field v f = .err .attribute := by
  cases v <;> first | rfl | exact absurd rfl (hm _) | simp [Val.isErr] at he

theorem field_of_failure (k : ErrKind) (f : Str) : field (.err k) f = .err k := rfl

/-- An unbound root is a Binding failure, and stays one under any further fields. -/
theorem readPath_root_unbound (env : Env) (r : Str) (fs : List Str)
    (h1 : env.getType r = none) (h2 : env.getParam r = none) : readPath env r fs = .err .binding := by
  have h0 : rootVal env r = .err .binding := by simp [rootVal, h1, h2]
  unfold readPath
  rw [h0]
  induction fs with
  | nil => rfl
  | cons f fs ih => exact ih

/-- A missing key (or non-map) at some level is an Attribute failure for the whole path. -/
theorem readPath_absent_below (v : Val) (fs : List Str) (k : ErrKind) (h : v = .err k) :
    fs.foldl field v = .err k := by
  subst h
  induction fs with
  | nil => rfl
  | cons f fs ih => exact ih

end path

/-! ### Non-vacuity -/

private def noBuiltins : Builtins := { func := fun _ => none, ctor := fun _ _ => .null }
private def demoEnv : Env :=
  { params := [("r".toList, .map [("a".toList, .map [("b".toList, .null), ("n".toList, .int 3)])])] }
-- r.a.b is null (a value), r.a.zz is a missing key, r.a.n.x reads a field of an int, q.a has an unbound root
example : readPath demoEnv "r".toList ["a".toList, "b".toList] = .null := rfl
example : readPath demoEnv "r".toList ["a".toList, "zz".toList] = .err .attribute := rfl
example : readPath demoEnv "r".toList ["a".toList, "n".toList, "x".toList] = .err .attribute := rfl
example : readPath demoEnv "q".toList ["a".toList] = .err .binding := rfl
example : PathOk (rootVal demoEnv "r".toList) ["a".toList, "zz".toList] :=
  ⟨(by intro s h; cases h), (by intro s h; cases h), trivial⟩
example : (runAt noBuiltins 1 demoEnv (pathCode "r".toList ["a".toList, "zz".toList]) true []).res =
    .error (.err .attribute) := by rfl
example : (callMacro (runAt noBuiltins 1) (runAt noBuiltins 1) demoEnv "has".toList .null
    [pathCode "r".toList ["a".toList, "b".toList]] []).1 = .bool true := by rfl
example : (callMacro (runAt noBuiltins 1) (runAt noBuiltins 1) demoEnv "has".toList .null
    [pathCode "q".toList ["a".toList, "b".toList]] []).1 = .bool false := by rfl

/-! ### Non-vacuity: concrete callbacks -/

/-- A callback that evaluates block `[push v]` to `v`, fails on `[div]` with a division by zero, on
    `[access]` with Attribute, on `[]` with Binding, and logs one entry per run. -/
private def demoRec : Rec := fun _ code _ log =>
  let log' := log ++ [{ name := [], this := .null, args := [.int code.length] }]
  match code with
  | [.push v] => { res := .ok v, log := log' }
  | [.div] => { res := .error (.err .divZero), log := log' }
  | [.access] => { res := .error (.err .attribute), log := log' }
  | _ => { res := .error (.err .binding), log := log' }

example : (callMacro demoRec demoRec {} "has".toList .null [[.push .null]] []).1 = .bool true := by rfl
example : (callMacro demoRec demoRec {} "has".toList .null [[.access]] []).1 = .bool false := by rfl
example : (callMacro demoRec demoRec {} "has".toList .null [[]] []).1 = .bool false := by rfl
example : (callMacro demoRec demoRec {} "has".toList .null [[.div]] []).1 = .err .divZero := by rfl
example : (callMacro demoRec demoRec {} "has".toList .null [[.div], [.div]] []).1 = .err .argument := by rfl
-- coalesce(absent, null, 7, 1/0): the value 7, three blocks evaluated
example : ((callMacro demoRec demoRec {} "coalesce".toList .null
    [[.access], [.push .null], [.push (.int 7)], [.div]] []).1 = .int 7) ∧
    ((callMacro demoRec demoRec {} "coalesce".toList .null
    [[.access], [.push .null], [.push (.int 7)], [.div]] []).2.length = 3) := ⟨rfl, rfl⟩
-- coalesce(unbound, 1/0, 7): the failure, two blocks evaluated
example : ((callMacro demoRec demoRec {} "coalesce".toList .null [[], [.div], [.push (.int 7)]] []).1 = .err .divZero) ∧
    ((callMacro demoRec demoRec {} "coalesce".toList .null [[], [.div], [.push (.int 7)]] []).2.length = 2) := ⟨rfl, rfl⟩
example : allSkipped demoRec {} [[.access], [.push .null], []] [] = true := by rfl
example : (callMacro demoRec demoRec {} "coalesce".toList .null [[.access], [.push .null], []] []).1 = .null := by rfl

end C08
end Rscel
