import RscelModel.Model.VM
/-
C08 — `has()` and `coalesce()` distinguish absent data from every other failure.

The two macros are the model's `callMacro … "has"` / `callMacro … "coalesce"` (`Model/VM.lean`,
mirroring `default_macros/has.rs`, `coalesce.rs`).  Every theorem is stated for an *arbitrary*
nested-run callback `rec` (how an argument block evaluates, what it appends to the call log), an
arbitrary environment and arbitrary argument blocks: nothing about the arguments is assumed.

* `absent` — the definition of "fails because data is absent": the failure is a Binding error
  (unbound variable) or an Attribute error (missing field / key); `absent_iff`.
* `has_spec`, `has_false_iff`, `has_true_iff`, `has_propagates`, `has_arity`.
* `coalesce_chosen`, `coalesce_fails`, `coalesce_none` (each: the decomposition forces result *and*
  call log), `coalesce_spec` (one of the three always applies), `coalesce_ignores_rest` (arguments after
  the chosen one have no influence: they are not run), `coalesce_empty`.
* `context_independent` — both macros depend on the environment and the callback only, not on where
  they are called from (`this`, the fresh-interpreter callback used for loop variables).
-/
namespace Rscel
namespace C08

/-- A failed evaluation counts as *absent data* exactly when it is a Binding error (unbound variable) or
    an Attribute error (missing field or key). -/
def absent : Abort → Bool
  | .err .binding => true
  | .err .attribute => true
  | _ => false

theorem absent_iff (a : Abort) : absent a = true ↔ a = .err .binding ∨ a = .err .attribute := by
  cases a with
  | err k => cases k <;> simp [absent]
  | _ => simp [absent]

/-- Division by zero, type errors (`value`, `invalidOp`), bad indices (`value`), argument errors, runtime
    errors, exceeded call depth … are not absence. -/
theorem other_failures_not_absent :
    absent (.err .divZero) = false ∧ absent (.err .value) = false ∧ absent (.err .invalidOp) = false ∧
    absent (.err .argument) = false ∧ absent (.err .runtime) = false ∧ absent (.err .internal) = false ∧
    absent (.err .misc) = false ∧ absent (.err .syntax) = false ∧ absent .depth = false ∧
    absent .underflow = false ∧ absent .badJump = false ∧ absent .fuel = false := by
  simp [absent]

/-- The kind reported for an absent failure is again Binding or Attribute — and vice versa, so looking
    at the reported kind (what the harness observes) is the same as looking at the abort. -/
theorem absent_kind (a : Abort) : absent a = true ↔ a.kind = .binding ∨ a.kind = .attribute := by
  cases a with
  | err k => cases k <;> simp [absent, Abort.kind]
  | _ => simp [absent, Abort.kind]

variable (rec recTop : Rec)

/-! ### `has` -/

/-- `has(e)`: `true` when the argument evaluates (to anything, `null` included), `false` when it fails
    with an absence failure, otherwise the same failure.  The call log is the argument's. -/
theorem has_spec (env : Env) (this : Val) (a : List Instr) (log : Log) :
    callMacro rec recTop env "has".toList this [a] log =
      ((match (rec env a true log).res with
        | .ok _ => Val.bool true
        | .error e => if absent e then .bool false else .err e.kind),
       (rec env a true log).log) := by
  unfold callMacro
  rw [if_pos rfl]
  dsimp only
  cases h : (rec env a true log).res with
  | ok v => rfl
  | error e =>
    cases e with
    | err k => cases k <;> rfl
    | _ => rfl

/-- `false` *exactly* when the argument fails with Binding or Attribute. -/
theorem has_false_iff (env : Env) (this : Val) (a : List Instr) (log : Log) :
    (callMacro rec recTop env "has".toList this [a] log).1 = .bool false ↔
      (rec env a true log).res = .error (.err .binding) ∨ (rec env a true log).res = .error (.err .attribute) := by
  rw [has_spec]
  cases h : (rec env a true log).res with
  | ok v => simp
  | error e =>
    cases e with
    | err k => cases k <;> simp [absent]
    | _ => simp [absent]

/-- `true` exactly when the argument evaluates. -/
theorem has_true_iff (env : Env) (this : Val) (a : List Instr) (log : Log) :
    (callMacro rec recTop env "has".toList this [a] log).1 = .bool true ↔
      ∃ v, (rec env a true log).res = .ok v := by
  rw [has_spec]
  cases h : (rec env a true log).res with
  | ok v => simp
  | error e =>
    cases e with
    | err k => cases k <;> simp [absent]
    | _ => simp [absent]

/-- Every other failure propagates with its kind. -/
theorem has_propagates (env : Env) (this : Val) (a : List Instr) (log : Log) (e : Abort)
    (h : (rec env a true log).res = .error e) (hna : absent e = false) :
    callMacro rec recTop env "has".toList this [a] log = (.err e.kind, (rec env a true log).log) := by
  rw [has_spec, h]; simp [hna]

/-- Any other number of arguments is an Argument error; nothing is evaluated. -/
theorem has_arity (env : Env) (this : Val) (args : List (List Instr)) (log : Log) (h : args.length ≠ 1) :
    callMacro rec recTop env "has".toList this args log = (.err .argument, log) := by
  unfold callMacro
  rw [if_pos rfl]
  match args, h with
  | [], _ => rfl
  | _ :: _ :: _, _ => rfl

/-! ### `coalesce` -/

/-- An argument's outcome is passed over: it is `null` or an absence failure. -/
def skipped (o : Out) : Bool :=
  match o.res with
  | .ok .null => true
  | .ok _ => false
  | .error e => absent e

/-- The call log after evaluating the blocks `as` one after the other, starting from `log`. -/
def logAfter (env : Env) : List (List Instr) → Log → Log
  | [], log => log
  | a :: as, log => logAfter env as (rec env a true log).log

/-- Every block of `as`, evaluated left to right (each starting from the log its predecessor left),
    comes out `null` or absent. -/
def allSkipped (env : Env) : List (List Instr) → Log → Bool
  | [], _ => true
  | a :: as, log => skipped (rec env a true log) && allSkipped env as (rec env a true log).log

theorem coalesce_is_loop (env : Env) (this : Val) (args : List (List Instr)) (log : Log) :
    callMacro rec recTop env "coalesce".toList this args log = coalesceLoop rec env args log := by
  unfold callMacro
  rw [if_neg (by decide), if_pos rfl]

/-- One unfolding of the loop in terms of `skipped`. -/
theorem loop_cons (env : Env) (a : List Instr) (as : List (List Instr)) (log : Log) :
    coalesceLoop rec env (a :: as) log =
      if skipped (rec env a true log) then coalesceLoop rec env as (rec env a true log).log
      else match (rec env a true log).res with
        | .ok v => (v, (rec env a true log).log)
        | .error e => (.err e.kind, (rec env a true log).log) := by
  rw [coalesceLoop]
  unfold skipped
  cases h : (rec env a true log).res with
  | ok v => cases v <;> simp
  | error e =>
    cases e with
    | err k => cases k <;> simp [absent]
    | _ => simp [absent]

theorem loop_skip_prefix (env : Env) (pre rest : List (List Instr)) (log : Log)
    (h : allSkipped rec env pre log = true) :
    coalesceLoop rec env (pre ++ rest) log = coalesceLoop rec env rest (logAfter rec env pre log) := by
  induction pre generalizing log with
  | nil => rfl
  | cons a as ih =>
    simp only [allSkipped, Bool.and_eq_true] at h
    rw [List.cons_append, loop_cons, if_pos h.1, ih _ h.2, logAfter]

/-- **Chosen argument.** If the arguments before `a` are all `null`/absent and `a` evaluates to a
    non-null value `v`, the result is `v`, and the call log is the one left by evaluating exactly
    `pre` and then `a` — nothing of `post` is evaluated. -/
theorem coalesce_chosen (env : Env) (this : Val) (pre post : List (List Instr)) (a : List Instr) (log : Log)
    (v : Val) (hpre : allSkipped rec env pre log = true)
    (ha : (rec env a true (logAfter rec env pre log)).res = .ok v) (hv : v ≠ .null) :
    callMacro rec recTop env "coalesce".toList this (pre ++ a :: post) log =
      (v, (rec env a true (logAfter rec env pre log)).log) := by
  rw [coalesce_is_loop, loop_skip_prefix rec env pre _ log hpre, loop_cons]
  have : skipped (rec env a true (logAfter rec env pre log)) = false := by
    unfold skipped; rw [ha]; cases v <;> simp_all
  rw [this, ha]; rfl

/-- **Other failures propagate.** If the arguments before `a` are all `null`/absent and `a` fails with a
    failure that is not absence, the macro fails with that kind; nothing of `post` is evaluated. -/
theorem coalesce_fails (env : Env) (this : Val) (pre post : List (List Instr)) (a : List Instr) (log : Log)
    (e : Abort) (hpre : allSkipped rec env pre log = true)
    (ha : (rec env a true (logAfter rec env pre log)).res = .error e) (he : absent e = false) :
    callMacro rec recTop env "coalesce".toList this (pre ++ a :: post) log =
      (.err e.kind, (rec env a true (logAfter rec env pre log)).log) := by
  rw [coalesce_is_loop, loop_skip_prefix rec env pre _ log hpre, loop_cons]
  have : skipped (rec env a true (logAfter rec env pre log)) = false := by
    unfold skipped; rw [ha]; exact he
  rw [this, ha]; rfl

/-- **Nothing qualifies.** All arguments `null`/absent: the result is `null`, every argument was
    evaluated once, in order. -/
theorem coalesce_none (env : Env) (this : Val) (args : List (List Instr)) (log : Log)
    (h : allSkipped rec env args log = true) :
    callMacro rec recTop env "coalesce".toList this args log = (.null, logAfter rec env args log) := by
  rw [coalesce_is_loop]
  have := loop_skip_prefix rec env args [] log h
  rw [List.append_nil] at this
  rw [this]; rfl

theorem coalesce_empty (env : Env) (this : Val) (log : Log) :
    callMacro rec recTop env "coalesce".toList this [] log = (.null, log) :=
  coalesce_none rec recTop env this [] log rfl

/-- **Specification.** For every argument list exactly the three situations above occur: a first
    argument that is neither `null` nor absent is returned (or, if it fails otherwise, its failure),
    else `null`.  With `coalesce_chosen`, `coalesce_fails`, `coalesce_none` this determines result and call
    log completely. -/
theorem coalesce_spec (env : Env) (args : List (List Instr)) (log : Log) :
    (∃ pre a post v, args = pre ++ a :: post ∧ allSkipped rec env pre log = true ∧
        (rec env a true (logAfter rec env pre log)).res = .ok v ∧ v ≠ .null) ∨
    (∃ pre a post e, args = pre ++ a :: post ∧ allSkipped rec env pre log = true ∧
        (rec env a true (logAfter rec env pre log)).res = .error e ∧ absent e = false) ∨
    allSkipped rec env args log = true := by
  induction args generalizing log with
  | nil => exact .inr (.inr rfl)
  | cons a as ih =>
    by_cases hs : skipped (rec env a true log) = true
    · rcases ih (rec env a true log).log with ⟨pre, b, post, v, h1, h2, h3, h4⟩ | ⟨pre, b, post, e, h1, h2, h3, h4⟩ | h
      · exact .inl ⟨a :: pre, b, post, v, by rw [h1]; rfl, by simp [allSkipped, hs, h2], h3, h4⟩
      · exact .inr (.inl ⟨a :: pre, b, post, e, by rw [h1]; rfl, by simp [allSkipped, hs, h2], h3, h4⟩)
      · exact .inr (.inr (by simp [allSkipped, hs, h]))
    · cases hr : (rec env a true log).res with
      | ok v =>
        refine .inl ⟨[], a, as, v, rfl, rfl, hr, ?_⟩
        intro hv; subst hv; simp [skipped, hr] at hs
      | error e =>
        refine .inr (.inl ⟨[], a, as, e, rfl, rfl, hr, ?_⟩)
        simpa [skipped, hr] using hs

/-- Arguments after the chosen (or failing) one have no influence on result or call log. -/
theorem coalesce_ignores_rest (env : Env) (this : Val) (pre post post' : List (List Instr)) (a : List Instr)
    (log : Log) (hpre : allSkipped rec env pre log = true)
    (ha : skipped (rec env a true (logAfter rec env pre log)) = false) :
    callMacro rec recTop env "coalesce".toList this (pre ++ a :: post) log =
      callMacro rec recTop env "coalesce".toList this (pre ++ a :: post') log := by
  rw [coalesce_is_loop, coalesce_is_loop, loop_skip_prefix rec env pre _ log hpre,
    loop_skip_prefix rec env pre _ log hpre, loop_cons, loop_cons, ha]
  rfl

/-! ### The same everywhere -/

/-- Neither macro looks at the receiver or at the fresh-interpreter callback (used by the comprehension
    macros for their loop variable): the outcome is a function of the environment, the argument blocks,
    the incoming log and how blocks evaluate — the same at top level and inside a macro body whose
    environment is `env`. -/
theorem context_independent (recTop' : Rec) (env : Env) (this this' : Val) (args : List (List Instr)) (log : Log) :
    callMacro rec recTop env "has".toList this args log = callMacro rec recTop' env "has".toList this' args log ∧
    callMacro rec recTop env "coalesce".toList this args log =
      callMacro rec recTop' env "coalesce".toList this' args log := by
  constructor
  · unfold callMacro; rw [if_pos rfl, if_pos rfl]
  · rw [coalesce_is_loop, coalesce_is_loop]

/-- `has` and `coalesce` are not available to the compile-time folder (`BindContext::for_compile`), so a
    call is never pre-evaluated. -/
theorem never_folded (e : Env) (h : e.compileMode = true) :
    e.isMacro "has".toList = false ∧ e.isMacro "coalesce".toList = false := by
  simp [Env.isMacro, h, compileMacros]

/-! ### Non-vacuity: concrete callbacks -/

/-- A callback that evaluates block `[push v]` to `v`, fails on `[div]` with a division by zero, on
    `[access]` with Attribute, on `[]` with Binding, and logs one entry per run. -/
private def demoRec : Rec := fun _ code _ log =>
  let log' := log ++ [{ name := [], this := .null, args := [.int code.length] }]
  match code with
  | [.push v] => { res := .ok v, log := log' }
  | [.div] => { res := .error (.err .divZero), log := log' }
  | [.access] => { res := .error (.err .attribute), log := log' }
  | _ => { res := .error (.err .binding), log := log' }

example : (callMacro demoRec demoRec {} "has".toList .null [[.push .null]] []).1 = .bool true := by rfl
example : (callMacro demoRec demoRec {} "has".toList .null [[.access]] []).1 = .bool false := by rfl
example : (callMacro demoRec demoRec {} "has".toList .null [[]] []).1 = .bool false := by rfl
example : (callMacro demoRec demoRec {} "has".toList .null [[.div]] []).1 = .err .divZero := by rfl
example : (callMacro demoRec demoRec {} "has".toList .null [[.div], [.div]] []).1 = .err .argument := by rfl
-- coalesce(absent, null, 7, 1/0): the value 7, three blocks evaluated
example : ((callMacro demoRec demoRec {} "coalesce".toList .null
    [[.access], [.push .null], [.push (.int 7)], [.div]] []).1 = .int 7) ∧
    ((callMacro demoRec demoRec {} "coalesce".toList .null
    [[.access], [.push .null], [.push (.int 7)], [.div]] []).2.length = 3) := ⟨rfl, rfl⟩
-- coalesce(unbound, 1/0, 7): the failure, two blocks evaluated
example : ((callMacro demoRec demoRec {} "coalesce".toList .null [[], [.div], [.push (.int 7)]] []).1 = .err .divZero) ∧
    ((callMacro demoRec demoRec {} "coalesce".toList .null [[], [.div], [.push (.int 7)]] []).2.length = 2) := ⟨rfl, rfl⟩
example : allSkipped demoRec {} [[.access], [.push .null], []] [] = true := by rfl
example : (callMacro demoRec demoRec {} "coalesce".toList .null [[.access], [.push .null], []] []).1 = .null := by rfl

end C08
end Rscel
