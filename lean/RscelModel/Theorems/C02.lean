import RscelModel.Lemmas.Skel
import RscelModel.Model.Compile
/-
C02 — parsing assigns the CEL grammar's precedence, associativity and grouping.

Specification (`Lemmas/ParseLevels.lean`): `T` is a derivation tree of the CEL operator grammar — `?:`
(level 0), `||` (1), `&&` (2), the relations and `in` (3), `+ -` (4), `* / %` (5), runs of `!` / unary `-`
(6), members (7): a primary — identifier, integer literal, parenthesised expression — followed by a chain of
postfix operations `.name`, `[index]`, `(arguments)`.  `T.Wf` is derivability: a left
operand sits at the operator's level or tighter (grouping to the left), a right operand strictly tighter,
the condition and true branch of `?:` are `||`-level or tighter while its else branch is any expression
(nesting to the right), a unary run and a postfix operation apply to a member.  `render t` is the token list the tree derives,
`embed t` the syntax tree the grammar assigns to it (`Parens` nodes where the derivation has
parentheses).  All of this is written without reference to the parser.

Main theorem `parse_render`: the parser of the model (`parseExpr … parseMember`, the functions the driver
runs and the harness compares with `Program::ast()`), run on the token list of ANY derivation tree,
returns exactly the tree of that derivation — for trees of every size; the only bounds are the
parser's own nesting limit (`nest t < 32`, tight) and recursion fuel.  The corollaries spell out what the
property text lists: left grouping at equal precedence, the order of the levels, `?:` loosest and nesting
right, unary runs tighter than every binary operator, postfix chains tightest, parentheses override; adding
parentheses that agree
with the structure (or moving tokens, i.e. changing whitespace) does not change the tree modulo `Parens`.

Not proved here (sampled by the harness instead): calls with more than two arguments, list/map
literals, the other literal kinds and `match` inside operands (the primaries of the theorems are
identifiers, integer literals and parenthesised expressions); the character-level tokenizer (whitespace is covered on the
token level: spans are arbitrary); invariance of the *evaluation result* under redundant parentheses
(only `paren_compiles_to_inner` below; `(a || b) || c` and `a || b || c` get different jump layouts).
-/
namespace Rscel
namespace C02

/-- A token-list source positioned at the start. -/
def src (toks : TS) (eof : Loc) : ListTok := ⟨toks, false, ⟨0, 0⟩, eof, none⟩

/-- The tree fits the parser's nesting limit and the recursion fuel `f`. -/
def Fits (t : T) (f : Nat) : Prop := nest t + 1 ≤ maxNesting ∧ fuel t + 16 ≤ f

/-- **The parser rebuilds the derivation.**  For every derivation tree `t` of the CEL operator grammar,
    parsing the tokens it derives succeeds, consumes all of them, and yields `embed t`. -/
theorem parse_render (t : T) (hw : t.Wf) (f : Nat) (hfit : Fits t f) (eof : Loc) :
    parseFrom listSrc f (src (render t) eof) = .ok (embed t) := by
  obtain ⟨hn, hf⟩ := hfit
  have ha : At { ts := src (render t) eof, depth := 0, minLit := false } (render t ++ []) 0 := by
    simp [At, src]
  obtain ⟨ps1, e1, a1⟩ := (main t hw).1 0 (Nat.zero_le _) f _ [] 0 (by omega) ha (by simp; omega) trivial
  obtain ⟨ps2, e2, a2⟩ := pPeek_at a1
  simp only [parseAt] at e1
  simp only [parseFrom, e1, e2, List.head?]

/-- The same for a source text whose tokens are those of a derivation (`parseProgram` is what the
    driver's `parselist` command runs). -/
theorem parseProgram_render (t : T) (hw : t.Wf) (text : Str) (l : Lexed) (hl : tokenize text = .ok l)
    (ht : l.toks = render t) (hfit : Fits t (parseFuel text.length)) :
    parseProgram listSrc text = .ok (embed t) := by
  have := parse_render t hw _ hfit l.eofLoc
  simpa [parseProgram, listSrc, hl, ht, src] using this

/-- The grammar is unambiguous on its derivations: two derivation trees with the same tokens have the
    same syntax tree. -/
theorem derivation_unique (t₁ t₂ : T) (h₁ : t₁.Wf) (h₂ : t₂.Wf) (f : Nat) (f₁ : Fits t₁ f) (f₂ : Fits t₂ f)
    (h : render t₁ = render t₂) : embed t₁ = embed t₂ := by
  have e₁ := parse_render t₁ h₁ f f₁ ⟨0, 0⟩
  have e₂ := parse_render t₂ h₂ f f₂ ⟨0, 0⟩
  rw [h, e₂] at e₁
  exact (Except.ok.inj e₁).symm

/-! ### What the property text lists, spelled out

`Operand k a`: `a` is a derivation whose production is of level `k` or tighter.  In `a o₁ b o₂ c` the
operands `b`, `c` are tighter than both operators and `a` is at least as tight as `o₁` (e.g. all three
atoms, parenthesised expressions or unary runs). -/

def Operand (k : Nat) (a : T) : Prop := a.Wf ∧ k ≤ a.level

/-- `a o₁ b o₂ c` for arbitrary token positions `s₁`, `s₂`. -/
def flat3 (a : T) (o₁ : BinOp) (s₁ : Span) (b : T) (o₂ : BinOp) (s₂ : Span) (c : T) : TS :=
  render a ++ (tokOf o₁, s₁) :: (render b ++ (tokOf o₂, s₂) :: render c)

/-- When the second operator does not bind tighter than the first, `a o₁ b o₂ c` is `(a o₁ b) o₂ c`. -/
theorem groups_left (o₁ o₂ : BinOp) (h : o₂.level ≤ o₁.level) (a b c : T) (s₁ s₂ : Span)
    (ha : Operand o₁.level a) (hb : Operand (o₁.level + 1) b) (hc : Operand (o₂.level + 1) c)
    (f : Nat) (hfit : Fits (.bin o₂ s₂ (.bin o₁ s₁ a b) c) f) (eof : Loc) :
    parseFrom listSrc f (src (flat3 a o₁ s₁ b o₂ s₂ c) eof) = .ok (embed (.bin o₂ s₂ (.bin o₁ s₁ a b) c)) := by
  have := parse_render (.bin o₂ s₂ (.bin o₁ s₁ a b) c)
    ⟨by simpa [T.level] using h, hc.2, ⟨ha.2, hb.2, ha.1, hb.1⟩, hc.1⟩ f hfit eof
  simpa [render, flat3] using this

/-- Equal precedence groups to the left: `a - b - c` is `(a - b) - c`, `a / b * c` is `(a / b) * c`,
    `a < b == c` is `(a < b) == c`, for every pair of operators of one level. -/
theorem left_assoc (o₁ o₂ : BinOp) (h : o₁.level = o₂.level) (a b c : T) (s₁ s₂ : Span)
    (ha : Operand o₁.level a) (hb : Operand (o₁.level + 1) b) (hc : Operand (o₂.level + 1) c)
    (f : Nat) (hfit : Fits (.bin o₂ s₂ (.bin o₁ s₁ a b) c) f) (eof : Loc) :
    parseFrom listSrc f (src (flat3 a o₁ s₁ b o₂ s₂ c) eof) = .ok (embed (.bin o₂ s₂ (.bin o₁ s₁ a b) c)) :=
  groups_left o₁ o₂ (by omega) a b c s₁ s₂ ha hb hc f hfit eof

/-- A tighter second operator takes the middle operand: `a o₁ b o₂ c` is `a o₁ (b o₂ c)` when `o₂` binds
    tighter than `o₁` (`a + b * c`, `a == b + c`, `a && b < c`, `a || b && c`, …: the order of the levels). -/
theorem tighter_binds_first (o₁ o₂ : BinOp) (h : o₁.level < o₂.level) (a b c : T) (s₁ s₂ : Span)
    (ha : Operand o₁.level a) (hb : Operand o₂.level b) (hc : Operand (o₂.level + 1) c)
    (f : Nat) (hfit : Fits (.bin o₁ s₁ a (.bin o₂ s₂ b c)) f) (eof : Loc) :
    parseFrom listSrc f (src (flat3 a o₁ s₁ b o₂ s₂ c) eof) = .ok (embed (.bin o₁ s₁ a (.bin o₂ s₂ b c))) := by
  have := parse_render (.bin o₁ s₁ a (.bin o₂ s₂ b c))
    ⟨ha.2, by simp only [T.level]; omega, ha.1, ⟨hb.2, hc.2, hb.1, hc.1⟩⟩ f hfit eof
  simpa [render, flat3] using this

/-- The level table of the property text, as the order the two theorems above depend on. -/
theorem level_order :
    BinOp.or.level < BinOp.and.level ∧
    (∀ r ∈ [BinOp.lt, .le, .ge, .gt, .eq, .ne, .in_], BinOp.and.level < r.level ∧ r.level < BinOp.add.level) ∧
    BinOp.add.level = BinOp.sub.level ∧ BinOp.sub.level < BinOp.mul.level ∧
    BinOp.mul.level = BinOp.div.level ∧ BinOp.div.level = BinOp.mod.level := by
  simp [BinOp.level]

/-- `?:` binds loosest: `a ? b : c` with `||`-level (or tighter) operands is one conditional over them,
    whatever binary operators the operands contain. -/
theorem tern_loosest (a b c : T) (q k : Span) (ha : Operand 1 a) (hb : Operand 1 b) (hc : Operand 1 c)
    (f : Nat) (hfit : Fits (.tern q k a b c) f) (eof : Loc) :
    parseFrom listSrc f (src (render a ++ (.question, q) :: (render b ++ (.colon, k) :: render c)) eof)
      = .ok (embed (.tern q k a b c)) := by
  have := parse_render (.tern q k a b c) ⟨ha.2, hb.2, ha.1, hb.1, hc.1⟩ f hfit eof
  simpa [render] using this

/-- `?:` nests to the right in its else branch: `a ? b : c ? d : e` is `a ? b : (c ? d : e)`. -/
theorem tern_right_nest (a b c d e : T) (q₁ k₁ q₂ k₂ : Span)
    (ha : Operand 1 a) (hb : Operand 1 b) (hc : Operand 1 c) (hd : Operand 1 d) (he : e.Wf)
    (f : Nat) (hfit : Fits (.tern q₁ k₁ a b (.tern q₂ k₂ c d e)) f) (eof : Loc) :
    parseFrom listSrc f (src (render a ++ (.question, q₁) :: (render b ++ (.colon, k₁) ::
        (render c ++ (.question, q₂) :: (render d ++ (.colon, k₂) :: render e)))) eof)
      = .ok (embed (.tern q₁ k₁ a b (.tern q₂ k₂ c d e))) := by
  have := parse_render (.tern q₁ k₁ a b (.tern q₂ k₂ c d e))
    ⟨ha.2, hb.2, ha.1, hb.1, ⟨hc.2, hd.2, hc.1, hd.1, he⟩⟩ f hfit eof
  simpa [render] using this

/-- Unary runs bind tighter than every binary operator: `!…!a op -…-b` applies the runs to `a` and `b`. -/
theorem unary_tighter (op : BinOp) (a b : T) (s n m : Span) (ns ms : List Span)
    (ha : Operand 7 a) (hb : Operand 7 b)
    (f : Nat) (hfit : Fits (.bin op s (.nots n ns a) (.negs m ms b)) f) (eof : Loc) :
    parseFrom listSrc f (src ((n :: ns).map (fun x => (Tok.not, x)) ++ (render a ++ (tokOf op, s) ::
        ((m :: ms).map (fun x => (Tok.minus, x)) ++ render b))) eof)
      = .ok (embed (.bin op s (.nots n ns a) (.negs m ms b))) := by
  have h5 : op.level ≤ 5 := by cases op <;> simp [BinOp.level]
  have := parse_render (.bin op s (.nots n ns a) (.negs m ms b))
    ⟨by simp [T.level]; omega, by simp [T.level]; omega, ⟨ha.2, ha.1⟩, ⟨hb.2, hb.1⟩⟩ f hfit eof
  simpa [render] using this

/-- Postfix chains bind tighter than unary runs: `-e.name` negates the member access, `!e[i]` negates
    the indexed value (it is not `(-e).name` / `(!e)[i]`). -/
theorem postfix_tighter_than_unary (e i : T) (m d n o l r : Span) (ms os : List Span) (name : Str)
    (he : Operand 7 e) (hi : i.Wf) (f : Nat) (eof : Loc) :
    (Fits (.negs m ms (.access e d n name)) f →
      parseFrom listSrc f (src ((m :: ms).map (fun x => (Tok.minus, x)) ++ (render e ++
          [(Tok.dot, d), (Tok.ident name, n)])) eof)
        = .ok (embed (.negs m ms (.access e d n name)))) ∧
    (Fits (.nots o os (.index e l r i)) f →
      parseFrom listSrc f (src ((o :: os).map (fun x => (Tok.not, x)) ++ (render e ++
          (Tok.lbracket, l) :: (render i ++ [(Tok.rbracket, r)]))) eof)
        = .ok (embed (.nots o os (.index e l r i)))) := by
  constructor
  · intro hfit
    have := parse_render (.negs m ms (.access e d n name)) ⟨by simp [T.level], he.2, he.1⟩ f hfit eof
    simpa [render] using this
  · intro hfit
    have := parse_render (.nots o os (.index e l r i)) ⟨by simp [T.level], he.2, he.1, hi⟩ f hfit eof
    simpa [render] using this

/-- … and tighter than every binary operator, applying left to right: `a op e.name[i](x, y)` is
    `a op (((e.name)[i])(x, y))`, a method call on the indexed member. -/
theorem postfix_chain (op : BinOp) (a e i x y : T) (s d n l r cl cr cm : Span) (name : Str)
    (ha : Operand op.level a) (he : Operand 7 e) (hi : i.Wf) (hx : x.Wf) (hy : y.Wf)
    (f : Nat) (hfit : Fits (.bin op s a (.call2 (.index (.access e d n name) l r i) cl cr x cm y)) f)
    (eof : Loc) :
    parseFrom listSrc f (src (render a ++ (tokOf op, s) :: (render e ++ (Tok.dot, d) :: (Tok.ident name, n) ::
        (Tok.lbracket, l) :: (render i ++ (Tok.rbracket, r) :: (Tok.lparen, cl) :: (render x ++ (Tok.comma, cm) ::
        (render y ++ [(Tok.rparen, cr)]))))) eof)
      = .ok (embed (.bin op s a (.call2 (.index (.access e d n name) l r i) cl cr x cm y))) := by
  have h5 : op.level ≤ 5 := by cases op <;> simp [BinOp.level]
  have := parse_render (.bin op s a (.call2 (.index (.access e d n name) l r i) cl cr x cm y))
    ⟨ha.2, by simp only [T.level]; omega, ha.1,
      ⟨by simp [T.level], ⟨by simp [T.level], ⟨he.2, he.1⟩, hi⟩, hx, hy⟩⟩ f hfit eof
  simpa [render] using this

/-- The chain and the arguments as `Program::ast()` stores them: operations first to last, the
    arguments of a call last to first. -/
theorem postfix_chain_tree (sp d n l r cl cr cm sx sy si : Span) (v name : Str) (k : Nat) (x y : Str) :
    embed (.call2 (.index (.access (.ident sp v) d n name) l r (.int si k)) cl cr (.ident sx x) cm (.ident sy y))
      = mkMember (.ident sp v) [.access (d.join n) n name, .index (l.join r) (embed (.int si k)),
          .call (cl.join cr) [embed (.ident sy y), embed (.ident sx x)]] := rfl

/-- Parentheses override: `(a o₁ b) o₂ c` and `a o₂ (b o₁ c)` keep the parenthesised operand whole, for
    every pair of operators. -/
theorem parens_override (o₁ o₂ : BinOp) (a b c : T) (s₁ s₂ l r : Span)
    (ha : Operand (o₁.level + 1) a) (hb : Operand (o₁.level + 1) b) (hc : Operand (o₂.level + 1) c)
    (f : Nat) (eof : Loc) :
    (Fits (.bin o₂ s₂ (.paren l r (.bin o₁ s₁ a b)) c) f →
      parseFrom listSrc f (src ((Tok.lparen, l) :: (render a ++ (tokOf o₁, s₁) :: (render b ++
          (Tok.rparen, r) :: (tokOf o₂, s₂) :: render c))) eof)
        = .ok (embed (.bin o₂ s₂ (.paren l r (.bin o₁ s₁ a b)) c))) ∧
    (Fits (.bin o₂ s₂ c (.paren l r (.bin o₁ s₁ a b))) f →
      parseFrom listSrc f (src (render c ++ (tokOf o₂, s₂) :: (Tok.lparen, l) :: (render a ++
          (tokOf o₁, s₁) :: (render b ++ [(Tok.rparen, r)]))) eof)
        = .ok (embed (.bin o₂ s₂ c (.paren l r (.bin o₁ s₁ a b))))) := by
  have h5 : o₂.level ≤ 5 := by cases o₂ <;> simp [BinOp.level]
  have hin : (T.bin o₁ s₁ a b).Wf := ⟨by have := ha.2; omega, hb.2, ha.1, hb.1⟩
  constructor
  · intro hfit
    have := parse_render (.bin o₂ s₂ (.paren l r (.bin o₁ s₁ a b)) c)
      ⟨by simp [T.level]; omega, hc.2, hin, hc.1⟩ f hfit eof
    simpa [render] using this
  · intro hfit
    have := parse_render (.bin o₂ s₂ c (.paren l r (.bin o₁ s₁ a b)))
      ⟨by have := hc.2; omega, by simp [T.level]; omega, hc.1, hin⟩ f hfit eof
    simpa [render] using this

/-! ### Shape modulo parentheses and token positions -/

/-- Whatever parentheses a derivation contains and wherever its tokens sit in the text, the parsed tree,
    with `Parens` nodes and spans dropped, is the operator tree of the derivation. -/
theorem parse_shape (t : T) (hw : t.Wf) (f : Nat) (hfit : Fits t f) (eof : Loc) :
    (parseFrom listSrc f (src (render t) eof)).map Ast.skel = .ok t.skel := by
  rw [parse_render t hw f hfit eof]
  simp [Except.map, embed_skel t hw]

/-- Adding parentheses that agree with the structure, or changing the whitespace between tokens, does
    not change the shape of the syntax tree: two derivations of the same operator tree (they differ in
    parentheses and token positions only) parse to trees of the same shape. -/
theorem parens_and_whitespace_invisible (t₁ t₂ : T) (h₁ : t₁.Wf) (h₂ : t₂.Wf) (h : t₁.skel = t₂.skel)
    (f : Nat) (f₁ : Fits t₁ f) (f₂ : Fits t₂ f) (eof₁ eof₂ : Loc) :
    (parseFrom listSrc f (src (render t₁) eof₁)).map Ast.skel =
      (parseFrom listSrc f (src (render t₂) eof₂)).map Ast.skel := by
  rw [parse_shape t₁ h₁ f f₁, parse_shape t₂ h₂ f f₂, h]

/-- Every abstract operator tree `u` (any shape: right-leaning chains, loose operators under tight
    ones, …) is parsed back from its minimal parenthesisation. -/
theorem parse_renderMin (u : T) (hi : u.IntsOk) (f : Nat) (hfit : Fits (parenMin u) f) (eof : Loc) :
    (parseFrom listSrc f (src (render (parenMin u)) eof)).map Ast.skel = .ok u.skel := by
  rw [parse_shape _ (parenMin_wf u hi) f hfit, parenMin_skel]

/-- A parenthesised expression compiles to the code of the expression inside. -/
theorem paren_compiles_to_inner (B : Builtins) (sp sp' : Span) (e : Ast) :
    compile B (.member sp (.parens sp' e) []) = compile B e := by
  simp [compile, compileX, compilePrim, compileOps]

/-! ### Non-vacuity: concrete derivations -/

section Examples
private def sp0 : Span := default
private def v (s : String) : T := .ident sp0 s.toList

/-- `a || b && c < d + e * -f.k ? !g[0] : h - i - m(3, j)` (nine binary operators, a `?:`, postfix chains). -/
private def big : T :=
  .tern sp0 sp0
    (.bin .or sp0 (v "a") (.bin .and sp0 (v "b") (.bin .lt sp0 (v "c")
      (.bin .add sp0 (v "d") (.bin .mul sp0 (v "e") (.negs sp0 [] (.access (v "f") sp0 sp0 "k".toList)))))))
    (.nots sp0 [] (.index (v "g") sp0 sp0 (.int sp0 0)))
    (.bin .sub sp0 (.bin .sub sp0 (v "h") (v "i")) (.call2 (v "m") sp0 sp0 (.int sp0 3) sp0 (v "j")))

example : big.Wf := by simp [big, v, T.Wf, T.level, BinOp.level, i64Max]
example : Fits big 400 := by simp [Fits, big, v, nest, fuel, maxNesting]
example : parseFrom listSrc 400 (src (render big) ⟨0, 0⟩) = .ok (embed big) :=
  parse_render big (by simp [big, v, T.Wf, T.level, BinOp.level, i64Max]) 400
    (by simp [Fits, big, v, nest, fuel, maxNesting]) _

/-- hypotheses of `groups_left` / `left_assoc` are satisfiable: `a - b - c` -/
example : parseFrom listSrc 100 (src (flat3 (v "a") .sub sp0 (v "b") .sub sp0 (v "c")) ⟨0, 0⟩)
    = .ok (embed (.bin .sub sp0 (.bin .sub sp0 (v "a") (v "b")) (v "c"))) :=
  left_assoc .sub .sub rfl _ _ _ _ _ (by simp [Operand, v, T.Wf, T.level, BinOp.level])
    (by simp [Operand, v, T.Wf, T.level, BinOp.level]) (by simp [Operand, v, T.Wf, T.level, BinOp.level]) 100
    (by simp [Fits, v, nest, fuel, maxNesting]) _

/-- `a + b * c` -/
example : parseFrom listSrc 100 (src (flat3 (v "a") .add sp0 (v "b") .mul sp0 (v "c")) ⟨0, 0⟩)
    = .ok (embed (.bin .add sp0 (v "a") (.bin .mul sp0 (v "b") (v "c")))) :=
  tighter_binds_first .add .mul (by simp [BinOp.level]) _ _ _ _ _ (by simp [Operand, v, T.Wf, T.level, BinOp.level])
    (by simp [Operand, v, T.Wf, T.level, BinOp.level]) (by simp [Operand, v, T.Wf, T.level, BinOp.level]) 100
    (by simp [Fits, v, nest, fuel, maxNesting]) _

/-- the minimal parenthesisation of the right-leaning `a - (b - c)` has exactly one pair of parentheses -/
example : (render (parenMin (.bin .sub sp0 (v "a") (.bin .sub sp0 (v "b") (v "c"))))).map (·.1)
    = [.ident "a".toList, .minus, .lparen, .ident "b".toList, .minus, .ident "c".toList, .rparen] := by
  simp [parenMin, wrap, T.level, BinOp.level, render, v, tokOf]

/-- `parseProgram_render` applies to real source text: `a -b⏎- c` (blanks and a newline between the
    tokens) lexes to the tokens of the derivation `(a - b) - c` with these positions, so the text parses
    to the left-leaning tree. -/
private def abc : T :=
  .bin .sub ⟨⟨1, 0⟩, ⟨1, 1⟩⟩
    (.bin .sub ⟨⟨0, 2⟩, ⟨0, 3⟩⟩ (.ident ⟨⟨0, 0⟩, ⟨0, 1⟩⟩ ['a']) (.ident ⟨⟨0, 3⟩, ⟨0, 4⟩⟩ ['b']))
    (.ident ⟨⟨1, 2⟩, ⟨1, 3⟩⟩ ['c'])

private def abcText : Str := ['a', ' ', '-', 'b', '\n', '-', ' ', 'c']

example : parseProgram listSrc abcText = .ok (embed abc) := by
  have h : (tokenize abcText).toOption.map (·.toks) = some (render abc) := by decide
  match hl : tokenize abcText with
  | .error e => simp [hl, Except.toOption] at h
  | .ok l =>
    have ht : l.toks = render abc := by simpa [hl, Except.toOption] using h
    exact parseProgram_render abc (by simp [abc, T.Wf, T.level, BinOp.level]) abcText l hl ht
      (by simp [Fits, abc, abcText, nest, fuel, maxNesting, parseFuel])

end Examples

end C02
end Rscel
