import RscelModel.Lemmas.TablesDefs
/-
Table theorems, see Lemmas/TablesDefs.lean: the model's tables equal those regenerated from the source on this run.
-/
namespace Rscel
namespace Tables
open Rscel.Serde Rscel.Time

/-- C12 / C14: built-in type names and what they denote. -/
theorem type_table_matches_source :
    agrees Generated.typeTable typeTable (fun g m => g.all (m.contains ·) && m.all (g.contains ·)) = true := by decide

/-! ### constructors: `construct_type` knows exactly these names -/

def fiveNulls : List Val := [.null, .null, .null, .null, .null]

/-- a name is constructable in the model iff calling it with five arguments is an Argument error (no overload of
    that arity) rather than the Runtime error "not constructable" -/
def modelConstructable (n : String) : Bool :=
  match constructType dummyConv 0 n.toList fiveNulls with
  | .err .runtime => false
  | _ => true

theorem constructable_matches_source :
    agrees Generated.constructable () (fun g _ => g.all modelConstructable) = true ∧
    agrees Generated.typeTable () (fun g _ => g.all fun p =>
      modelConstructable p.1 == (Generated.constructable.getD []).contains p.1 || Generated.constructable.isNone) = true := by
  decide


end Tables
end Rscel
