import RscelModel.Lemmas.VMStack
/-
C10 — emitted bytecode is well-formed on every path.

`flat_sound`: if the certificate check `checkHeights` accepts a block, then the VM's instruction loop
on that block — for *any* behaviour of nested executions and built-ins — never pops an empty stack,
never takes an out-of-range jump, executes every program counter at most once (so it needs at most
`|code|` steps) and, when it completes, leaves exactly the final height the checker computed.
The checker is executed by every C10 check on the bytecode the real compiler emitted.
-/
namespace Rscel
namespace C10

variable {B : Builtins} {rec recTop : Rec}

theorem jumpTarget_forward {pc len : Nat} {d : Int} (hd : 0 ≤ d) (hr : pc + d.toNat ≤ len) :
    jumpTarget pc d len = some (pc + d.toNat) := by
  unfold jumpTarget
  have : ¬ ((pc : Int) + d < 0 ∨ (pc : Int) + d > (len : Int)) := by omega
  simp [this]
  omega

/-- Outcome of one instruction on a stack of sufficient height. -/
def StepGood (r : R Nat) (ts : List Nat) (h' : Nat) : Prop :=
  match r with
  | .ok pc' s' => pc' ∈ ts ∧ s'.stack.length = h'
  | .fail a _ => a.structural = false

theorem next_good {r : R Unit} {pc h' : Nat}
    (hok : ∀ s', r = .ok () s' → s'.stack.length = h') (hfail : ∀ a l, r = .fail a l → a.structural = false) :
    StepGood (liftNext pc r) [pc] h' := by
  cases r with
  | ok u s' => cases u; simp [StepGood, liftNext, hok s' rfl]
  | fail a l => simp [StepGood, liftNext, hfail a l rfl]

theorem step_sound (hrec : RecClean rec) (env : Env) (len pc : Nat) (i : Instr) (s : St)
    (hp : i.effect.1 ≤ s.stack.length) (ts : List Nat) (hs : i.succs pc len = some ts) :
    StepGood (step B rec recTop env len i (pc + 1) s) ts (s.stack.length - i.effect.1 + i.effect.2) := by
  have bin : ∀ f : Val → Val → Val, 2 ≤ s.stack.length →
      StepGood (liftNext (pc + 1) (binop rec f env s))
        [pc + 1] (s.stack.length - 2 + 1) := by
    intro f h2
    apply next_good
    · intro s' h; have := binop_ok h; omega
    · intro a l h; exact binop_fail hrec h2 h
  have un : ∀ f : Val → Val, 1 ≤ s.stack.length →
      StepGood (liftNext (pc + 1) (unop rec f env s))
        [pc + 1] (s.stack.length - 1 + 1) := by
    intro f h1
    apply next_good
    · intro s' h; have := unop_ok h; omega
    · intro a l h; exact unop_fail hrec h1 h
  cases i <;> simp only [Instr.effect, Instr.succs, Option.some.injEq] at hp hs ⊢ <;> (try subst hs) <;>
    simp only [step]
  case push v => simp [StepGood, pushV]
  case pop =>
    apply next_good
    · intro s' h
      split at h
      · rename_i h1; cases h; have := popV_ok h1; omega
      · cases h
    · intro a l h
      split at h
      · cases h
      · rename_i h1; cases h
        exact popV_fail hrec (ne_nil_of_length (n := s.stack.length - 1) (by omega)) h1
  case test => exact un _ hp
  case dup =>
    split
    · rename_i h1
      exact popV_fail hrec (ne_nil_of_length (n := s.stack.length - 1) (by omega)) h1
    · rename_i v s1 h1
      have := popV_ok h1
      simp [StepGood, pushV]; omega
  case or => exact bin _ hp
  case and => exact bin _ hp
  case not => exact un _ hp
  case neg => exact un _ hp
  case add => exact bin _ hp
  case sub => exact bin _ hp
  case mul => exact bin _ hp
  case div => exact bin _ hp
  case mod => exact bin _ hp
  case lt => exact bin _ hp
  case le => exact bin _ hp
  case eq => exact bin _ hp
  case ne => exact bin _ hp
  case ge => exact bin _ hp
  case gt => exact bin _ hp
  case in_ => exact bin _ hp
  case index => exact bin _ hp
  case jmp d =>
    split at hs
    · rename_i hc
      cases hs
      rw [jumpTarget_forward hc.1 (by omega)]
      simp [StepGood]
    · cases hs
  case jmpCond w d =>
    split at hs
    · rename_i hc
      cases hs
      have jt := jumpTarget_forward (pc := pc + 1) (len := len) hc.1 (by omega)
      split
      · rename_i h1
        exact popV_fail hrec (ne_nil_of_length (n := s.stack.length - 1) (by omega)) h1
      · rename_i b s1 h1
        have := popV_ok h1
        split
        · rw [jt]; simp [StepGood]; omega
        · simp [StepGood]; omega
      · rename_i k s1 h1
        have := popV_ok h1
        split
        · rw [jt]; simp [StepGood]; omega
        · simp [StepGood]; omega
      · simp [StepGood, Abort.structural]
    · cases hs
  case mkList n =>
    split
    · rename_i h1; exact popN_fail hrec hp h1
    · rename_i vs s1 h1
      have := (popN_ok h1).1
      simp [StepGood, pushV]; omega
  case mkDict n =>
    split
    · rename_i h1; exact popEntries_fail hrec hp h1
    · rename_i es s1 h1
      have := popEntries_ok h1
      simp [StepGood, pushV]; omega
    · rename_i s1 h1
      have := popEntries_ok h1
      simp [StepGood, pushV]; omega
  case fmt n =>
    split
    · rename_i h1; exact popN_fail hrec hp h1
    · rename_i vs s1 h1
      have := (popN_ok h1).1
      split
      · simp [StepGood, pushV]; omega
      · simp [StepGood, pushV]; omega
  case access =>
    split
    · rename_i h1
      exact popRaw_fail (ne_nil_of_length (n := s.stack.length - 1) (by omega)) h1
    · simp [StepGood, Abort.structural]
    · rename_i name s1 h1
      have l1 := popRaw_ok h1
      split
      · rename_i h2
        exact popV_fail hrec (ne_nil_of_length (n := s1.stack.length - 1) (by omega)) h2
      · rename_i obj s2 h2
        have l2 := popV_ok h2
        split
        · split
          · simp [StepGood, pushV]; omega
          · split
            · simp [StepGood]; omega
            · simp [StepGood, pushV]; omega
        · split
          · simp [StepGood, Abort.structural]
          · split
            · simp [StepGood]; omega
            · split
              · simp [StepGood, pushV]; omega
              · simp [StepGood, pushV]; omega
    · rename_i v s1 hnot h1
      have l1 := popRaw_ok h1
      split
      · rename_i h2
        exact popV_fail hrec (ne_nil_of_length (n := s1.stack.length - 1) (by omega)) h2
      · rename_i obj s2 h2
        have l2 := popV_ok h2
        simp [StepGood, pushV]; omega
  case call n =>
    have inv : ∀ (c : Callee) (this : Val) (args : List Val) (s2 : St), s2.stack.length + (n + 1) = s.stack.length →
        StepGood (liftNext (pc + 1) (invoke B rec recTop env c this args s2)) [pc + 1] (s.stack.length - (n + 1) + 1) := by
      intro c this args s2 hl
      apply next_good
      · intro s' h; have := invoke_ok h; omega
      · intro a l h; exact invoke_fail hrec h
    split
    · rename_i h1
      exact popRaw_fail (ne_nil_of_length (n := s.stack.length - 1) (by omega)) h1
    · rename_i c this s1 h1
      have l1 := popRaw_ok h1
      split
      · rename_i h2; exact popN_fail hrec (by omega) h2
      · rename_i args s2 h2
        have l2 := (popN_ok h2).1
        exact inv _ _ _ _ (by omega)
    · rename_i callee s1 h1
      have l1 := popRaw_ok h1
      split
      · rename_i h2; exact popN_fail hrec (by omega) h2
      · rename_i args s2 h2
        have l2 := (popN_ok h2).1
        split
        · split
          · exact inv _ _ _ _ (by omega)
          · split
            · exact inv _ _ _ _ (by omega)
            · split
              · split
                · simp [StepGood, pushV]; omega
                · simp [StepGood, pushV]; omega
              · simp [StepGood, pushV]; omega
        · split
          · simp [StepGood, pushV]; omega
          · simp [StepGood, pushV]; omega
        · simp [StepGood, pushV]; omega

theorem checkGo_at (H : Heights) (len : Nat) :
    ∀ (code : List Instr) (start : Nat), checkGo H len code start = true →
      ∀ (k : Nat) (i : Instr), code[k]? = some i → checkAt H len (start + k) i = true
  | [], _, _, k, i, hk => by simp at hk
  | c :: rest, start, h, k, i, hk => by
    simp only [checkGo, Bool.and_eq_true] at h
    cases k with
    | zero => simp at hk; subst hk; simpa using h.1
    | succ k =>
      simp at hk
      have := checkGo_at H len rest (start + 1) h.2 k i hk
      rw [show start + (k + 1) = start + 1 + k by omega]
      exact this

theorem succs_bounds {i : Instr} {pc len : Nat} {ts : List Nat} (hpc : pc < len)
    (hs : i.succs pc len = some ts) : ∀ t ∈ ts, pc < t ∧ t ≤ len := by
  intro t ht
  cases i <;> simp only [Instr.succs, Option.some.injEq] at hs <;> (try subst hs) <;>
    (try (simp at ht; omega))
  all_goals
    split at hs
    · cases hs; simp at ht; omega
    · cases hs

/-- The loop invariant: at `pc` the stack has exactly the height the certificate records. -/
theorem loop_sound (hrec : RecClean rec) (env : Env) (code : List Instr) (H : Heights) (hf : Nat)
    (hfin : H[code.length]? = some (some hf)) (hgo : checkGo H code.length code 0 = true) :
    ∀ (fuel pc : Nat) (s : St) (h : Nat), pc ≤ code.length → H[pc]? = some (some h) →
      s.stack.length = h → code.length - pc + 1 ≤ fuel →
      match loop B rec recTop env code fuel pc s with
      | .ok _ s' => s'.stack.length = hf
      | .fail a _ => a.structural = false := by
  intro fuel
  induction fuel with
  | zero => intro pc s h _ _ _ hfu; omega
  | succ fuel ih =>
    intro pc s h hpc hH hlen hfu
    unfold loop
    cases hi : code[pc]? with
    | none =>
      have : pc = code.length := by
        have := List.getElem?_eq_none_iff.mp hi
        omega
      subst this
      rw [hfin] at hH
      simp only [Option.some.injEq] at hH
      simp [hH, hlen]
    | some i =>
      have hlt : pc < code.length := by
        have := (List.getElem?_eq_some_iff.mp hi).1
        exact this
      have hat := checkGo_at H code.length code 0 hgo pc i hi
      simp only [Nat.zero_add, checkAt, hH] at hat
      simp only [Bool.and_eq_true, decide_eq_true_eq] at hat
      obtain ⟨hpops, hsucc⟩ := hat
      cases hs : i.succs pc code.length with
      | none => simp [hs] at hsucc
      | some ts =>
        simp only [hs, List.all_eq_true, beq_iff_eq] at hsucc
        have st := step_sound (B := B) (recTop := recTop) hrec env code.length pc i s
          (by rw [hlen]; exact hpops) ts hs
        simp only
        revert st
        cases step B rec recTop env code.length i (pc + 1) s with
        | fail a l => intro st; simpa [StepGood] using st
        | ok pc' s' =>
          intro st
          simp only [StepGood] at st
          have hb := succs_bounds hlt hs pc' st.1
          have hH' := hsucc pc' st.1
          rw [hlen] at st
          exact ih pc' s' _ hb.2 hH' st.2 (by omega)

/-- **Soundness of the flat checker**, for any nested-execution callback that does not itself report a
    structural abort, any built-ins, any environment, any initial stack of the declared height:
    no underflow, no out-of-range jump, termination within the fuel `|code| + 1`, and on normal
    completion exactly `hf` values. -/
theorem flat_sound (hrec : RecClean rec) (env : Env) (code : List Instr) (h0 hf : Nat)
    (hwf : wfFlat code h0 hf = true) (s : St) (hs : s.stack.length = h0) (fuel : Nat)
    (hfuel : code.length + 1 ≤ fuel) :
    match loop B rec recTop env code fuel 0 s with
    | .ok _ s' => s'.stack.length = hf
    | .fail a _ => a.structural = false := by
  unfold wfFlat at hwf
  split at hwf
  · cases hwf
  · rename_i H _
    simp only [checkHeights, Bool.and_eq_true, beq_iff_eq] at hwf
    obtain ⟨⟨⟨_, h0'⟩, hfin⟩, hgo⟩ := hwf
    exact loop_sound hrec env code H hf hfin hgo fuel 0 s h0 (Nat.zero_le _) h0' hs (by omega)

/-- The model's block fuel is always enough for a well-formed block. -/
theorem blockFuel_enough (code : List Instr) : code.length + 1 ≤ blockFuel code := by
  unfold blockFuel; omega

/-- An expression block (0 ↦ 1) run by `runAt`: the result is never a structural abort, provided nested
    executions are clean.  In particular the final pop of the result finds a value. -/
theorem run_block_clean (b : Nat) (hrec : RecClean (runAt B b)) (env : Env) (code : List Instr)
    (hwf : wfFlat code 0 1 = true) (resolve : Bool) (log : Log) (a : Abort)
    (h : (runAt B (b + 1) env code resolve log).res = .error a) : a.structural = false := by
  simp only [runAt] at h
  have fs := flat_sound (B := B) (recTop := runFresh B) hrec env code 0 1 hwf
    { stack := [], log := log } rfl (blockFuel code) (blockFuel_enough code)
  revert fs h
  cases loop B (runAt B b) (runFresh B) env code (blockFuel code) 0 { stack := [], log := log } with
  | fail a' l => intro h fs; simp at h; subst h; exact fs
  | ok u s' =>
    intro h fs
    simp only at fs h
    have hne : s'.stack ≠ [] := ne_nil_of_length (n := 0) fs
    unfold finish at h
    split at h
    · split at h
      · rename_i hp; simp at h; subst h; exact popS_fail hrec hne hp
      · simp at h; subst h; rfl
      · simp at h; subst h; rfl
      · simp at h
    · split at h
      · rename_i hst; exact absurd hst hne
      · simp at h; subst h; rfl
      · split at h
        · simp at h; subst h; rfl
        · simp at h
        · simp at h
      · simp at h; subst h; rfl
      · simp at h

/-- The VM rejects any out-of-range jump with an error rather than reading outside the program
    (`checked_jump_target`): a target is produced only inside `[0, len]`. -/
theorem jump_checked (pc len : Nat) (d : Int) :
    (∀ t, jumpTarget pc d len = some t → (t : Int) = pc + d ∧ t ≤ len) ∧
    (((pc : Int) + d < 0 ∨ (pc : Int) + d > len) → jumpTarget pc d len = none) := by
  unfold jumpTarget
  constructor
  · intro t h
    dsimp only at h
    split at h
    · cases h
    · rename_i hc
      simp at hc h
      subst h
      omega
  · intro h
    have : ((pc : Int) + d < 0 || (pc : Int) + d > (len : Int)) = true := by
      simp; omega
    simp [this]

/-- Non-vacuity: the checker accepts the sequence the compiler emits for `a ? 2 : 3` and rejects an
    unbalanced and an out-of-range one. -/
example : wfBlock [.push (.ident ['x']), .test, .dup, .jmpCond false 3, .pop, .push (.int 2), .jmp 5,
    .dup, .not, .jmpCond false 2, .pop, .push (.int 3)] = true := by decide
example : wfBlock [.push (.int 1), .pop] = false := by decide
example : wfBlock [.jmp 5, .push (.int 1)] = false := by decide
example : wfBlock [.push (.bool true), .jmpCond true 1, .push (.int 1), .push (.int 2)] = false := by decide

end C10
end Rscel
