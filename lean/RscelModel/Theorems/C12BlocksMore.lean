import RscelModel.Theorems.C12Blocks
/-
C12, continued — more link shapes over the generic chain theorems of `Theorems/C12Blocks.lean`:
  * `coalesceArg` — `coalesce(NEXT) + 1` (argument block of a lazy macro): 2 levels per reference;
    a depth failure is a Runtime failure, which `coalesce` does not absorb (only Binding / Attribute);
  * `fstrArg` — `int(f'{NEXT}')` (argument block of `int`, argument block of the segment's `string(..)`
    call, the program): 3 levels per reference, so 10 references evaluate and 11 fail.  The chain's value
    is 0 at every length (`string(0) = "0"`, `int("0") = 0`);
  * `hasArg` — `has(NEXT) ? 1 : 0` (argument block of `has`, then the ternary's jumps): 2 levels per
    reference; the value is 1 from the first reference on; `has` does not turn the depth failure into `false`.
-/
namespace Rscel
namespace C12Blocks
open C12

variable {B : Builtins}

/-- The concrete chain contexts bind no function: a name is a function there only if it is a built-in. -/
theorem getFunc_blockChainEnv (L : Shape) (k : Nat) (name : Str) (hB : B.func name = none) :
    (blockChainEnv L k).getFunc B name = none := by
  unfold Env.getFunc
  simp only [blockChainEnv, lookup, hB]
  rfl

/-! ### (3) argument of `coalesce`: `coalesce(NEXT) + 1` -/


/-- `M(BLOCK)` for a macro name `M` that names no function: the macro gets the unevaluated block. -/
theorem step_call_macro1 (rec recTop : Rec) (env : Env) (len pc : Nat) (f : Str) (c : List Instr)
    (rest : List SVal) (log : Log) (hf : env.getFunc B f = none) (hm : env.isMacro f = true) :
    step B rec recTop env len (.call 1) pc { stack := .val (.ident f) :: .val (.code c) :: rest, log := log } =
      .ok pc { stack := .val (callMacro rec recTop env f .null [c] log).1 :: rest,
               log := (callMacro rec recTop env f .null [c] log).2 } := by
  have h := (call_func_over_macro_over_type (B := B) (rec := rec) (recTop := recTop) env len 1 pc f
    { stack := .val (.ident f) :: .val (.code c) :: rest, log := log } _ _ [.code c] rfl
    (popN_code1 rec env c rest log)).2.1 hf hm
  rw [h]
  simp [invoke, codeArgs, liftNext, pushV]

theorem callMacro_coalesce1_ok (rec recTop : Rec) (env : Env) (c : List Instr) (log log' : Log) (i : Int)
    (hr : rec env c true log = { res := .ok (.int i), log := log' }) :
    callMacro rec recTop env "coalesce".toList .null [c] log = (.int i, log') := by
  have hne1 : ("coalesce".toList = "has".toList) = False := by decide
  simp only [callMacro, hne1, if_false, if_true, coalesceLoop, hr]

theorem callMacro_coalesce1_err (rec recTop : Rec) (env : Env) (c : List Instr) (log log' : Log) (a : Abort)
    (hka : a.kind = .runtime)
    (hr : rec env c true log = { res := .error a, log := log' }) :
    callMacro rec recTop env "coalesce".toList .null [c] log = (.err .runtime, log') := by
  have hne1 : ("coalesce".toList = "has".toList) = False := by decide
  simp only [callMacro, hne1, if_false, if_true, coalesceLoop, hr]
  cases a with
  | err k => simp only [Abort.kind] at hka; subst hka; rfl
  | _ => rfl

def coalesceLink (nxt : Str) : List Instr :=
  [.push (.code (refBlock nxt)), .push (.ident "coalesce".toList), .call 1, .push (.int 1), .add]

theorem coalesce_isMacro (env : Env) (hb : env.hasBinds = true) (hcm : env.compileMode = false) :
    env.isMacro "coalesce".toList = true := by
  simp only [Env.isMacro, defaultMacros, hb, hcm]; decide

theorem coalesce_lvl_ok (b : Nat) (env : Env) (nxt : Str) (log log' : Log) (d : Nat)
    (hb : env.hasBinds = true) (hcm : env.compileMode = false) (hf : env.getFunc B "coalesce".toList = none)
    (hd : (d : Int) + 1 ≤ 9223372036854775807)
    (hr : runAt B b env (refBlock nxt) true log = { res := .ok (.int d), log := log' }) :
    runAt B (b + 1) env (coalesceLink nxt) true log = { res := .ok (.int ((d + 1 : Nat) : Int)), log := log' } := by
  have hadd := add_one d hd
  rw [show ((d + 1 : Nat) : Int) = (d : Int) + 1 by omega, nested_runs_at_smaller_budget]
  simp only [coalesceLink, blockFuel, List.length_cons, List.length_nil, Nat.reduceAdd, Nat.reduceMul]
  rw [loop_at (i := .push (.code (refBlock nxt))) (hf := by omega) (h := rfl)]
  simp only [step, pushV, Nat.reduceAdd, Nat.reduceSub]
  rw [loop_at (i := .push (.ident "coalesce".toList)) (hf := by omega) (h := rfl)]
  simp only [step, pushV, Nat.reduceAdd, Nat.reduceSub]
  rw [loop_at (i := .call 1) (hf := by omega) (h := rfl)]
  rw [step_call_macro1 (hf := hf) (hm := coalesce_isMacro env hb hcm), callMacro_coalesce1_ok _ _ _ _ _ _ _ hr]
  simp only [Nat.reduceAdd, Nat.reduceSub]
  rw [loop_at (i := .push (.int 1)) (hf := by omega) (h := rfl)]
  simp only [step, pushV, Nat.reduceAdd, Nat.reduceSub]
  rw [loop_at (i := .add) (hf := by omega) (h := rfl)]
  simp only [step, liftNext, binop, popV, popS, pushV, hadd, Nat.reduceAdd, Nat.reduceSub]
  rw [loop_end (h := by simp)]
  simp [finish, popS]

theorem coalesce_lvl_err (b : Nat) (env : Env) (nxt : Str) (log log' : Log) (a : Abort)
    (hb : env.hasBinds = true) (hcm : env.compileMode = false) (hf : env.getFunc B "coalesce".toList = none)
    (hka : a.kind = .runtime)
    (hr : runAt B b env (refBlock nxt) true log = { res := .error a, log := log' }) :
    runAt B (b + 1) env (coalesceLink nxt) true log = { res := .error (.err .runtime), log := log' } := by
  rw [nested_runs_at_smaller_budget]
  simp only [coalesceLink, blockFuel, List.length_cons, List.length_nil, Nat.reduceAdd, Nat.reduceMul]
  rw [loop_at (i := .push (.code (refBlock nxt))) (hf := by omega) (h := rfl)]
  simp only [step, pushV, Nat.reduceAdd, Nat.reduceSub]
  rw [loop_at (i := .push (.ident "coalesce".toList)) (hf := by omega) (h := rfl)]
  simp only [step, pushV, Nat.reduceAdd, Nat.reduceSub]
  rw [loop_at (i := .call 1) (hf := by omega) (h := rfl)]
  rw [step_call_macro1 (hf := hf) (hm := coalesce_isMacro env hb hcm), callMacro_coalesce1_err _ _ _ _ _ _ _ hka hr]
  simp only [Nat.reduceAdd, Nat.reduceSub]
  rw [loop_at (i := .push (.int 1)) (hf := by omega) (h := rfl)]
  simp only [step, pushV, Nat.reduceAdd, Nat.reduceSub]
  rw [loop_at (i := .add) (hf := by omega) (h := rfl)]
  simp only [step, liftNext, binop, popV, popS, pushV, arith, errProp, Nat.reduceAdd, Nat.reduceSub]
  rw [loop_end (h := by simp)]
  simp [finish, popS]

def coalesceArg (B : Builtins) : Shape where
  code := coalesceLink
  cost := 2
  inner := fun env => env
  good := fun env => env.hasBinds = true ∧ env.compileMode = false ∧ env.getFunc B "coalesce".toList = none
  okName := fun _ => True
  val := fun d => d

/-- **The accounting of a `coalesce` argument**: two levels per reference; the depth failure passes. -/
theorem coalesceArg_sound : (coalesceArg B).Sound B :=
  Shape.sound_of_block (coalesceArg B) rfl rfl (fun _ h => h) (fun _ _ => rfl) (fun _ _ _ => rfl) (fun _ _ => rfl)
    (fun b env nxt log log' d hg _ hd hr => coalesce_lvl_ok b env nxt log log' d hg.1 hg.2.1 hg.2.2 hd hr)
    (fun b env nxt log log' a hg _ hka hr =>
      ⟨.err .runtime, coalesce_lvl_err b env nxt log log' a hg.1 hg.2.1 hg.2.2 hka hr, rfl⟩)

/-- **`coalesce`-argument chains up to 15 references evaluate** (`k ≤ 15` references yield `k`). -/
theorem coalesce_chain_ok (env : Env) (names : Nat → Str) (k : Nat)
    (hc : IsBlockChain (coalesceArg B) env names k) (hk : k ≤ 15) :
    execProg B env (blockChainCode (coalesceArg B) names k 0) = { res := .ok (.int k), log := [] } :=
  block_chain_ok (coalesceArg B) coalesceArg_sound env names k hc (by show k * 2 < 32; omega)

/-- **From 16 references on the chain ends in a Runtime failure** — `coalesce` does not turn the depth
    error into `null`. -/
theorem coalesce_chain_too_deep (env : Env) (names : Nat → Str) (k : Nat)
    (hc : IsBlockChain (coalesceArg B) env names k) (hk : 16 ≤ k) :
    ∃ a, execProg B env (blockChainCode (coalesceArg B) names k 0) = { res := .error a, log := [] } ∧
      a.kind = .runtime :=
  block_chain_too_deep (coalesceArg B) coalesceArg_sound env names k hc (by show 32 ≤ k * 2; omega)

theorem std_coalesce_func (now : Int) : (stdBuiltins now).func "coalesce".toList = none := rfl

theorem coalesceEnv_isChain (hB : B.func "coalesce".toList = none) (k : Nat) :
    IsBlockChain (coalesceArg B) (blockChainEnv (coalesceArg B) k) qname k :=
  blockChainEnv_isChain _ k ⟨rfl, rfl, getFunc_blockChainEnv _ k _ hB⟩ (fun _ => trivial)

/-- The concrete statement for every `k` (context `q := coalesce(qq) + 1, …`). -/
theorem coalesce_concrete (hB : B.func "coalesce".toList = none) (k : Nat) :
    (k ≤ 15 → execProg B (blockChainEnv (coalesceArg B) k) (blockChainCode (coalesceArg B) qname k 0) =
      { res := .ok (.int k), log := [] }) ∧
    (16 ≤ k → ∃ a, execProg B (blockChainEnv (coalesceArg B) k) (blockChainCode (coalesceArg B) qname k 0) =
      { res := .error a, log := [] } ∧ a.kind = .runtime) :=
  ⟨coalesce_chain_ok _ _ k (coalesceEnv_isChain hB k), coalesce_chain_too_deep _ _ k (coalesceEnv_isChain hB k)⟩

/-! ### (4) f-string segment inside a conversion: `int(f'{NEXT}')` — three levels per reference -/


/-- What the compiler emits for `f'{NEXT}'`: the segment is a `string(..)` call on an argument block. -/
def fmtBlock (nxt : Str) : List Instr :=
  [.push (.code (refBlock nxt)), .push (.ident "string".toList), .call 1, .fmt 1]

/-- What the compiler emits for `int(f'{NEXT}')`. -/
def fstrLink (nxt : Str) : List Instr :=
  [.push (.code (fmtBlock nxt)), .push (.ident "int".toList), .call 1]

/-- `string(0)` is `"0"` and `int("0")` is `0` (true of the default constructors). -/
def FmtZero (B : Builtins) : Prop :=
  B.ctor "string".toList [.int 0] = .str "0".toList ∧ B.ctor "int".toList [.str "0".toList] = .int 0

theorem stdBuiltins_fmtZero (now : Int) : FmtZero (stdBuiltins now) := ⟨rfl, rfl⟩
theorem std_string_func (now : Int) : (stdBuiltins now).func "string".toList = none := rfl
theorem std_int_func (now : Int) : (stdBuiltins now).func "int".toList = none := rfl

theorem string_not_macro (env : Env) : env.isMacro "string".toList = false := by
  simp only [Env.isMacro, defaultMacros, compileMacros]; cases env.compileMode <;> simp <;> decide
theorem int_not_macro (env : Env) : env.isMacro "int".toList = false := by
  simp only [Env.isMacro, defaultMacros, compileMacros]; cases env.compileMode <;> simp <;> decide
theorem string_type (env : Env) (hb : env.hasBinds = true) :
    env.getType "string".toList = some (.type "string".toList) := by
  simp only [Env.getType, hb, if_true]; rfl
theorem int_type (env : Env) (hb : env.hasBinds = true) :
    env.getType "int".toList = some (.type "int".toList) := by
  simp only [Env.getType, hb, if_true]; rfl

theorem fmt_lvl_ok (hz : FmtZero B) (b : Nat) (env : Env) (nxt : Str) (log log' : Log)
    (hb : env.hasBinds = true) (hf : env.getFunc B "string".toList = none)
    (hr : runAt B b env (refBlock nxt) true log = { res := .ok (.int 0), log := log' }) :
    runAt B (b + 1) env (fmtBlock nxt) true log = { res := .ok (.str "0".toList), log := log' } := by
  rw [nested_runs_at_smaller_budget]
  simp only [fmtBlock, blockFuel, List.length_cons, List.length_nil, Nat.reduceAdd, Nat.reduceMul]
  rw [loop_at (i := .push (.code (refBlock nxt))) (hf := by omega) (h := rfl)]
  simp only [step, pushV, Nat.reduceAdd, Nat.reduceSub]
  rw [loop_at (i := .push (.ident "string".toList)) (hf := by omega) (h := rfl)]
  simp only [step, pushV, Nat.reduceAdd, Nat.reduceSub]
  rw [loop_at (i := .call 1) (hf := by omega) (h := rfl)]
  rw [step_call_ctor1 (hf := hf) (hm := string_not_macro env) (ht := string_type env hb), hr]
  simp only [hz.1, Nat.reduceAdd, Nat.reduceSub]
  rw [loop_at (i := .fmt 1) (hf := by omega) (h := rfl)]
  simp only [step, popN, popV, popS, pushV, concatStrs, List.reverse_cons, List.reverse_nil, List.nil_append,
    List.append_nil, Nat.reduceAdd, Nat.reduceSub]
  rw [loop_end (h := by simp)]
  simp [finish, popS]

theorem fmt_lvl_err (b : Nat) (env : Env) (nxt : Str) (log log' : Log) (a : Abort)
    (hb : env.hasBinds = true) (hf : env.getFunc B "string".toList = none)
    (hr : runAt B b env (refBlock nxt) true log = { res := .error a, log := log' }) :
    runAt B (b + 1) env (fmtBlock nxt) true log = { res := .error (.err a.kind), log := log' } := by
  rw [nested_runs_at_smaller_budget]
  simp only [fmtBlock, blockFuel, List.length_cons, List.length_nil, Nat.reduceAdd, Nat.reduceMul]
  rw [loop_at (i := .push (.code (refBlock nxt))) (hf := by omega) (h := rfl)]
  simp only [step, pushV, Nat.reduceAdd, Nat.reduceSub]
  rw [loop_at (i := .push (.ident "string".toList)) (hf := by omega) (h := rfl)]
  simp only [step, pushV, Nat.reduceAdd, Nat.reduceSub]
  rw [loop_at (i := .call 1) (hf := by omega) (h := rfl)]
  rw [step_call_ctor1 (hf := hf) (hm := string_not_macro env) (ht := string_type env hb), hr]
  simp only [Nat.reduceAdd, Nat.reduceSub]
  rw [loop_at (i := .fmt 1) (hf := by omega) (h := rfl)]
  simp only [step, popN, popV, popS, pushV, concatStrs, List.reverse_cons, List.reverse_nil, List.nil_append,
    Nat.reduceAdd, Nat.reduceSub]
  rw [loop_end (h := by simp)]
  simp [finish, popS]

theorem int_lvl_ok (hz : FmtZero B) (b : Nat) (env : Env) (nxt : Str) (log log' : Log)
    (hb : env.hasBinds = true) (hf : env.getFunc B "int".toList = none)
    (hr : runAt B b env (fmtBlock nxt) true log = { res := .ok (.str "0".toList), log := log' }) :
    runAt B (b + 1) env (fstrLink nxt) true log = { res := .ok (.int 0), log := log' } := by
  rw [nested_runs_at_smaller_budget]
  simp only [fstrLink, blockFuel, List.length_cons, List.length_nil, Nat.reduceAdd, Nat.reduceMul]
  rw [loop_at (i := .push (.code (fmtBlock nxt))) (hf := by omega) (h := rfl)]
  simp only [step, pushV, Nat.reduceAdd, Nat.reduceSub]
  rw [loop_at (i := .push (.ident "int".toList)) (hf := by omega) (h := rfl)]
  simp only [step, pushV, Nat.reduceAdd, Nat.reduceSub]
  rw [loop_at (i := .call 1) (hf := by omega) (h := rfl)]
  rw [step_call_ctor1 (hf := hf) (hm := int_not_macro env) (ht := int_type env hb), hr]
  simp only [hz.2, Nat.reduceAdd, Nat.reduceSub]
  rw [loop_end (h := by simp)]
  simp [finish, popS]

theorem int_lvl_err (b : Nat) (env : Env) (nxt : Str) (log log' : Log) (a : Abort)
    (hb : env.hasBinds = true) (hf : env.getFunc B "int".toList = none)
    (hr : runAt B b env (fmtBlock nxt) true log = { res := .error a, log := log' }) :
    runAt B (b + 1) env (fstrLink nxt) true log = { res := .error (.err a.kind), log := log' } := by
  rw [nested_runs_at_smaller_budget]
  simp only [fstrLink, blockFuel, List.length_cons, List.length_nil, Nat.reduceAdd, Nat.reduceMul]
  rw [loop_at (i := .push (.code (fmtBlock nxt))) (hf := by omega) (h := rfl)]
  simp only [step, pushV, Nat.reduceAdd, Nat.reduceSub]
  rw [loop_at (i := .push (.ident "int".toList)) (hf := by omega) (h := rfl)]
  simp only [step, pushV, Nat.reduceAdd, Nat.reduceSub]
  rw [loop_at (i := .call 1) (hf := by omega) (h := rfl)]
  rw [step_call_ctor1 (hf := hf) (hm := int_not_macro env) (ht := int_type env hb), hr]
  simp only [Nat.reduceAdd, Nat.reduceSub]
  rw [loop_end (h := by simp)]
  simp [finish, popS]

def fstrArg (B : Builtins) : Shape where
  code := fstrLink
  cost := 3
  inner := fun env => env
  good := fun env => env.hasBinds = true ∧ env.getFunc B "string".toList = none ∧ env.getFunc B "int".toList = none
  okName := fun _ => True
  val := fun _ => 0

/-- **The accounting of `int(f'{p}')`**: three levels per reference (argument block of `int`, argument
    block of `string`, the program). -/
theorem fstrArg_sound (hz : FmtZero B) : (fstrArg B).Sound B where
  cost_pos := by show 0 < 3; omega
  val_zero := rfl
  good_inner := fun _ h => h
  inner_type := fun _ _ => rfl
  inner_param := fun _ _ _ => rfl
  inner_prog := fun _ _ => rfl
  run_ok b env nxt code log log' d hg _ ht hp hpr _ hr := by
    have h1 := ref_ok b env nxt code log log' 0 ht hp hpr hr
    have h2 := fmt_lvl_ok hz (b + 1) env nxt log log' hg.1 hg.2.1 h1
    exact int_lvl_ok hz (b + 2) env nxt log log' hg.1 hg.2.2 h2
  run_err b env nxt code log log' a hg _ ht hp hpr hka hr := by
    have h1 := ref_err b env nxt code log log' a ht hp hpr hr
    have h2 := fmt_lvl_err (b + 1) env nxt log log' _ hg.1 hg.2.1 h1
    exact ⟨_, int_lvl_err (b + 2) env nxt log log' _ hg.1 hg.2.2 h2, hka⟩
  run_shallow b env nxt code log hb hg _ _ _ _ := by
    have hb' : b < 3 := hb
    obtain rfl | rfl | rfl : b = 0 ∨ b = 1 ∨ b = 2 := by omega
    · exact ⟨.depth, rfl, rfl⟩
    · exact ⟨_, int_lvl_err 0 env nxt log log .depth hg.1 hg.2.2 (run_zero _ _ _), rfl⟩
    · have h2 := fmt_lvl_err (B := B) 0 env nxt log log .depth hg.1 hg.2.1 (run_zero _ _ _)
      exact ⟨_, int_lvl_err 1 env nxt log log _ hg.1 hg.2.2 h2, rfl⟩

/-- **f-string chains up to 10 references evaluate** (to 0: the leaf's value passed through
    `string` / `int` at every link). -/
theorem fstr_chain_ok (hz : FmtZero B) (env : Env) (names : Nat → Str) (k : Nat)
    (hc : IsBlockChain (fstrArg B) env names k) (hk : k ≤ 10) :
    execProg B env (blockChainCode (fstrArg B) names k 0) = { res := .ok (.int 0), log := [] } :=
  block_chain_ok (fstrArg B) (fstrArg_sound hz) env names k hc (by show k * 3 < 32; omega)

/-- **From 11 references on the chain ends in a Runtime failure.** -/
theorem fstr_chain_too_deep (hz : FmtZero B) (env : Env) (names : Nat → Str) (k : Nat)
    (hc : IsBlockChain (fstrArg B) env names k) (hk : 11 ≤ k) :
    ∃ a, execProg B env (blockChainCode (fstrArg B) names k 0) = { res := .error a, log := [] } ∧
      a.kind = .runtime :=
  block_chain_too_deep (fstrArg B) (fstrArg_sound hz) env names k hc (by show 32 ≤ k * 3; omega)

theorem fstrEnv_isChain (hs : B.func "string".toList = none) (hi : B.func "int".toList = none) (k : Nat) :
    IsBlockChain (fstrArg B) (blockChainEnv (fstrArg B) k) qname k :=
  blockChainEnv_isChain _ k
    ⟨rfl, getFunc_blockChainEnv _ k _ hs, getFunc_blockChainEnv _ k _ hi⟩
    (fun _ => trivial)

/-- The concrete statement for every `k` with the default functions (context `q := int(f'{qq}'), …`):
    ok for `k ≤ 10`, a Runtime failure for `k ≥ 11`. -/
theorem fstr_concrete_std (now : Int) (k : Nat) :
    (k ≤ 10 → execProg (stdBuiltins now) (blockChainEnv (fstrArg (stdBuiltins now)) k)
        (blockChainCode (fstrArg (stdBuiltins now)) qname k 0) = { res := .ok (.int 0), log := [] }) ∧
    (11 ≤ k → ∃ a, execProg (stdBuiltins now) (blockChainEnv (fstrArg (stdBuiltins now)) k)
        (blockChainCode (fstrArg (stdBuiltins now)) qname k 0) = { res := .error a, log := [] } ∧
      a.kind = .runtime) :=
  ⟨fstr_chain_ok (stdBuiltins_fmtZero now) _ _ k (fstrEnv_isChain (std_string_func now) (std_int_func now) k),
   fstr_chain_too_deep (stdBuiltins_fmtZero now) _ _ k (fstrEnv_isChain (std_string_func now) (std_int_func now) k)⟩

/-! ### (5) argument of `has`: `has(NEXT) ? 1 : 0` -/


/-- What the compiler emits for `has(NEXT) ? 1 : 0`. -/
def hasLink (nxt : Str) : List Instr :=
  [.push (.code (refBlock nxt)), .push (.ident "has".toList), .call 1, .test, .dup, .jmpCond false 3, .pop,
   .push (.int 1), .jmp 5, .dup, .not, .jmpCond false 2, .pop, .push (.int 0)]

theorem callMacro_has_ok (rec recTop : Rec) (env : Env) (c : List Instr) (log log' : Log) (v : Val)
    (hr : rec env c true log = { res := .ok v, log := log' }) :
    callMacro rec recTop env "has".toList .null [c] log = (.bool true, log') := by
  simp only [callMacro, if_true, hr]

theorem callMacro_has_err (rec recTop : Rec) (env : Env) (c : List Instr) (log log' : Log) (a : Abort)
    (hka : a.kind = .runtime)
    (hr : rec env c true log = { res := .error a, log := log' }) :
    callMacro rec recTop env "has".toList .null [c] log = (.err .runtime, log') := by
  simp only [callMacro, if_true, hr]
  cases a with
  | err k => simp only [Abort.kind] at hka; subst hka; rfl
  | _ => rfl

theorem has_isMacro (env : Env) (hb : env.hasBinds = true) (hcm : env.compileMode = false) :
    env.isMacro "has".toList = true := by
  simp only [Env.isMacro, defaultMacros, hb, hcm]; decide

theorem has_lvl_ok (b : Nat) (env : Env) (nxt : Str) (log log' : Log) (v : Val)
    (hb : env.hasBinds = true) (hcm : env.compileMode = false) (hf : env.getFunc B "has".toList = none)
    (hr : runAt B b env (refBlock nxt) true log = { res := .ok v, log := log' }) :
    runAt B (b + 1) env (hasLink nxt) true log = { res := .ok (.int 1), log := log' } := by
  rw [nested_runs_at_smaller_budget]
  simp only [hasLink, blockFuel, List.length_cons, List.length_nil, Nat.reduceAdd, Nat.reduceMul]
  rw [loop_at (i := .push (.code (refBlock nxt))) (hf := by omega) (h := rfl)]
  simp only [step, pushV, Nat.reduceAdd, Nat.reduceSub]
  rw [loop_at (i := .push (.ident "has".toList)) (hf := by omega) (h := rfl)]
  simp only [step, pushV, Nat.reduceAdd, Nat.reduceSub]
  rw [loop_at (i := .call 1) (hf := by omega) (h := rfl)]
  rw [step_call_macro1 (hf := hf) (hm := has_isMacro env hb hcm), callMacro_has_ok _ _ _ _ _ _ _ hr]
  simp only [Nat.reduceAdd, Nat.reduceSub]
  rw [loop_at (i := .test) (hf := by omega) (h := rfl)]
  simp only [step, liftNext, unop, popV, popS, pushV, vTest, truthy, Nat.reduceAdd, Nat.reduceSub]
  rw [loop_at (i := .dup) (hf := by omega) (h := rfl)]
  simp only [step, popV, popS, pushV, Nat.reduceAdd, Nat.reduceSub]
  rw [loop_at (i := .jmpCond false 3) (hf := by omega) (h := rfl)]
  simp only [step, popV, popS, Nat.reduceAdd, Nat.reduceSub]
  simp only [show (true == false) = false from rfl, Bool.false_eq_true, if_false]
  rw [loop_at (i := .pop) (hf := by omega) (h := rfl)]
  simp only [step, liftNext, popV, popS, Nat.reduceAdd, Nat.reduceSub]
  rw [loop_at (i := .push (.int 1)) (hf := by omega) (h := rfl)]
  simp only [step, pushV, Nat.reduceAdd, Nat.reduceSub]
  rw [loop_at (i := .jmp 5) (hf := by omega) (h := rfl)]
  simp only [step, List.length_cons, List.length_nil, Nat.reduceAdd, Nat.reduceSub]
  rw [show jumpTarget 9 5 14 = some 14 from by decide]
  simp only []
  rw [loop_end (h := by simp)]
  simp [finish, popS]

theorem has_lvl_err (b : Nat) (env : Env) (nxt : Str) (log log' : Log) (a : Abort)
    (hb : env.hasBinds = true) (hcm : env.compileMode = false) (hf : env.getFunc B "has".toList = none)
    (hka : a.kind = .runtime)
    (hr : runAt B b env (refBlock nxt) true log = { res := .error a, log := log' }) :
    runAt B (b + 1) env (hasLink nxt) true log = { res := .error (.err .runtime), log := log' } := by
  rw [nested_runs_at_smaller_budget]
  simp only [hasLink, blockFuel, List.length_cons, List.length_nil, Nat.reduceAdd, Nat.reduceMul]
  rw [loop_at (i := .push (.code (refBlock nxt))) (hf := by omega) (h := rfl)]
  simp only [step, pushV, Nat.reduceAdd, Nat.reduceSub]
  rw [loop_at (i := .push (.ident "has".toList)) (hf := by omega) (h := rfl)]
  simp only [step, pushV, Nat.reduceAdd, Nat.reduceSub]
  rw [loop_at (i := .call 1) (hf := by omega) (h := rfl)]
  rw [step_call_macro1 (hf := hf) (hm := has_isMacro env hb hcm), callMacro_has_err _ _ _ _ _ _ _ hka hr]
  simp only [Nat.reduceAdd, Nat.reduceSub]
  rw [loop_at (i := .test) (hf := by omega) (h := rfl)]
  simp only [step, liftNext, unop, popV, popS, pushV, vTest, Nat.reduceAdd, Nat.reduceSub]
  rw [loop_at (i := .dup) (hf := by omega) (h := rfl)]
  simp only [step, popV, popS, pushV, Nat.reduceAdd, Nat.reduceSub]
  rw [loop_at (i := .jmpCond false 3) (hf := by omega) (h := rfl)]
  simp only [step, popV, popS, List.length_cons, List.length_nil, Nat.reduceAdd, Nat.reduceSub]
  rw [show jumpTarget 6 3 14 = some 9 from by decide]
  simp only [show (false == false) = true from rfl, if_true]
  rw [loop_at (i := .dup) (hf := by omega) (h := rfl)]
  simp only [step, popV, popS, pushV, Nat.reduceAdd, Nat.reduceSub]
  rw [loop_at (i := .not) (hf := by omega) (h := rfl)]
  simp only [step, liftNext, unop, popV, popS, pushV, vNot, Nat.reduceAdd, Nat.reduceSub]
  rw [loop_at (i := .jmpCond false 2) (hf := by omega) (h := rfl)]
  simp only [step, popV, popS, List.length_cons, List.length_nil, Nat.reduceAdd, Nat.reduceSub]
  rw [show jumpTarget 12 2 14 = some 14 from by decide]
  simp only [show (false == false) = true from rfl, if_true]
  rw [loop_end (h := by simp)]
  simp [finish, popS]


def hasArg (B : Builtins) : Shape where
  code := hasLink
  cost := 2
  inner := fun env => env
  good := fun env => env.hasBinds = true ∧ env.compileMode = false ∧ env.getFunc B "has".toList = none
  okName := fun _ => True
  val := fun d => if d = 0 then 0 else 1

/-- **The accounting of a `has` argument**: two levels per reference; the depth failure passes. -/
theorem hasArg_sound : (hasArg B).Sound B :=
  Shape.sound_of_block (hasArg B) rfl rfl (fun _ h => h) (fun _ _ => rfl) (fun _ _ _ => rfl) (fun _ _ => rfl)
    (fun b env nxt log log' d hg _ _ hr => by
      have := has_lvl_ok b env nxt log log' _ hg.1 hg.2.1 hg.2.2 hr
      simpa [hasArg] using this)
    (fun b env nxt log log' a hg _ hka hr =>
      ⟨.err .runtime, has_lvl_err b env nxt log log' a hg.1 hg.2.1 hg.2.2 hka hr, rfl⟩)

/-- **`has`-argument chains up to 15 references evaluate** (to 1 as soon as there is a reference). -/
theorem has_chain_ok (env : Env) (names : Nat → Str) (k : Nat)
    (hc : IsBlockChain (hasArg B) env names k) (hk : k ≤ 15) :
    execProg B env (blockChainCode (hasArg B) names k 0) =
      { res := .ok (.int (if k = 0 then 0 else 1)), log := [] } :=
  block_chain_ok (hasArg B) hasArg_sound env names k hc (by show k * 2 < 32; omega)

/-- **From 16 references on the chain ends in a Runtime failure** — `has` does not answer `false`. -/
theorem has_chain_too_deep (env : Env) (names : Nat → Str) (k : Nat)
    (hc : IsBlockChain (hasArg B) env names k) (hk : 16 ≤ k) :
    ∃ a, execProg B env (blockChainCode (hasArg B) names k 0) = { res := .error a, log := [] } ∧
      a.kind = .runtime :=
  block_chain_too_deep (hasArg B) hasArg_sound env names k hc (by show 32 ≤ k * 2; omega)

theorem std_has_func (now : Int) : (stdBuiltins now).func "has".toList = none := rfl

theorem hasEnv_isChain (hB : B.func "has".toList = none) (k : Nat) :
    IsBlockChain (hasArg B) (blockChainEnv (hasArg B) k) qname k :=
  blockChainEnv_isChain _ k ⟨rfl, rfl, getFunc_blockChainEnv _ k _ hB⟩ (fun _ => trivial)

/-- The concrete statement for every `k` (context `q := has(qq) ? 1 : 0, …`). -/
theorem has_concrete (hB : B.func "has".toList = none) (k : Nat) :
    (k ≤ 15 → execProg B (blockChainEnv (hasArg B) k) (blockChainCode (hasArg B) qname k 0) =
      { res := .ok (.int (if k = 0 then 0 else 1)), log := [] }) ∧
    (16 ≤ k → ∃ a, execProg B (blockChainEnv (hasArg B) k) (blockChainCode (hasArg B) qname k 0) =
      { res := .error a, log := [] } ∧ a.kind = .runtime) :=
  ⟨has_chain_ok _ _ k (hasEnv_isChain hB k), has_chain_too_deep _ _ k (hasEnv_isChain hB k)⟩

/-! ### non-vacuity: the hypotheses of the chain theorems hold in the concrete contexts -/

example : IsBlockChain (coalesceArg (stdBuiltins 0)) (blockChainEnv (coalesceArg (stdBuiltins 0)) 15) qname 15 :=
  coalesceEnv_isChain (std_coalesce_func 0) 15
example : IsBlockChain (hasArg (stdBuiltins 0)) (blockChainEnv (hasArg (stdBuiltins 0)) 16) qname 16 :=
  hasEnv_isChain (std_has_func 0) 16
example : IsBlockChain (fstrArg (stdBuiltins 0)) (blockChainEnv (fstrArg (stdBuiltins 0)) 11) qname 11 :=
  fstrEnv_isChain (std_string_func 0) (std_int_func 0) 11
example : FmtZero (stdBuiltins 0) := stdBuiltins_fmtZero 0

end C12Blocks
end Rscel
