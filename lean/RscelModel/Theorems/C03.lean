import RscelModel.Model.Arith
/-
C03 — numeric operators are exact or fail; no wrap-around.

Numeric operands are described by `Num` (their *mathematical* reading), independent of how
`arith` is organised (widening first, then per-type arms).  The theorems say that `arith`
computes the exact result in ℤ and narrows it to the result type fixed by the widening rules,
or fails; with a double operand the result is the hardware operation on the nearest doubles.
-/
namespace Rscel
namespace C03

/-- A numeric operand with its mathematical reading. -/
inductive Num
  | I (i : Int)      -- int
  | U (n : Nat)      -- uint
  | B (b : Bool)     -- bool, counts as 0/1
  | D (bits : UInt64) -- double

def Num.toVal : Num → Val
  | .I i => .int i | .U n => .uint n | .B b => .bool b | .D d => .float d

/-- Operand is inside its machine type. -/
def Num.inRange : Num → Prop
  | .I i => inI64 i = true
  | .U n => inU64 n = true
  | _ => True

/-- The integer an int/uint/bool operand denotes. -/
def Num.z : Num → Option Int
  | .I i => some i | .U n => some n | .B b => some (b01 b) | .D _ => none

/-- The double an operand is widened to when the other operand is a double. -/
def Num.toF : Num → UInt64
  | .I i => F.ofInt i | .U n => F.ofNat n | .B b => b01f b | .D d => d

/-- Result type of an all-integer pair: uint only when no int takes part; int otherwise. -/
def unsignedResult : Num → Num → Bool
  | .U _, .U _ => true | .U _, .B _ => true | .B _, .U _ => true
  | _, _ => false

def bothBool : Num → Num → Bool
  | .B _, .B _ => true
  | _, _ => false

/-- The property's outcome for integer operands: exact in ℤ, then representable-or-error. -/
def exactOutcome (op : ArithOp) (unsigned : Bool) (a b : Int) : Val :=
  match op.onInt a b with
  | none => .err .divZero
  | some r => if unsigned then (if inU64 r then .uint r.toNat else .err .value)
              else (if inI64 r then .int r else .err .value)

theorem arith_ii (op a b) : arith op (.int a) (.int b) = intArm op a b := rfl
theorem arith_iu (op a) (b : Nat) : arith op (.int a) (.uint b) = intArm op a b := by
  by_cases h : (b : Int) ≤ i64Max <;> simp [arith, errProp, arithCore, widen, h]
theorem arith_ui (op) (a : Nat) (b) : arith op (.uint a) (.int b) = intArm op a b := by
  by_cases h : (a : Int) ≤ i64Max <;> simp [arith, errProp, arithCore, widen, h]
theorem arith_uu (op) (a b : Nat) : arith op (.uint a) (.uint b) = uintArm op a b := rfl
theorem arith_ib (op a b) : arith op (.int a) (.bool b) = intArm op a (b01 b) := rfl
theorem arith_bi (op a b) : arith op (.bool a) (.int b) = intArm op (b01 a) b := rfl
theorem arith_ub (op) (a : Nat) (b) : arith op (.uint a) (.bool b) = uintArm op a (b01n b) := rfl
theorem arith_bu (op a) (b : Nat) : arith op (.bool a) (.uint b) = uintArm op (b01n a) b := rfl

theorem b01n_cast (b : Bool) : ((b01n b : Nat) : Int) = b01 b := by cases b <;> rfl

theorem intArm_eq (op a b) : intArm op a b = exactOutcome op false a b := by
  unfold intArm exactOutcome narrowI; split <;> simp_all

theorem uintArm_eq (op) (a b : Nat) : uintArm op a b = exactOutcome op true a b := by
  unfold uintArm exactOutcome narrowU; split <;> simp_all

/-- **Integer operands (all 8 int/uint/bool pairings): exact result in the result type, or an error.**
    Widening never changes the numeric value: the outcome depends only on the integers denoted. -/
theorem int_exact_or_error (op : ArithOp) (x y : Num) (a b : Int)
    (hx : x.z = some a) (hy : y.z = some b) (hbb : bothBool x y = false) :
    arith op x.toVal y.toVal = exactOutcome op (unsignedResult x y) a b := by
  cases x <;> cases y <;> simp only [Num.z, Option.some.injEq, reduceCtorEq] at hx hy <;>
    subst hx <;> subst hy <;> simp only [Num.toVal, unsignedResult]
  · rw [arith_ii, intArm_eq]
  · rw [arith_iu, intArm_eq]
  · rw [arith_ib, intArm_eq]
  · rw [arith_ui, intArm_eq]
  · rw [arith_uu, uintArm_eq]
  · rw [arith_ub, uintArm_eq, b01n_cast]
  · rw [arith_bi, intArm_eq]
  · rw [arith_bu, uintArm_eq, b01n_cast]
  · simp [bothBool] at hbb

/-- No wrap-around: an integer result is always the exact one and lies in range. -/
theorem int_result_is_exact (op : ArithOp) (x y : Num) (a b r : Int)
    (hx : x.z = some a) (hy : y.z = some b) (hbb : bothBool x y = false)
    (h : arith op x.toVal y.toVal = .int r) :
    op.onInt a b = some r ∧ inI64 r = true := by
  rw [int_exact_or_error op x y a b hx hy hbb] at h
  unfold exactOutcome at h
  split at h
  · cases h
  · split at h
    · split at h <;> cases h
    · split at h
      · cases h; simp_all
      · cases h

theorem uint_result_is_exact (op : ArithOp) (x y : Num) (a b : Int) (n : Nat)
    (hx : x.z = some a) (hy : y.z = some b) (hbb : bothBool x y = false)
    (h : arith op x.toVal y.toVal = .uint n) :
    op.onInt a b = some (n : Int) ∧ inU64 n = true ∧ unsignedResult x y = true := by
  rw [int_exact_or_error op x y a b hx hy hbb] at h
  unfold exactOutcome at h
  split at h
  · cases h
  · rename_i r hr
    split at h
    · split at h
      · cases h
        rename_i hu
        have : 0 ≤ r := by
          have := (inU64_iff r).mp hu
          omega
        simp_all [Int.toNat_of_nonneg this]
      · cases h
    · split at h <;> cases h

/-- Division and remainder by zero fail, for every integer pairing. -/
theorem div_rem_by_zero (x y : Num) (a : Int) (hx : x.z = some a) (hy : y.z = some 0)
    (hbb : bothBool x y = false) :
    arith .div x.toVal y.toVal = .err .divZero ∧ arith .rem x.toVal y.toVal = .err .divZero := by
  constructor <;> rw [int_exact_or_error _ x y a 0 hx hy hbb] <;> simp [exactOutcome, ArithOp.onInt]

/-- `/` and `%` are truncating division: quotient toward zero, remainder with the dividend's sign. -/
theorem div_rem_spec (a b : Int) (hb : b ≠ 0) :
    ArithOp.div.onInt a b = some (Int.tdiv a b) ∧ ArithOp.rem.onInt a b = some (Int.tmod a b) ∧
    b * Int.tdiv a b + Int.tmod a b = a ∧ (Int.tmod a b).natAbs < b.natAbs ∧
    (0 ≤ a → 0 ≤ Int.tmod a b) ∧ (a ≤ 0 → Int.tmod a b ≤ 0) := by
  refine ⟨by simp [ArithOp.onInt, hb], by simp [ArithOp.onInt, hb], Int.mul_tdiv_add_tmod a b, ?_, ?_, ?_⟩
  · rw [Int.natAbs_tmod]
    exact Nat.mod_lt _ (by omega)
  · intro ha; exact Int.tmod_nonneg b ha
  · intro ha
    have := Int.tmod_nonneg b (Int.neg_nonneg.mpr ha)
    rw [Int.neg_tmod] at this
    omega

/-- `MIN / -1` overflows and is an error; `MIN % -1` is `0`. -/
theorem min_div_neg_one :
    arith .div (.int i64Min) (.int (-1)) = .err .value ∧ arith .rem (.int i64Min) (.int (-1)) = .int 0 :=
  ⟨rfl, rfl⟩

/-- **A double operand**: the other side becomes its nearest double (`F.ofInt`/`F.ofNat`, 0/1 for bool)
    and the result is the IEEE operation; `%` is not defined on doubles. -/
theorem double_arm (op : ArithOp) (x y : Num) (h : (∃ d, x = .D d) ∨ (∃ d, y = .D d)) :
    arith op x.toVal y.toVal =
      match op.onFloat x.toF y.toF with
      | some r => .float r
      | none => .err .invalidOp := by
  rcases h with ⟨d, rfl⟩ | ⟨d, rfl⟩
  · cases y <;> rfl
  · cases x <;> rfl

theorem rem_on_double_is_error (x y : Num) (h : (∃ d, x = .D d) ∨ (∃ d, y = .D d)) :
    arith .rem x.toVal y.toVal = .err .invalidOp := by
  rw [double_arm .rem x y h]; rfl

/-- Unary minus: exact on int (so `-MIN` fails), sign flip on double, error on everything else
    (in particular on uint); an error operand is passed on. -/
theorem neg_spec :
    (∀ a, neg (.int a) = if inI64 (-a) then .int (-a) else .err .value) ∧
    (∀ d, neg (.float d) = .float (F.neg d)) ∧
    (∀ n, neg (.uint n) = .err .invalidOp) ∧
    (∀ k, neg (.err k) = .err k) ∧
    neg (.int i64Min) = .err .value := by
  exact ⟨fun a => rfl, fun d => rfl, fun n => rfl, fun k => rfl, rfl⟩

/-- Leftmost failing operand wins. -/
theorem err_leftmost (op : ArithOp) (k : ErrKind) (r : Val) :
    arith op (.err k) r = .err k := rfl

theorem err_right (op : ArithOp) (k : ErrKind) (l : Val) (h : l.isErr = false) :
    arith op l (.err k) = .err k := by
  cases l <;> simp_all [arith, errProp, Val.isErr]

/-- Is this pair one of the non-numeric combinations the operators accept? -/
def allowedOther : ArithOp → Val → Val → Bool
  | .add, .str _, .str _ | .add, .bytes _, .bytes _ | .add, .list _, .list _
  | .add, .ts _, .dur _ | .add, .dur _, .ts _ | .add, .dur _, .dur _
  | .sub, .ts _, .dur _ | .sub, .ts _, .ts _ | .sub, .dur _, .ts _ | .sub, .dur _, .dur _ => true
  | _, _, _ => false

def isNumeric : Val → Bool
  | .int _ | .uint _ | .float _ | .bool _ => true
  | _ => false

/-- **Every other operand combination is an error** (one side not numeric, and not
    string/bytes/list concatenation or timestamp/duration arithmetic). -/
theorem other_combinations_fail (op : ArithOp) (l r : Val)
    (hn : isNumeric l = false ∨ isNumeric r = false) (ha : allowedOther op l r = false) :
    (arith op l r).isErr = true := by
  cases l <;> cases r <;> cases op <;>
    simp_all [isNumeric, allowedOther, arith, errProp, arithCore, widen, otherArm, Val.isErr]

/-- bool op bool is not arithmetic (no widening applies). -/
theorem bool_bool_fails (op : ArithOp) (a b : Bool) : arith op (.bool a) (.bool b) = .err .invalidOp := by
  cases op <;> rfl

/-- Concatenation keeps order. -/
theorem concat_spec (a b : Str) (x y : List UInt8) (l m : List Val) :
    arith .add (.str a) (.str b) = .str (a ++ b) ∧
    arith .add (.bytes x) (.bytes y) = .bytes (x ++ y) ∧
    arith .add (.list l) (.list m) = .list (l ++ m) := ⟨rfl, rfl, rfl⟩

/-- Non-vacuity: concrete instances of the hypotheses, including the boundary cases. -/
example : arith .add (.int 9223372036854775807) (.int 1) = .err .value := by rfl
example : arith .add (.int 1) (.uint 18446744073709551615) = .err .value := by rfl
example : arith .add (.int (-1)) (.uint 9223372036854775808) = .int 9223372036854775807 := by rfl
example : arith .sub (.uint 1) (.uint 2) = .err .value := by rfl
example : arith .sub (.uint 1) (.int 2) = .int (-1) := by rfl
example : arith .mul (.bool true) (.uint 7) = .uint 7 := by rfl
example : arith .rem (.int 7) (.int 0) = .err .divZero := by rfl
example : arith .rem (.int (-7)) (.int 2) = .int (-1) := by rfl

end C03
end Rscel
